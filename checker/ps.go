package main

// PS — path-effect summaries. Per entry function, enumerate control-flow paths over SSA (same
// package non-recursive helpers and the entry's own family inlined, closures inlined at their
// call, re-entry into the family kept as an opaque Rec node) and record, in a small normalised
// vocabulary, the guards taken, the effects performed and the result returned. No solver: a
// path is pruned only when two of its atoms contradict syntactically or a condition folds to a
// constant. Loops are not unrolled: a path that reaches a back edge ends there as an iteration
// segment; loop-carried values are Carried terms.

import (
	"fmt"
	"go/constant"
	"go/token"
	"go/types"
	"os"
	"sort"
	"strings"

	"golang.org/x/tools/go/ssa"
)

// ---- terms ------------------------------------------------------------------------------------

type T struct {
	Op   string
	Name string
	Args []*T
	N    int
	V    ssa.Value
	Typ  types.Type // static type of the underlying (unboxed) value when known
	s    string
}

func (t *T) String() string {
	if t == nil {
		return "<nil>"
	}
	if t.s != "" {
		return t.s
	}
	var sb strings.Builder
	switch t.Op {
	case "param", "free", "global":
		sb.WriteString(t.Op + ":" + t.Name)
	case "const":
		sb.WriteString(t.Name)
	default:
		sb.WriteString(t.Op)
		if t.Name != "" {
			sb.WriteString("<" + t.Name + ">")
		}
		if t.N != 0 {
			fmt.Fprintf(&sb, "#%d", t.N)
		}
		if len(t.Args) > 0 {
			sb.WriteString("(")
			for i, a := range t.Args {
				if i > 0 {
					sb.WriteString(", ")
				}
				sb.WriteString(a.String())
			}
			sb.WriteString(")")
		}
	}
	t.s = sb.String()
	return t.s
}

func (t *T) Is(op string) bool { return t != nil && t.Op == op }

func (t *T) IsConst(lit string) bool { return t != nil && t.Op == "const" && t.Name == lit }

func (t *T) IsNil() bool { return t != nil && t.Op == "const" && t.Name == "nil" }

// IsEmptyList: a list that is certainly empty when created: []T{} or make([]T, 0[, cap]).
func (t *T) IsEmptyList() bool {
	if t == nil {
		return false
	}
	if t.Op == "lit" && len(t.Args) == 0 {
		return true
	}
	if t.Op == "fresh" && t.Name == "slice" && len(t.Args) == 1 && t.Args[0].Op == "const" && t.Args[0].Name == "0" {
		return true
	}
	return false
}

func (t *T) IsParam(name string) bool { return t != nil && t.Op == "param" && t.Name == name }

// StrConst returns the string value if t is a string constant.
func (t *T) StrConst() (string, bool) {
	if t == nil || t.Op != "const" || len(t.Name) < 2 || t.Name[0] != '"' {
		return "", false
	}
	s, err := strconvUnquote(t.Name)
	if err != nil {
		return "", false
	}
	return s, true
}

// Contains reports whether sub occurs in t (by canonical string identity).
func (t *T) Contains(sub *T) bool {
	if t == nil || sub == nil {
		return false
	}
	if t.String() == sub.String() {
		return true
	}
	for _, a := range t.Args {
		if a.Contains(sub) {
			return true
		}
	}
	return false
}

// Find returns every subterm satisfying pred.
func (t *T) Find(pred func(*T) bool) []*T {
	var out []*T
	var walk func(x *T)
	walk = func(x *T) {
		if x == nil {
			return
		}
		if pred(x) {
			out = append(out, x)
		}
		for _, a := range x.Args {
			walk(a)
		}
	}
	walk(t)
	return out
}

func mkConst(lit string, typ types.Type) *T { return &T{Op: "const", Name: lit, Typ: typ} }

var tTrue = mkConst("true", types.Typ[types.Bool])
var tFalse = mkConst("false", types.Typ[types.Bool])

// ---- atoms ------------------------------------------------------------------------------------

type Atom struct {
	Kind  string // kind | streq | eq | prefix | suffix | contains | has | nil | err | truth | len | cmp | itermore | opaque
	A, B  *T
	Const string
	Neg   bool
	Pos   token.Pos
}

func (a Atom) key() string {
	return a.Kind + "|" + a.A.String() + "|" + a.B.String() + "|" + a.Const
}

func (a Atom) String() string {
	s := ""
	switch a.Kind {
	case "kind":
		s = fmt.Sprintf("kind(%s)=%s", a.A, a.Const)
	case "streq":
		s = fmt.Sprintf("%s==%s", a.A, a.Const)
	case "eq":
		s = fmt.Sprintf("%s==%s", a.A, a.B)
	case "prefix", "suffix", "contains":
		s = fmt.Sprintf("%s(%s,%s)", a.Kind, a.A, a.Const)
	case "has":
		s = fmt.Sprintf("has(%s,%s)", a.A, a.B)
	case "nil":
		s = fmt.Sprintf("%s==nil", a.A)
	case "err":
		s = fmt.Sprintf("err(%s)", a.A)
	case "truth":
		s = fmt.Sprintf("%s", a.A)
	case "len":
		s = fmt.Sprintf("len(%s)%s", a.A, a.Const)
	case "itermore":
		s = fmt.Sprintf("more(%s)", a.A)
	default:
		s = fmt.Sprintf("%s[%s %s %s]", a.Kind, a.A, a.Const, a.B)
	}
	if a.Neg {
		return "!" + s
	}
	return s
}

// ---- effects and paths ------------------------------------------------------------------------

type Effect struct {
	Kind   string // mapset mapdel fieldset elemset cellset call rec extcall dyncall invoke defer go
	Callee string
	Fn     *ssa.Function // static callee, if any
	Args   []*T
	Res    *T
	Loops  []int
	Pos    token.Pos
	In     string // function in which the instruction lives
}

func (e Effect) String() string {
	var as []string
	for _, a := range e.Args {
		as = append(as, a.String())
	}
	s := e.Kind
	if e.Callee != "" {
		s += "<" + e.Callee + ">"
	}
	s += "(" + strings.Join(as, ", ") + ")"
	if len(e.Loops) > 0 {
		s += fmt.Sprintf(" @loops%v", e.Loops)
	}
	return s
}

type Path struct {
	Guards    []Atom
	Effects   []Effect
	Results   []*T
	End       string // return | iter | exit | panic
	Loop      int    // for iter: loop instance whose back edge ended the path
	Loops     []int  // loops active at the end
	EndPos    token.Pos
	Blocks    []string
	Carried   map[int]*T     // for iter: value of each loop-carried variable of the loop at the back edge
	LoopRange map[int]string // loop instance -> the collection its header ranges over (term string), when known
}

func (p *Path) String() string {
	var gs, es, rs []string
	for _, g := range p.Guards {
		gs = append(gs, g.String())
	}
	for _, e := range p.Effects {
		es = append(es, e.String())
	}
	for _, r := range p.Results {
		rs = append(rs, r.String())
	}
	return fmt.Sprintf("[%s] if {%s} do {%s} -> (%s)", p.End, strings.Join(gs, " && "), strings.Join(es, "; "), strings.Join(rs, ", "))
}

// HasGuard reports whether the path condition contains the atom (by key) with the polarity.
func (p *Path) HasGuard(kind string, neg bool, match func(Atom) bool) bool {
	for _, g := range p.Guards {
		if g.Kind == kind && g.Neg == neg && (match == nil || match(g)) {
			return true
		}
	}
	return false
}

// ---- exploration state ------------------------------------------------------------------------

type envKey struct {
	frame int
	v     ssa.Value
}

type cellKey struct {
	frame int
	al    *ssa.Alloc
}

type loopInst struct {
	id     int
	frame  int
	header *ssa.BasicBlock
	seq    int // cell sequence number at loop entry: cells created later are iteration-local
}

type state struct {
	env       map[envKey]*T
	cells     map[cellKey]*T
	cellSeq   map[cellKey]int
	fields    map[string]*T // "objterm|field" -> value
	arrays    map[cellKey]map[int64]*T
	guards    []Atom
	gkeys     map[string]bool // key -> neg polarity present? stored as key+"|"+neg
	effects   []Effect
	loops     []loopInst
	resolve   map[int]*T // carried id -> resolved constant
	blocks    []string
	seq       int
	loopRange map[int]string
	unroll    map[hdrKey]int // loops over a short constant literal that are unrolled: iterations so far
}

type hdrKey struct {
	frame int
	h     *ssa.BasicBlock
}

func (s *state) clone() *state {
	n := &state{
		env:       make(map[envKey]*T, len(s.env)),
		cells:     make(map[cellKey]*T, len(s.cells)),
		cellSeq:   make(map[cellKey]int, len(s.cellSeq)),
		fields:    make(map[string]*T, len(s.fields)),
		arrays:    make(map[cellKey]map[int64]*T, len(s.arrays)),
		gkeys:     make(map[string]bool, len(s.gkeys)),
		resolve:   make(map[int]*T, len(s.resolve)),
		seq:       s.seq,
		loopRange: make(map[int]string, len(s.loopRange)),
	}
	for k, v := range s.loopRange {
		n.loopRange[k] = v
	}
	if len(s.unroll) > 0 {
		n.unroll = make(map[hdrKey]int, len(s.unroll))
		for k, v := range s.unroll {
			n.unroll[k] = v
		}
	}
	for k, v := range s.env {
		n.env[k] = v
	}
	for k, v := range s.cells {
		n.cells[k] = v
	}
	for k, v := range s.cellSeq {
		n.cellSeq[k] = v
	}
	for k, v := range s.fields {
		n.fields[k] = v
	}
	for k, v := range s.arrays {
		m := make(map[int64]*T, len(v))
		for i, e := range v {
			m[i] = e
		}
		n.arrays[k] = m
	}
	for k, v := range s.gkeys {
		n.gkeys[k] = v
	}
	for k, v := range s.resolve {
		n.resolve[k] = v
	}
	n.guards = append([]Atom(nil), s.guards...)
	n.effects = append([]Effect(nil), s.effects...)
	n.loops = append([]loopInst(nil), s.loops...)
	n.blocks = append([]string(nil), s.blocks...)
	return n
}

type frame struct {
	id       int
	fn       *ssa.Function
	parent   *frame
	depth    int
	free     map[*ssa.FreeVar]*T // bindings of free variables (address terms or values)
	onReturn func(st *state, results []*T)
}

// PSOpts controls inlining.
type PSOpts struct {
	MaxDepth     int
	MaxPaths     int
	NoInline     map[string]bool // function keys never inlined (kept as calls)
	Inline       map[string]bool // function keys inlined even though recursive elsewhere
	EntryFree    bool            // entry is a closure: its free variables are symbolic
	NoInlinePkgs []string        // short package names whose functions are never inlined
}

type explorer struct {
	p        *Prog
	g        *CallGraph
	opts     PSOpts
	entry    *ssa.Function
	family   map[*ssa.Function]bool
	paths    []*Path
	nFrames  int
	nTerms   int
	nLoops   int
	nCarried int
	havoc    map[*ssa.BasicBlock]map[*ssa.Alloc]bool     // loop header -> cells to havoc
	havocF   map[*ssa.BasicBlock]map[psFieldKey]bool     // loop header -> fields of local structs written in the loop
	fills    map[*ssa.BasicBlock]map[*ssa.MakeSlice]bool // loop header -> pre-sized slices filled by index in the loop
	rerun    bool
	carried  map[int][]*T          // loop instance -> ... sources per carried id
	carSrc   map[int][]*T          // carried id -> back-edge sources
	carInit  map[int]*T            // carried id -> initial value
	loopCars map[int][]int         // loop instance id -> carried ids
	carOf    map[int]carriedOrigin // carried id -> where it lives
	closures map[*T]*closureVal
	overflow bool
	loopsOf  map[*ssa.Function]map[*ssa.BasicBlock]map[*ssa.BasicBlock]bool // fn -> header -> body
}

type carriedOrigin struct {
	phi       *ssa.Phi
	cell      cellKey
	field     string         // key into state.fields: a field of a local struct that is updated inside the loop
	fill      *ssa.MakeSlice // a slice made with the length of the ranged collection and filled by index: read as an accumulator
	fillFrame int
}

// psFieldKey: a field of a struct-typed local (an Alloc), as loop-carried state.
type psFieldKey struct {
	al *ssa.Alloc
	f  string
}

type closureVal struct {
	fn       *ssa.Function
	bindings []*T
	frame    int
}

// Paths enumerates the paths of entry. The result is cached per (function, options signature).
func (p *Prog) Paths(entry *ssa.Function, opts PSOpts) []*Path {
	if opts.MaxDepth == 0 {
		opts.MaxDepth = 12
	}
	if opts.MaxPaths == 0 {
		opts.MaxPaths = 6000
	}
	key := p.FuncName(entry) + "|" + fmt.Sprint(opts.MaxDepth, sortedBoolKeys(opts.NoInline), sortedBoolKeys(opts.Inline), opts.NoInlinePkgs)
	if p.pathCache == nil {
		p.pathCache = map[string][]*Path{}
	}
	if ps, ok := p.pathCache[key]; ok {
		p.lastPathKey = key
		return ps
	}
	g := p.CG()
	x := &explorer{p: p, g: g, opts: opts, entry: entry, family: map[*ssa.Function]bool{},
		havoc: map[*ssa.BasicBlock]map[*ssa.Alloc]bool{}, havocF: map[*ssa.BasicBlock]map[psFieldKey]bool{}, fills: map[*ssa.BasicBlock]map[*ssa.MakeSlice]bool{}, loopsOf: map[*ssa.Function]map[*ssa.BasicBlock]map[*ssa.BasicBlock]bool{}}
	for _, f := range p.Funcs {
		if g.SameSCC(entry, f) || f == entry {
			x.family[f] = true
		}
	}
	for iter := 0; iter < 6; iter++ {
		x.paths = nil
		x.rerun = false
		x.nFrames, x.nTerms, x.nLoops, x.nCarried = 0, 0, 0, 0
		x.carSrc = map[int][]*T{}
		x.carInit = map[int]*T{}
		x.loopCars = map[int][]int{}
		x.carOf = map[int]carriedOrigin{}
		x.closures = map[*T]*closureVal{}
		st := &state{env: map[envKey]*T{}, cells: map[cellKey]*T{}, cellSeq: map[cellKey]int{}, fields: map[string]*T{}, arrays: map[cellKey]map[int64]*T{}, gkeys: map[string]bool{}, resolve: map[int]*T{}, loopRange: map[int]string{}}
		fr := x.newFrame(entry, nil)
		for _, par := range entry.Params {
			if g := x.p.paramAlwaysGlobal(par, 0); g != nil {
				// a parameter that is handed the same package-level variable at every call is that variable
				st.env[envKey{fr.id, par}] = &T{Op: "global", Name: g.Name(), V: par, Typ: concreteType(par.Type())}
				continue
			}
			st.env[envKey{fr.id, par}] = &T{Op: "param", Name: x.p.ParamName(par), V: par, Typ: concreteType(par.Type())}
		}
		fr.free = map[*ssa.FreeVar]*T{}
		for _, fv := range entry.FreeVars {
			fr.free[fv] = &T{Op: "free", Name: fv.Name(), V: fv}
		}
		fr.onReturn = func(st *state, results []*T) {
			x.emit(st, "return", results, 0, token.NoPos)
		}
		x.run(st, fr, entry.Blocks[0], nil, 0)
		if x.overflow {
			undecided("path enumeration of %s exceeds %d paths", p.FuncName(entry), opts.MaxPaths)
		}
		if !x.rerun {
			break
		}
	}
	// an iteration that does nothing but collect the current key of a map into a list of all its keys is
	// bookkeeping for the sorted enumeration that follows (the sort of such a list is read as
	// slices.Sorted(maps.Keys(m))): it is not an iteration "over the entries" that rules should see
	kept := x.paths[:0:0]
	for _, pa := range x.paths {
		if pa.End == "iter" && x.onlyCollectsKeys(pa) {
			inLoop := false
			for _, e := range pa.Effects {
				for _, l := range e.Loops {
					if l == pa.Loop {
						inLoop = true
					}
				}
			}
			if !inLoop {
				continue
			}
		}
		// likewise an iteration that only writes to the debug log (and changes no loop-carried variable)
		if pa.End == "iter" && x.onlyLogs(pa) {
			continue
		}
		kept = append(kept, pa)
	}
	x.paths = kept
	// resolve carried terms that turned out constant is done during exploration; attach sources
	p.pathCache[key] = x.paths
	if p.carriedInfo == nil {
		p.carriedInfo = map[string]map[int]carriedInfo{}
	}
	ci := map[int]carriedInfo{}
	for id, src := range x.carSrc {
		ci[id] = carriedInfo{Init: x.carInit[id], Src: src}
	}
	for id, init := range x.carInit {
		if _, ok := ci[id]; !ok {
			ci[id] = carriedInfo{Init: init}
		}
	}
	p.carriedInfo[key] = ci
	p.lastPathKey = key
	return x.paths
}

// lenAtom: len(x) <op> n as an atom; for a string, len(s) == 0 is s == "" (one atom for both spellings).
func lenAtom(x *T, c string, neg bool) Atom {
	if c == "==0" && x != nil {
		t := x.Typ
		if t == nil && x.V != nil {
			t = x.V.Type()
		}
		if t != nil {
			if b, ok := t.Underlying().(*types.Basic); ok && b.Info()&types.IsString != 0 {
				return Atom{Kind: "streq", A: x, Const: `""`, Neg: neg}
			}
		}
	}
	return Atom{Kind: "len", A: x, Const: c, Neg: neg}
}

type carriedInfo struct {
	Init *T
	Src  []*T
}

func sortedBoolKeys(m map[string]bool) []string {
	var ks []string
	for k, v := range m {
		if v {
			ks = append(ks, k)
		}
	}
	sort.Strings(ks)
	return ks
}

func concreteType(t types.Type) types.Type {
	if t == nil {
		return nil
	}
	if _, isIface := t.Underlying().(*types.Interface); isIface {
		return nil
	}
	return t
}

func (x *explorer) newFrame(fn *ssa.Function, parent *frame) *frame {
	x.nFrames++
	d := 0
	if parent != nil {
		d = parent.depth + 1
	}
	return &frame{id: x.nFrames, fn: fn, parent: parent, depth: d}
}

func (x *explorer) emit(st *state, end string, results []*T, loop int, pos token.Pos) {
	if len(x.paths) >= x.opts.MaxPaths {
		x.overflow = true
		return
	}
	p := &Path{Guards: st.guards, Effects: st.effects, End: end, Loop: loop, EndPos: pos, Blocks: st.blocks, LoopRange: st.loopRange}
	for _, r := range results {
		rv := simplifyBool(st.guards, x.subst(st, r), 0)
		p.Results = append(p.Results, rv)
	}
	for _, l := range st.loops {
		p.Loops = append(p.Loops, l.id)
	}
	x.paths = append(x.paths, p)
}

// subst replaces resolved carried terms.
func (x *explorer) subst(st *state, t *T) *T {
	if t == nil || len(st.resolve) == 0 {
		return t
	}
	if t.Op == "carried" {
		if r, ok := st.resolve[t.N]; ok {
			return r
		}
		return t
	}
	changed := false
	var args []*T
	for _, a := range t.Args {
		na := x.subst(st, a)
		if na != a {
			changed = true
		}
		args = append(args, na)
	}
	if !changed {
		return t
	}
	return &T{Op: t.Op, Name: t.Name, Args: args, N: t.N, V: t.V, Typ: t.Typ}
}

func (x *explorer) loops(fn *ssa.Function) map[*ssa.BasicBlock]map[*ssa.BasicBlock]bool {
	if m, ok := x.loopsOf[fn]; ok {
		return m
	}
	m := map[*ssa.BasicBlock]map[*ssa.BasicBlock]bool{}
	for _, h := range fn.Blocks {
		isHeader := false
		for _, pr := range h.Preds {
			if h.Dominates(pr) {
				isHeader = true
			}
		}
		if !isHeader {
			continue
		}
		body := map[*ssa.BasicBlock]bool{}
		for _, b := range fn.Blocks {
			if inLoop(h, b) {
				body[b] = true
			}
		}
		m[h] = body
	}
	x.loopsOf[fn] = m
	return m
}

// ---- value evaluation -------------------------------------------------------------------------

func (x *explorer) val(st *state, fr *frame, v ssa.Value) *T {
	switch c := v.(type) {
	case *ssa.Const:
		return constTerm(c)
	case *ssa.Global:
		return &T{Op: "addr", Name: "global:" + c.Name(), V: c}
	case *ssa.Function:
		return &T{Op: "func", Name: x.fname(c), V: c}
	case *ssa.Builtin:
		return &T{Op: "builtin", Name: c.Name()}
	case *ssa.FreeVar:
		if t, ok := fr.free[c]; ok {
			return t
		}
		return &T{Op: "free", Name: c.Name(), V: c}
	}
	if t, ok := st.env[envKey{fr.id, v}]; ok {
		return x.subst(st, t)
	}
	// value defined in a block not executed on this path (should not happen) or a parameter of an inlined frame
	return &T{Op: "undef", Name: v.Name(), V: v}
}

func (x *explorer) fname(fn *ssa.Function) string {
	if x.p.InRepo(fn) {
		return x.p.FuncName(fn)
	}
	if o := fn.Origin(); o != nil {
		return o.String()
	}
	return fn.String()
}

func constTerm(c *ssa.Const) *T {
	if c.IsNil() || c.Value == nil {
		if c.Value == nil && !c.IsNil() {
			// zero value of a struct/array etc.
			return mkConst("zero", c.Type())
		}
		return mkConst("nil", nil)
	}
	switch c.Value.Kind() {
	case constant.String:
		return mkConst(strconvQuote(constant.StringVal(c.Value)), c.Type())
	case constant.Bool:
		if constant.BoolVal(c.Value) {
			return tTrue
		}
		return tFalse
	}
	return mkConst(c.Value.ExactString(), c.Type())
}

func (x *explorer) set(st *state, fr *frame, v ssa.Value, t *T) {
	st.env[envKey{fr.id, v}] = t
}

func (x *explorer) fresh(kind string, v ssa.Value, typ types.Type, args ...*T) *T {
	x.nTerms++
	return &T{Op: "fresh", Name: kind, N: x.nTerms, V: v, Typ: typ, Args: args}
}

// ---- the interpreter --------------------------------------------------------------------------

func (x *explorer) run(st *state, fr *frame, b *ssa.BasicBlock, prev *ssa.BasicBlock, idx int) {
	if x.overflow {
		return
	}
	if idx == 0 {
		// loop header handling
		if body, isHeader := x.loops(fr.fn)[b]; isHeader && x.unrolling(st, fr, b, prev, body) {
			// a range over a short literal of constants: walked element by element with concrete indices
			x.evalPhis(st, fr, b, prev)
		} else if cl := mapCopyLoopAt(b, body); isHeader && cl != nil && (prev == nil || !body[prev]) {
			// "m2 := make(map...); for k, v := range m { [if k != K] m2[k] = v }": m2 is maps.Clone(m) [minus K]
			x.nTerms++
			ct := &T{Op: "clone", N: x.nTerms, Args: []*T{x.val(st, fr, cl.src)}, V: cl.dst, Typ: concreteType(cl.dst.Type())}
			x.set(st, fr, cl.dst, ct)
			if cl.excl != nil {
				x.effect(st, fr, Effect{Kind: "mapdel", Args: []*T{ct, x.val(st, fr, cl.excl)}, Pos: cl.pos})
			}
			x.run(st, fr, cl.exit, b, 0)
			return
		} else if isHeader {
			// back edge?
			for i := len(st.loops) - 1; i >= 0; i-- {
				l := st.loops[i]
				if l.frame == fr.id && l.header == b {
					x.backEdge(st, fr, b, prev, l)
					return
				}
			}
			if prev == nil || !body[prev] {
				x.enterLoop(st, fr, b, prev, body)
			}
		} else {
			// phis of ordinary join blocks
			x.evalPhis(st, fr, b, prev)
		}
		if len(st.blocks) < 400 {
			st.blocks = append(st.blocks, fmt.Sprintf("%s.%d", fr.fn.Name(), b.Index))
		}
		// leaving loops: pop loop instances of this frame whose body does not contain b
		for len(st.loops) > 0 {
			l := st.loops[len(st.loops)-1]
			if l.frame != fr.id {
				break
			}
			if x.loops(fr.fn)[l.header][b] {
				break
			}
			st.loops = st.loops[:len(st.loops)-1]
		}
	}
	for i := idx; i < len(b.Instrs); i++ {
		in := b.Instrs[i]
		switch ins := in.(type) {
		case *ssa.Phi, *ssa.DebugRef:
			continue
		case *ssa.If:
			x.branch(st, fr, b, ins)
			return
		case *ssa.Jump:
			x.run(st, fr, b.Succs[0], b, 0)
			return
		case *ssa.Return:
			var res []*T
			for _, r := range ins.Results {
				res = append(res, x.val(st, fr, r))
			}
			// loops of this frame end with the frame
			for len(st.loops) > 0 && st.loops[len(st.loops)-1].frame == fr.id {
				st.loops = st.loops[:len(st.loops)-1]
			}
			fr.onReturn(st, res)
			return
		case *ssa.Panic:
			if strings.HasPrefix(b.Comment, "rangefunc.") || b.Comment == "yield-invalid" {
				return // compiler-generated iterator protocol check: not a user path
			}
			x.emit(st, "panic", []*T{x.val(st, fr, ins.X)}, 0, ins.Pos())
			return
		case ssa.CallInstruction:
			if x.call(st, fr, b, prev, i, ins) {
				return // continuation took over
			}
		default:
			x.instr(st, fr, in)
		}
	}
}

// mapCopyLoop describes a loop that does nothing but copy the entries of one map into a map made just for it.
type mapCopyLoop struct {
	src  ssa.Value    // the map ranged over
	dst  *ssa.MakeMap // the fresh map that receives every entry
	excl ssa.Value    // the one key left out (k != excl guards the store), or nil
	exit *ssa.BasicBlock
	pos  token.Pos
}

// mapCopyLoopAt: h heads "for k, v := range src { dst[k] = v }" or "... { if k != K { dst[k] = v } }" where dst is a
// make(map) that nothing touches before the loop and nothing else writes inside it: after the loop dst holds what
// maps.Clone(src) followed by delete(dst, K) holds (it is non-nil where Clone(nil) is nil; the may-be-nil analysis
// works on the SSA and is not affected). Anything else in the body — another store, a call, a carried variable —
// and the loop is explored like any other.
func mapCopyLoopAt(h *ssa.BasicBlock, body map[*ssa.BasicBlock]bool) *mapCopyLoop {
	if body == nil || len(h.Instrs) != 3 || len(h.Succs) != 2 {
		return nil
	}
	next, ok := h.Instrs[0].(*ssa.Next)
	if !ok || next.IsString {
		return nil
	}
	rng, ok := next.Iter.(*ssa.Range)
	if !ok {
		return nil
	}
	if _, isMap := rng.X.Type().Underlying().(*types.Map); !isMap {
		return nil
	}
	okX, ok := h.Instrs[1].(*ssa.Extract)
	if !ok || okX.Tuple != ssa.Value(next) || okX.Index != 0 {
		return nil
	}
	iff, ok := h.Instrs[2].(*ssa.If)
	if !ok || iff.Cond != ssa.Value(okX) || !body[h.Succs[0]] || body[h.Succs[1]] {
		return nil
	}
	cl := &mapCopyLoop{src: rng.X, exit: h.Succs[1]}
	var key, val *ssa.Extract
	stores := 0
	for blk := range body {
		if blk == h {
			continue
		}
		for _, in := range blk.Instrs {
			switch ins := in.(type) {
			case *ssa.DebugRef, *ssa.Jump:
			case *ssa.Extract:
				if ins.Tuple != ssa.Value(next) {
					return nil
				}
				switch ins.Index {
				case 1:
					key = ins
				case 2:
					val = ins
				default:
					return nil
				}
			case *ssa.BinOp:
				if ins.Op != token.NEQ || cl.excl != nil {
					return nil
				}
				kx, isX := ins.X.(*ssa.Extract)
				if !isX || kx.Tuple != ssa.Value(next) || kx.Index != 1 {
					return nil
				}
				if yi, isInstr := ins.Y.(ssa.Instruction); isInstr && body[yi.Block()] {
					return nil
				}
				cl.excl = ins.Y
			case *ssa.If:
				cmp, isCmp := ins.Cond.(*ssa.BinOp)
				if !isCmp || cmp.Block() != blk || cmp.Op != token.NEQ {
					return nil
				}
				// k != K: the true branch stores, the false branch goes straight back to the header
				if blk.Succs[1] != h {
					return nil
				}
			case *ssa.MapUpdate:
				mk, isMake := ins.Map.(*ssa.MakeMap)
				kx, isK := ins.Key.(*ssa.Extract)
				vx, isV := ins.Value.(*ssa.Extract)
				if !isMake || !isK || !isV || kx.Tuple != ssa.Value(next) || kx.Index != 1 || vx.Tuple != ssa.Value(next) || vx.Index != 2 {
					return nil
				}
				cl.dst, cl.pos = mk, ins.Pos()
				stores++
			default:
				return nil
			}
		}
	}
	_, _ = key, val
	if stores != 1 || cl.dst == nil || body[cl.dst.Block()] {
		return nil
	}
	if !types.Identical(cl.dst.Type().Underlying(), rng.X.Type().Underlying()) {
		return nil
	}
	// nothing but the loop's store touches the fresh map before the loop is over
	for _, ref := range *cl.dst.Referrers() {
		if _, isDbg := ref.(*ssa.DebugRef); isDbg {
			continue
		}
		rb := ref.Block()
		if body[rb] {
			if _, isUpd := ref.(*ssa.MapUpdate); !isUpd {
				return nil
			}
			continue
		}
		if rb == h || rb.Dominates(h) {
			return nil
		}
	}
	return cl
}

// unrolling: b is the header of "for i, v := range <literal of at most four constants>" (or an index loop with such
// a constant bound): instead of summarising the loop by one symbolic iteration, the explorer walks it with the
// concrete index, so that a test against each element reads like the chain of tests it abbreviates.
func (x *explorer) unrolling(st *state, fr *frame, b, prev *ssa.BasicBlock, body map[*ssa.BasicBlock]bool) bool {
	key := hdrKey{fr.id, b}
	if prev != nil && body[prev] {
		n, ok := st.unroll[key]
		if !ok {
			return false
		}
		if n > 8 {
			x.overflow = true
			return true
		}
		st.unroll[key] = n + 1
		return true
	}
	iff, ok := b.Instrs[len(b.Instrs)-1].(*ssa.If)
	if !ok {
		return false
	}
	cmp, ok := iff.Cond.(*ssa.BinOp)
	if !ok || cmp.Op != token.LSS {
		return false
	}
	inc, ok := cmp.X.(*ssa.BinOp)
	if !ok || inc.Op != token.ADD {
		return false
	}
	phi, ok := inc.X.(*ssa.Phi)
	if !ok || phi.Block() != b || phi.Comment != "rangeindex" {
		return false
	}
	ln, ok := cmp.Y.(*ssa.Call)
	if !ok {
		return false
	}
	bi, ok := ln.Common().Value.(*ssa.Builtin)
	if !ok || bi.Name() != "len" {
		return false
	}
	lit := x.val(st, fr, ln.Common().Args[0])
	if lit == nil || lit.Op != "lit" || len(lit.Args) == 0 || len(lit.Args) > 4 {
		return false
	}
	for _, e := range lit.Args {
		if e.Op != "const" {
			return false
		}
	}
	if st.unroll == nil {
		st.unroll = map[hdrKey]int{}
	}
	st.unroll[key] = 1
	return true
}

func (x *explorer) evalPhis(st *state, fr *frame, b, prev *ssa.BasicBlock) {
	if prev == nil {
		return
	}
	pi := -1
	for i, p := range b.Preds {
		if p == prev {
			pi = i
		}
	}
	if pi < 0 {
		return
	}
	var vals []*T
	var phis []*ssa.Phi
	for _, in := range b.Instrs {
		phi, ok := in.(*ssa.Phi)
		if !ok {
			break
		}
		phis = append(phis, phi)
		vals = append(vals, x.val(st, fr, phi.Edges[pi]))
	}
	for i, phi := range phis {
		x.set(st, fr, phi, vals[i])
	}
}

func (x *explorer) enterLoop(st *state, fr *frame, h, prev *ssa.BasicBlock, body map[*ssa.BasicBlock]bool) {
	x.nLoops++
	li := loopInst{id: x.nLoops, frame: fr.id, header: h, seq: st.seq}
	st.loops = append(st.loops, li)
	pi := -1
	for i, p := range h.Preds {
		if p == prev {
			pi = i
		}
	}
	for _, in := range h.Instrs {
		phi, ok := in.(*ssa.Phi)
		if !ok {
			break
		}
		var init *T
		if pi >= 0 {
			init = x.val(st, fr, phi.Edges[pi])
		}
		x.nCarried++
		name := phi.Comment
		if name == "" {
			name = phi.Name()
		}
		ct := &T{Op: "carried", Name: name, N: x.nCarried, V: phi, Typ: concreteType(phi.Type())}
		x.carInit[ct.N] = init
		x.carOf[ct.N] = carriedOrigin{phi: phi}
		x.loopCars[li.id] = append(x.loopCars[li.id], ct.N)
		// "for i := 0; i < len(s); i++" is the index form of "for i := range s": give i the same term a range
		// loop's index has, so that s[i] is the element being visited and i < len(s) is "more"
		if countedIndexPhi(phi, h, body) && init != nil && init.IsConst("0") {
			x.set(st, fr, phi, &T{Op: "idx", N: ct.N, V: phi, Typ: types.Typ[types.Int]})
			continue
		}
		x.set(st, fr, phi, ct)
	}
	// cells discovered (in an earlier iteration of the exploration) to be written in this loop
	var hv []cellKey
	for ck := range st.cells {
		if x.havoc[h][ck.al] {
			hv = append(hv, ck)
		}
	}
	sort.Slice(hv, func(i, j int) bool {
		if hv[i].frame != hv[j].frame {
			return hv[i].frame < hv[j].frame
		}
		return st.cellSeq[hv[i]] < st.cellSeq[hv[j]]
	})
	for _, ck := range hv {
		x.nCarried++
		name := ck.al.Comment
		if name == "" {
			name = ck.al.Name()
		}
		ct := &T{Op: "carried", Name: name, N: x.nCarried, V: ck.al, Typ: nil}
		x.carInit[ct.N] = st.cells[ck]
		x.carOf[ct.N] = carriedOrigin{cell: ck}
		x.loopCars[li.id] = append(x.loopCars[li.id], ct.N)
		st.cells[ck] = ct
	}
	// r := make([]T, len(xs)); for i, x := range xs { r[i] = f(x) } is the pre-sized spelling of
	// r := []T{}; for _, x := range xs { r = append(r, f(x)) }: give r the terms of the second form
	var mks []*ssa.MakeSlice
	for mk := range x.fills[h] {
		mks = append(mks, mk)
	}
	sort.Slice(mks, func(i, j int) bool { return mks[i].Pos() < mks[j].Pos() })
	for _, mk := range mks {
		if mk.Parent() != fr.fn {
			continue
		}
		key := envKey{fr.id, mk}
		cur, ok := st.env[key]
		if !ok || cur.Op != "fresh" {
			continue
		}
		x.nCarried++
		x.nTerms++
		ct := &T{Op: "carried", Name: "filled", N: x.nCarried, V: mk, Typ: concreteType(mk.Type())}
		x.carInit[ct.N] = &T{Op: "lit", N: x.nTerms, V: mk, Typ: concreteType(mk.Type())}
		x.carOf[ct.N] = carriedOrigin{fill: mk, fillFrame: fr.id}
		x.loopCars[li.id] = append(x.loopCars[li.id], ct.N)
		st.env[key] = ct
	}
	// fields of a struct local of this function that the loop body (or a helper it hands the struct's address to)
	// updates: the same loop-carried state, kept in a struct instead of separate variables
	var fks []psFieldKey
	for fk := range x.havocF[h] {
		fks = append(fks, fk)
	}
	sort.Slice(fks, func(i, j int) bool {
		if fks[i].al.Pos() != fks[j].al.Pos() {
			return fks[i].al.Pos() < fks[j].al.Pos()
		}
		return fks[i].f < fks[j].f
	})
	for _, fk := range fks {
		if fk.al.Parent() != fr.fn {
			continue
		}
		obj, ok := st.env[envKey{fr.id, fk.al}]
		if !ok || obj.Op != "fresh" {
			continue
		}
		key := obj.String() + "|" + fk.f
		cur, ok := st.fields[key]
		if !ok {
			cur = x.zeroField(st, obj, fk)
		}
		x.nCarried++
		short := fk.f
		if i := strings.LastIndex(short, "."); i >= 0 {
			short = short[i+1:]
		}
		ct := &T{Op: "carried", Name: short, N: x.nCarried, V: fk.al, Typ: nil}
		x.carInit[ct.N] = cur
		x.carOf[ct.N] = carriedOrigin{field: key}
		x.loopCars[li.id] = append(x.loopCars[li.id], ct.N)
		st.fields[key] = ct
	}
}

// zeroField: the value of a field of a struct local that has not been stored to yet: the zero value, unless the
// struct was overwritten as a whole.
func (x *explorer) zeroField(st *state, obj *T, fk psFieldKey) *T {
	if w, ok := st.fields[obj.String()+"|*"]; ok {
		return x.fieldOfValue(st, x.subst(st, w), fk.f, fk.al, nil)
	}
	stt, ok := fk.al.Type().Underlying().(*types.Pointer).Elem().Underlying().(*types.Struct)
	if !ok {
		return &T{Op: "field", Name: fk.f, Args: []*T{obj}}
	}
	for i := 0; i < stt.NumFields(); i++ {
		if n := stt.Field(i).Name(); n == fk.f || strings.HasSuffix(fk.f, "."+n) {
			return zeroTerm(stt.Field(i).Type())
		}
	}
	return &T{Op: "field", Name: fk.f, Args: []*T{obj}}
}

// fillStore: base[idx] = v where base is a slice made with the length of the collection the innermost loop ranges
// over and idx is that loop's index. The first time this is seen the loop is marked (and the exploration re-run);
// from then on the slice is an accumulator and the store is an append.
func (x *explorer) fillStore(st *state, base, idx, v *T) bool {
	if idx.Op != "idx" {
		return false
	}
	// the loop whose index this is, and what it ranges over
	var loop *loopInst
	for i := len(st.loops) - 1; i >= 0 && loop == nil; i-- {
		for _, id := range x.loopCars[st.loops[i].id] {
			if id == idx.N {
				loop = &st.loops[i]
			}
		}
	}
	if loop == nil || loop.id != st.loops[len(st.loops)-1].id {
		return false
	}
	ranged := ""
	for i := len(st.guards) - 1; i >= 0; i-- {
		g := st.guards[i]
		if g.Kind == "itermore" && !g.Neg && g.A != nil && g.A.Op == "range" && g.A.N == idx.N && len(g.A.Args) == 1 {
			ranged = g.A.Args[0].String()
			break
		}
	}
	if ranged == "" {
		return false
	}
	switch {
	case base.Op == "fresh" && base.Name == "slice":
		mk, ok := base.V.(*ssa.MakeSlice)
		if !ok || len(base.Args) != 1 || base.Args[0].Op != "len" || len(base.Args[0].Args) != 1 || base.Args[0].Args[0].String() != ranged {
			return false
		}
		if x.fills[loop.header] == nil {
			x.fills[loop.header] = map[*ssa.MakeSlice]bool{}
		}
		if !x.fills[loop.header][mk] {
			x.fills[loop.header][mk] = true
			x.rerun = true
		}
		return false
	case base.Op == "carried" || base.Op == "append":
		root := base
		for root.Op == "append" && len(root.Args) == 2 {
			root = root.Args[0]
		}
		if root.Op != "carried" {
			return false
		}
		o, ok := x.carOf[root.N]
		if !ok || o.fill == nil {
			return false
		}
		key := envKey{o.fillFrame, o.fill}
		cur, ok := st.env[key]
		if !ok {
			return false
		}
		x.nTerms++
		lit := &T{Op: "lit", N: x.nTerms, Args: []*T{v}}
		x.nTerms++
		st.env[key] = &T{Op: "append", N: x.nTerms, Args: []*T{cur, lit}, V: o.fill, Typ: cur.Typ}
		return true
	}
	return false
}

// noteFieldWrite: a store to a field of a struct local that existed before an active loop of its function was
// entered makes the field loop-carried.
func (x *explorer) noteFieldWrite(st *state, obj *T, f string) {
	al, ok := obj.V.(*ssa.Alloc)
	if !ok || obj.Op != "fresh" {
		return
	}
	for _, l := range st.loops {
		if l.header.Parent() != al.Parent() {
			continue
		}
		seq, ok := st.cellSeq[cellKey{l.frame, al}]
		if !ok || seq > l.seq {
			continue
		}
		if x.havocF[l.header] == nil {
			x.havocF[l.header] = map[psFieldKey]bool{}
		}
		fk := psFieldKey{al, f}
		if !x.havocF[l.header][fk] {
			x.havocF[l.header][fk] = true
			x.rerun = true
		}
	}
}

func (x *explorer) backEdge(st *state, fr *frame, h, prev *ssa.BasicBlock, l loopInst) {
	pi := -1
	for i, p := range h.Preds {
		if p == prev {
			pi = i
		}
	}
	carried := map[int]*T{}
	for _, id := range x.loopCars[l.id] {
		o := x.carOf[id]
		var v *T
		if o.phi != nil {
			if pi >= 0 {
				v = x.val(st, fr, o.phi.Edges[pi])
			}
		} else if o.field != "" {
			if fv, ok := st.fields[o.field]; ok {
				v = x.subst(st, fv)
			}
		} else if o.fill != nil {
			if fv, ok := st.env[envKey{o.fillFrame, o.fill}]; ok {
				v = x.subst(st, fv)
			}
		} else {
			v = x.subst(st, st.cells[o.cell])
		}
		if v != nil {
			x.carSrc[id] = append(x.carSrc[id], v)
			carried[id] = v
		}
	}
	x.emit(st, "iter", nil, l.id, token.NoPos)
	if n := len(x.paths); n > 0 && x.paths[n-1].End == "iter" {
		x.paths[n-1].Carried = carried
	}
}

// noteCellWrite: a store to a cell that existed before an active loop was entered means the cell
// is loop-carried; if it was not havocked at the header, schedule a re-run.
func (x *explorer) noteCellWrite(st *state, ck cellKey) {
	seq, ok := st.cellSeq[ck]
	if !ok {
		return
	}
	if strings.HasPrefix(ck.al.Comment, "jump$") {
		// state variable of the compiler-generated range-over-func protocol: it is reset to its
		// initial value at the end of every iteration (iterator contract, see C09.sorted)
		return
	}
	for _, l := range st.loops {
		if seq <= l.seq {
			if x.havoc[l.header] == nil {
				x.havoc[l.header] = map[*ssa.Alloc]bool{}
			}
			if !x.havoc[l.header][ck.al] {
				x.havoc[l.header][ck.al] = true
				x.rerun = true
			}
		}
	}
}

func (x *explorer) activeLoopIDs(st *state) []int {
	var out []int
	for _, l := range st.loops {
		out = append(out, l.id)
	}
	return out
}

func (x *explorer) effect(st *state, fr *frame, e Effect) {
	e.Loops = x.activeLoopIDs(st)
	e.In = x.p.FuncName(fr.fn)
	for i, a := range e.Args {
		e.Args[i] = x.subst(st, a)
	}
	st.effects = append(st.effects, e)
}

// branch handles an If: evaluates the condition to an atom or constant and forks.
func (x *explorer) branch(st *state, fr *frame, b *ssa.BasicBlock, ins *ssa.If) {
	ct := x.val(st, fr, ins.Cond)
	atom, known, kv := x.cond(st, ct)
	atom.Pos = ins.Cond.Pos()
	if !known && atom.Kind == "itermore" && len(st.loops) > 0 {
		l := st.loops[len(st.loops)-1]
		if l.frame == fr.id && l.header == b && len(atom.A.Args) == 1 {
			st.loopRange[l.id] = atom.A.Args[0].String()
		}
	}
	succs := []int{0, 1}
	// explore the in-loop successor first so that carried constants are known at the exit
	if body, ok := x.loops(fr.fn)[b]; ok {
		if !body[b.Succs[0]] && body[b.Succs[1]] {
			succs = []int{1, 0}
		}
	} else {
		for i := len(st.loops) - 1; i >= 0; i-- {
			l := st.loops[i]
			if l.frame == fr.id {
				body := x.loops(fr.fn)[l.header]
				if !body[b.Succs[0]] && body[b.Succs[1]] {
					succs = []int{1, 0}
				}
				break
			}
		}
	}
	for _, si := range succs {
		want := si == 0 // successor 0 is taken when the condition is true
		if known {
			if kv != want {
				continue
			}
			x.run(st.clone(), fr, b.Succs[si], b, 0)
			continue
		}
		a := atom
		a.Neg = atom.Neg != !want
		ns := st.clone()
		if !x.assume(ns, a) {
			continue
		}
		// leaving a loop through its header: resolve carried values that are the same constant on every edge
		x.resolveOnExit(ns, fr, b, b.Succs[si])
		x.run(ns, fr, b.Succs[si], b, 0)
	}
}

func (x *explorer) resolveOnExit(st *state, fr *frame, from, to *ssa.BasicBlock) {
	for i := len(st.loops) - 1; i >= 0; i-- {
		l := st.loops[i]
		if l.frame != fr.id {
			return
		}
		body := x.loops(fr.fn)[l.header]
		if body[to] {
			return
		}
		for _, id := range x.loopCars[l.id] {
			init := x.carInit[id]
			if init == nil || init.Op != "const" {
				continue
			}
			same := true
			for _, s := range x.carSrc[id] {
				s = x.subst(st, s)
				if s.Op == "carried" && s.N == id {
					continue
				}
				if s.String() != init.String() {
					same = false
				}
			}
			if same {
				st.resolve[id] = init
			}
		}
	}
}

// assume adds an atom to the path condition; false if it contradicts what is already there.
func (x *explorer) assume(st *state, a Atom) bool {
	k := a.key()
	pol := "+"
	if a.Neg {
		pol = "-"
	}
	opp := "-"
	if a.Neg {
		opp = "+"
	}
	if st.gkeys[k+opp] {
		return false
	}
	if st.gkeys[k+pol] {
		return true
	}
	if !a.Neg {
		switch a.Kind {
		case "kind":
			for _, g := range st.guards {
				if g.Neg || g.A.String() != a.A.String() {
					continue
				}
				if g.Kind == "kind" && g.Const != a.Const {
					return false
				}
				if g.Kind == "streq" && a.Const != "string" {
					return false
				}
			}
		case "streq":
			for _, g := range st.guards {
				if g.A.String() != a.A.String() {
					continue
				}
				if g.Kind == "streq" && !g.Neg && g.Const != a.Const {
					return false
				}
				if g.Kind == "kind" && !g.Neg && g.Const != "string" {
					return false
				}
				if g.Kind == "kind" && g.Neg && g.Const == "string" {
					return false
				}
				if g.Kind == "prefix" && !g.Neg {
					if s, err := strconvUnquote(a.Const); err == nil {
						if p, err2 := strconvUnquote(g.Const); err2 == nil && !strings.HasPrefix(s, p) {
							return false
						}
					}
				}
			}
		case "nil":
			for _, g := range st.guards {
				if g.A.String() == a.A.String() && !g.Neg && (g.Kind == "kind" && g.Const != "nil" || g.Kind == "streq") {
					return false
				}
			}
		}
	} else if a.Kind == "kind" && a.Const == "string" {
		for _, g := range st.guards {
			if g.A.String() == a.A.String() && !g.Neg && g.Kind == "streq" {
				return false
			}
		}
	}
	st.gkeys[k+pol] = true
	st.guards = append(st.guards, a)
	return true
}

func kindName(t types.Type) string {
	if t == nil {
		return "nil"
	}
	switch u := t.(type) {
	case *types.Map:
		return "map"
	case *types.Slice:
		if _, ok := u.Elem().Underlying().(*types.Interface); ok {
			return "list"
		}
	}
	return types.TypeString(t, shortQual)
}

// cond turns a boolean term into an atom; known=true when it folds to a constant.
func (x *explorer) cond(st *state, t *T) (Atom, bool, bool) {
	switch t.Op {
	case "const":
		return Atom{}, true, t.Name == "true"
	case "not":
		a, k, v := x.cond(st, t.Args[0])
		if k {
			return a, true, !v
		}
		a.Neg = !a.Neg
		return a, false, false
	case "iskind":
		xx := t.Args[0]
		if xx.IsNil() {
			return Atom{}, true, false
		}
		if xx.Typ != nil {
			return Atom{}, true, t.Name == kindName(xx.Typ)
		}
		return Atom{Kind: "kind", A: xx, Const: t.Name}, false, false
	case "has":
		return Atom{Kind: "has", A: t.Args[0], B: t.Args[1]}, false, false
	case "itermore":
		// a range over nil or over an empty literal has no iteration
		if rg := t.Args[0]; rg.Op == "range" && len(rg.Args) == 1 && (rg.Args[0].IsNil() || (rg.Args[0].Op == "lit" && len(rg.Args[0].Args) == 0)) {
			return Atom{}, true, false
		}
		return Atom{Kind: "itermore", A: t.Args[0]}, false, false
	case "binop":
		a, b := t.Args[0], t.Args[1]
		op := t.Name
		if op == "==" || op == "!=" {
			neg := op == "!="
			if a.Op == "const" && b.Op == "const" {
				return Atom{}, true, (a.Name == b.Name) != neg
			}
			if a.IsNil() {
				a, b = b, a
			}
			if b.IsNil() {
				// fresh containers and boxed concrete values are never nil
				if a.Op == "fresh" || a.Op == "closure" || a.Op == "addr" || (a.Typ != nil && !nilableConcrete(a.Typ)) {
					return Atom{}, true, neg
				}
				if neverNil(a) {
					return Atom{}, true, neg
				}
				if isErrTerm(a) {
					return Atom{Kind: "err", A: errSource(a), Neg: !neg}, false, false
				}
				if a.Typ == nil {
					return Atom{Kind: "kind", A: a, Const: "nil", Neg: neg}, false, false
				}
				return Atom{Kind: "nil", A: a, Neg: neg}, false, false
			}
			if a.Op == "const" {
				a, b = b, a
			}
			if b.Op == "const" {
				if a.Op == "idx" && strings.HasPrefix(b.Name, "-") {
					return Atom{}, true, neg // a range index never equals a negative constant
				}
				if strings.HasPrefix(b.Name, "\"") {
					return Atom{Kind: "streq", A: a, Const: b.Name, Neg: neg}, false, false
				}
				if a.Op == "len" {
					return lenAtom(a.Args[0], "==" + b.Name, neg), false, false
				}
				return Atom{Kind: "eq", A: a, B: b, Neg: neg}, false, false
			}
			if a.String() == b.String() {
				return Atom{}, true, !neg
			}
			// canonical order
			if a.String() > b.String() {
				a, b = b, a
			}
			return Atom{Kind: "eq", A: a, B: b, Neg: neg}, false, false
		}
		// ordering comparisons
		if a.Op == "const" && b.Op == "const" {
			if r, ok := foldCompare(op, a.Name, b.Name); ok {
				return Atom{}, true, r
			}
		}
		if a.Op == "const" && b.Op != "const" {
			// constant on the left: 0 < len(x) is len(x) > 0
			if m, ok := map[string]string{"<": ">", "<=": ">=", ">": "<", ">=": "<="}[op]; ok {
				a, b, op = b, a, m
			}
		}
		if a.Op == "len" && b.Op == "const" {
			// normalise to len(x) >= n / len(x) == 0
			switch op {
			case ">":
				if b.Name == "0" {
					return lenAtom(a.Args[0], "==0", true), false, false
				}
			case ">=":
				if b.Name == "1" {
					return lenAtom(a.Args[0], "==0", true), false, false
				}
			case "<":
				if b.Name == "1" {
					return lenAtom(a.Args[0], "==0", false), false, false
				}
			case "<=":
				if b.Name == "0" {
					return lenAtom(a.Args[0], "==0", false), false, false
				}
			}
			return lenAtom(a.Args[0], op + b.Name, false), false, false
		}
		// a range index is never negative
		if a.Op == "idx" && b.Op == "const" {
			switch {
			case op == ">=" && b.Name == "0", op == ">" && b.Name == "-1":
				return Atom{}, true, true
			case op == "<" && b.Name == "0", op == "<=" && b.Name == "-1":
				return Atom{}, true, false
			}
		}
		return Atom{Kind: "cmp", A: a, B: b, Const: op}, false, false
	case "call", "res", "rec":
		if t.Op == "call" || t.Op == "rec" || t.Op == "res" {
			// boolean result of a call
			name := callName(t)
			switch name {
			case "strings.HasPrefix", "strings.HasSuffix", "strings.Contains":
				ct := t
				if ct.Op == "res" {
					ct = ct.Args[0]
				}
				if len(ct.Args) == 2 && ct.Args[1].Op == "const" {
					kind := map[string]string{"strings.HasPrefix": "prefix", "strings.HasSuffix": "suffix", "strings.Contains": "contains"}[name]
					if ct.Args[0].Op == "const" {
						s, e1 := strconvUnquote(ct.Args[0].Name)
						q, e2 := strconvUnquote(ct.Args[1].Name)
						if e1 == nil && e2 == nil {
							switch kind {
							case "prefix":
								return Atom{}, true, strings.HasPrefix(s, q)
							case "suffix":
								return Atom{}, true, strings.HasSuffix(s, q)
							default:
								return Atom{}, true, strings.Contains(s, q)
							}
						}
					}
					return Atom{Kind: kind, A: ct.Args[0], Const: ct.Args[1].Name}, false, false
				}
			}
			return Atom{Kind: "truth", A: t}, false, false
		}
	}
	return Atom{Kind: "truth", A: t}, false, false
}

// neverNil: results of constructors that never return nil.
func neverNil(t *T) bool {
	if t == nil || t.Op != "call" {
		return false
	}
	switch t.Name {
	case "fmt.Errorf", "errors.New":
		return true
	case "errors.Join":
		for _, a := range t.Args {
			if neverNil(a) {
				return true
			}
			if a.Op == "lit" {
				for _, e := range a.Args {
					if neverNil(e) {
						return true
					}
				}
			}
		}
	}
	return false
}

func nilableConcrete(t types.Type) bool {
	switch t.Underlying().(type) {
	case *types.Map, *types.Slice, *types.Pointer, *types.Signature, *types.Chan, *types.Interface:
		return true
	}
	return false
}

func foldCompare(op, a, b string) (bool, bool) {
	var x, y int64
	if _, err := fmt.Sscan(a, &x); err != nil {
		return false, false
	}
	if _, err := fmt.Sscan(b, &y); err != nil {
		return false, false
	}
	switch op {
	case "<":
		return x < y, true
	case "<=":
		return x <= y, true
	case ">":
		return x > y, true
	case ">=":
		return x >= y, true
	case "==":
		return x == y, true
	case "!=":
		return x != y, true
	}
	return false, false
}

func callName(t *T) string {
	switch t.Op {
	case "call", "rec":
		return t.Name
	case "res":
		return callName(t.Args[0])
	}
	return ""
}

func isErrTerm(t *T) bool {
	if t == nil {
		return false
	}
	if t.Typ != nil {
		return false
	}
	if t.V != nil && isErrorType(t.V.Type()) {
		return true
	}
	return false
}

// errSource: the call whose error result this term is (or the term itself).
func errSource(t *T) *T {
	if t.Op == "res" {
		return t.Args[0]
	}
	return t
}

// ---- instructions -----------------------------------------------------------------------------

func (x *explorer) instr(st *state, fr *frame, in ssa.Instruction) {
	switch ins := in.(type) {
	case *ssa.Alloc:
		ck := cellKey{fr.id, ins}
		st.seq++
		st.cellSeq[ck] = st.seq
		elem := ins.Type().Underlying().(*types.Pointer).Elem()
		if _, isArr := elem.Underlying().(*types.Array); isArr {
			st.arrays[ck] = map[int64]*T{}
			x.set(st, fr, ins, &T{Op: "addr", Name: "array", N: fr.id, V: ins})
			return
		}
		if _, isStruct := elem.Underlying().(*types.Struct); isStruct {
			obj := x.fresh("struct", ins, elem)
			x.set(st, fr, ins, obj)
			return
		}
		st.cells[ck] = zeroTerm(elem)
		x.set(st, fr, ins, &T{Op: "addr", Name: "cell", N: fr.id, V: ins})
	case *ssa.Store:
		addr := x.val(st, fr, ins.Addr)
		v := x.val(st, fr, ins.Val)
		x.store(st, fr, addr, v, ins.Pos())
	case *ssa.UnOp:
		xv := x.val(st, fr, ins.X)
		switch ins.Op {
		case token.MUL:
			x.set(st, fr, ins, x.load(st, fr, xv, ins))
		case token.NOT:
			if xv.Op == "const" {
				if xv.Name == "true" {
					x.set(st, fr, ins, tFalse)
				} else {
					x.set(st, fr, ins, tTrue)
				}
				return
			}
			x.set(st, fr, ins, &T{Op: "not", Args: []*T{xv}, V: ins})
		default:
			x.set(st, fr, ins, &T{Op: "unop", Name: ins.Op.String(), Args: []*T{xv}, V: ins})
		}
	case *ssa.BinOp:
		a, b := x.val(st, fr, ins.X), x.val(st, fr, ins.Y)
		if a.Op == "const" && b.Op == "const" && ins.Op == token.ADD {
			var xi, yi int64
			if _, e1 := fmt.Sscan(a.Name, &xi); e1 == nil {
				if _, e2 := fmt.Sscan(b.Name, &yi); e2 == nil {
					x.set(st, fr, ins, mkConst(fmt.Sprint(xi+yi), ins.Type()))
					return
				}
			}
		}
		// index-range loops: i = phi(-1, i+1)+1 is the loop's index variable; i < len(x) is "more"
		if ins.Op == token.ADD && a.Op == "carried" && a.Name == "rangeindex" && b.IsConst("1") {
			x.set(st, fr, ins, &T{Op: "idx", N: a.N, V: ins, Typ: types.Typ[types.Int]})
			return
		}
		if ins.Op == token.LSS && a.Op == "idx" && b.Op == "len" {
			x.set(st, fr, ins, &T{Op: "itermore", Args: []*T{{Op: "range", N: a.N, Args: []*T{b.Args[0]}}}, V: ins})
			return
		}
		if ins.Op == token.LSS && a.Op == "idx" {
			// for i := range n  /  range over a slice whose length was read before the loop
			if ln, ok := ins.Y.(*ssa.Call); ok {
				if bi, ok := ln.Common().Value.(*ssa.Builtin); ok && bi.Name() == "len" {
					x.set(st, fr, ins, &T{Op: "itermore", Args: []*T{{Op: "range", N: a.N, Args: []*T{x.val(st, fr, ln.Common().Args[0])}}}, V: ins})
					return
				}
			}
		}
		// comparisons whose outcome is known: constants, and the sign of a range index
		switch ins.Op {
		case token.LSS, token.LEQ, token.GTR, token.GEQ, token.EQL, token.NEQ:
			if a.Op == "const" && b.Op == "const" {
				if r, ok := foldCompare(ins.Op.String(), a.Name, b.Name); ok {
					x.set(st, fr, ins, mkConst(fmt.Sprint(r), ins.Type()))
					return
				}
			}
			if a.Op == "idx" && b.Op == "const" {
				var k int64
				if _, err := fmt.Sscan(b.Name, &k); err == nil {
					known, val := false, false
					switch {
					case ins.Op == token.GEQ && k <= 0, ins.Op == token.GTR && k < 0, ins.Op == token.NEQ && k < 0:
						known, val = true, true
					case ins.Op == token.LSS && k <= 0, ins.Op == token.LEQ && k < 0, ins.Op == token.EQL && k < 0:
						known, val = true, false
					}
					if known {
						x.set(st, fr, ins, mkConst(fmt.Sprint(val), ins.Type()))
						return
					}
				}
			}
		}
		x.set(st, fr, ins, &T{Op: "binop", Name: ins.Op.String(), Args: []*T{a, b}, V: ins, Typ: concreteType(ins.Type())})
	case *ssa.MakeInterface:
		xv := x.val(st, fr, ins.X)
		if xv.Typ == nil && xv.Op != "const" {
			// remember the static type of the boxed value
			c := *xv
			c.Typ = concreteType(ins.X.Type())
			c.s = ""
			x.set(st, fr, ins, &c)
			return
		}
		if xv.Op == "const" && xv.Typ == nil && !xv.IsNil() {
			c := *xv
			c.Typ = concreteType(ins.X.Type())
			x.set(st, fr, ins, &c)
			return
		}
		x.set(st, fr, ins, xv)
	case *ssa.ChangeInterface:
		x.set(st, fr, ins, x.val(st, fr, ins.X))
	case *ssa.ChangeType:
		x.set(st, fr, ins, x.val(st, fr, ins.X))
	case *ssa.Convert:
		xv := x.val(st, fr, ins.X)
		x.set(st, fr, ins, &T{Op: "convert", Name: types.TypeString(ins.Type(), shortQual), Args: []*T{xv}, V: ins, Typ: concreteType(ins.Type())})
	case *ssa.TypeAssert:
		xv := x.val(st, fr, ins.X)
		kn := kindName(ins.AssertedType)
		if _, isIface := ins.AssertedType.Underlying().(*types.Interface); isIface {
			kn = "iface:" + types.TypeString(ins.AssertedType, shortQual)
		}
		okT := &T{Op: "iskind", Name: kn, Args: []*T{xv}, V: ins}
		asserted := xv
		if ins.CommaOk {
			x.set(st, fr, ins, &T{Op: "tuple", Args: []*T{asserted, okT}, V: ins})
		} else {
			x.set(st, fr, ins, asserted)
		}
	case *ssa.Extract:
		tv := x.val(st, fr, ins.Tuple)
		if tv.Op == "tuple" && ins.Index < len(tv.Args) {
			x.set(st, fr, ins, tv.Args[ins.Index])
			return
		}
		// strings.CutPrefix(s, p) is (strings.TrimPrefix(s, p), strings.HasPrefix(s, p)); likewise CutSuffix
		if tv.Op == "call" && (tv.Name == "strings.CutPrefix" || tv.Name == "strings.CutSuffix") && len(tv.Args) == 2 {
			kind := strings.TrimPrefix(tv.Name, "strings.Cut")
			name := "strings.Trim" + kind
			if ins.Index == 1 {
				name = "strings.Has" + kind
			}
			x.set(st, fr, ins, &T{Op: "call", Name: name, Args: tv.Args, N: tv.N, V: ins, Typ: concreteType(ins.Type())})
			return
		}
		x.set(st, fr, ins, &T{Op: "res", Name: fmt.Sprint(ins.Index), Args: []*T{tv}, V: ins, Typ: concreteType(ins.Type())})
	case *ssa.Lookup:
		m, k := x.val(st, fr, ins.X), x.val(st, fr, ins.Index)
		if _, isMap := ins.X.Type().Underlying().(*types.Map); !isMap {
			x.set(st, fr, ins, &T{Op: "index", Args: []*T{m, k}, V: ins})
			return
		}
		lv := &T{Op: "lookup", Args: []*T{m, k}, V: ins, Typ: concreteType(ins.X.Type().Underlying().(*types.Map).Elem())}
		if ins.CommaOk {
			x.set(st, fr, ins, &T{Op: "tuple", Args: []*T{lv, {Op: "has", Args: []*T{m, k}, V: ins}}, V: ins})
		} else {
			x.set(st, fr, ins, lv)
		}
	case *ssa.Index:
		x.set(st, fr, ins, &T{Op: "index", Args: []*T{x.val(st, fr, ins.X), x.val(st, fr, ins.Index)}, V: ins})
	case *ssa.IndexAddr:
		base := x.val(st, fr, ins.X)
		idx := x.val(st, fr, ins.Index)
		x.set(st, fr, ins, &T{Op: "addr", Name: "index", Args: []*T{base, idx}, V: ins})
	case *ssa.FieldAddr:
		base := x.val(st, fr, ins.X)
		x.set(st, fr, ins, &T{Op: "addr", Name: "field:" + fieldName(ins), Args: []*T{base}, V: ins})
	case *ssa.Field:
		base := x.val(st, fr, ins.X)
		st0 := ins.X.Type().Underlying().(*types.Struct)
		if base.Op == "deref" && len(base.Args) == 1 && base.Args[0].Op == "fresh" {
			x.set(st, fr, ins, x.fieldOfValue(st, base, structFieldKey(ins.X.Type(), ins.Field), ins, concreteType(ins.Type())))
			return
		}
		x.set(st, fr, ins, &T{Op: "field", Name: pinnedField(st0, ins.Field), Args: []*T{base}, V: ins})
	case *ssa.Slice:
		base := x.val(st, fr, ins.X)
		if base.Op == "addr" && base.Name == "array" {
			// literal: collect the stored elements
			al := base.V.(*ssa.Alloc)
			ck := cellKey{base.N, al}
			arr := st.arrays[ck]
			n := al.Type().Underlying().(*types.Pointer).Elem().Underlying().(*types.Array).Len()
			var elems []*T
			for i := int64(0); i < n; i++ {
				if e, ok := arr[i]; ok {
					elems = append(elems, e)
				} else {
					elems = append(elems, mkConst("zero", nil))
				}
			}
			x.nTerms++
			x.set(st, fr, ins, &T{Op: "lit", N: x.nTerms, Args: elems, V: ins, Typ: concreteType(ins.Type())})
			return
		}
		var lo, hi *T
		if ins.Low != nil {
			lo = x.val(st, fr, ins.Low)
		} else {
			lo = mkConst("0", nil)
		}
		if ins.High != nil {
			hi = x.val(st, fr, ins.High)
		} else {
			hi = mkConst("end", nil)
		}
		if lo.IsConst("0") && hi.IsConst("end") {
			x.set(st, fr, ins, base)
			return
		}
		x.set(st, fr, ins, &T{Op: "slice", Args: []*T{base, lo, hi}, V: ins, Typ: concreteType(ins.Type())})
	case *ssa.MakeMap:
		x.set(st, fr, ins, x.fresh("map", ins, ins.Type()))
	case *ssa.MakeSlice:
		x.set(st, fr, ins, x.fresh("slice", ins, ins.Type(), x.val(st, fr, ins.Len)))
	case *ssa.MakeChan:
		x.set(st, fr, ins, x.fresh("chan", ins, ins.Type()))
	case *ssa.MakeClosure:
		fn := ins.Fn.(*ssa.Function)
		var bs []*T
		for _, b := range ins.Bindings {
			bs = append(bs, x.val(st, fr, b))
		}
		x.nTerms++
		ct := &T{Op: "closure", Name: x.fname(fn), N: x.nTerms, V: ins}
		x.closures[ct] = &closureVal{fn: fn, bindings: bs, frame: fr.id}
		x.set(st, fr, ins, ct)
	case *ssa.Range:
		x.nTerms++
		x.set(st, fr, ins, &T{Op: "range", N: x.nTerms, Args: []*T{x.val(st, fr, ins.X)}, V: ins})
	case *ssa.Next:
		it := x.val(st, fr, ins.Iter)
		src := it
		if it.Op == "range" {
			src = it.Args[0]
		}
		x.set(st, fr, ins, &T{Op: "tuple", V: ins, Args: []*T{
			{Op: "itermore", Args: []*T{it}, V: ins},
			{Op: "key", Args: []*T{src}, N: it.N, V: ins},
			{Op: "elem", Args: []*T{src}, N: it.N, V: ins},
		}})
	case *ssa.MapUpdate:
		m, k, v := x.val(st, fr, ins.Map), x.val(st, fr, ins.Key), x.val(st, fr, ins.Value)
		x.effect(st, fr, Effect{Kind: "mapset", Args: []*T{m, k, v}, Pos: ins.Pos()})
	case *ssa.RunDefers:
	case *ssa.Send:
		x.effect(st, fr, Effect{Kind: "send", Args: []*T{x.val(st, fr, ins.Chan), x.val(st, fr, ins.X)}, Pos: ins.Pos()})
	case *ssa.Select:
		x.set(st, fr, ins, &T{Op: "select", V: ins})
	case *ssa.SliceToArrayPointer:
		x.set(st, fr, ins, x.val(st, fr, ins.X))
	default:
		if v, ok := in.(ssa.Value); ok {
			x.set(st, fr, v, &T{Op: "opaque", Name: fmt.Sprintf("%T", in), V: v})
		}
	}
}

func zeroTerm(t types.Type) *T {
	switch u := t.Underlying().(type) {
	case *types.Basic:
		switch {
		case u.Info()&types.IsBoolean != 0:
			return tFalse
		case u.Info()&types.IsString != 0:
			return mkConst(`""`, t)
		case u.Info()&types.IsNumeric != 0:
			return mkConst("0", t)
		}
	case *types.Interface, *types.Map, *types.Slice, *types.Pointer, *types.Signature, *types.Chan:
		return mkConst("nil", nil)
	}
	return mkConst("zero", t)
}

func (x *explorer) cellOf(addr *T) (cellKey, bool) {
	if addr.Op == "addr" && addr.Name == "cell" {
		return cellKey{addr.N, addr.V.(*ssa.Alloc)}, true
	}
	return cellKey{}, false
}

func (x *explorer) store(st *state, fr *frame, addr, v *T, pos token.Pos) {
	if ck, ok := x.cellOf(addr); ok {
		x.noteCellWrite(st, ck)
		st.cells[ck] = v
		if ck.frame != fr.id && !strings.HasPrefix(ck.al.Comment, "jump$") {
			// write to a captured variable of an enclosing activation: visible to rules
			name := ck.al.Comment
			x.effect(st, fr, Effect{Kind: "cellset", Callee: name, Args: []*T{v}, Pos: pos})
		}
		return
	}
	if addr.Op == "addr" && addr.Name == "index" {
		base := addr.Args[0]
		if base.Op == "addr" && base.Name == "array" {
			ck := cellKey{base.N, base.V.(*ssa.Alloc)}
			if c, ok := constIdx(addr.Args[1]); ok {
				if st.arrays[ck] == nil {
					st.arrays[ck] = map[int64]*T{}
				}
				st.arrays[ck][c] = v
				return
			}
		}
		if x.fillStore(st, base, addr.Args[1], v) {
			return
		}
		x.effect(st, fr, Effect{Kind: "elemset", Args: []*T{base, addr.Args[1], v}, Pos: pos})
		return
	}
	if addr.Op == "addr" && strings.HasPrefix(addr.Name, "field:") {
		obj := addr.Args[0]
		f := strings.TrimPrefix(addr.Name, "field:")
		st.fields[obj.String()+"|"+f] = v
		x.noteFieldWrite(st, obj, f)
		if obj.Op == "fresh" {
			// initialising a new object: not a write into existing state, but visible to rules
			x.effect(st, fr, Effect{Kind: "fieldinit", Callee: f, Args: []*T{obj, v}, Pos: pos})
			return
		}
		x.effect(st, fr, Effect{Kind: "fieldset", Callee: f, Args: []*T{obj, v}, Pos: pos})
		return
	}
	if addr.Op == "addr" && strings.HasPrefix(addr.Name, "global:") {
		x.effect(st, fr, Effect{Kind: "globalset", Callee: addr.Name, Args: []*T{v}, Pos: pos})
		return
	}
	if al, isLocal := addr.V.(*ssa.Alloc); isLocal && addr.Op == "fresh" && addr.Name == "struct" {
		if al.Heap {
			// the object outlives the function (its address is returned or stored): the assignment stays visible
			x.effect(st, fr, Effect{Kind: "ptrset", Args: []*T{addr, v}, Pos: pos})
		}
		// a struct-typed local assigned as a whole: its fields are the fields of the value
		pre := addr.String() + "|"
		for k := range st.fields {
			if strings.HasPrefix(k, pre) {
				delete(st.fields, k)
			}
		}
		st.fields[pre+"*"] = v
		return
	}
	if addr.Op == "free" {
		// store through a symbolic captured cell (entry is a closure)
		x.effect(st, fr, Effect{Kind: "cellset", Callee: addr.Name, Args: []*T{v}, Pos: pos})
		st.fields["free|"+addr.Name] = v
		return
	}
	x.effect(st, fr, Effect{Kind: "ptrset", Args: []*T{addr, v}, Pos: pos})
}

func constIdx(t *T) (int64, bool) {
	if t.Op != "const" {
		return 0, false
	}
	var v int64
	if _, err := fmt.Sscan(t.Name, &v); err != nil {
		return 0, false
	}
	return v, true
}

func (x *explorer) load(st *state, fr *frame, addr *T, ins *ssa.UnOp) *T {
	if ck, ok := x.cellOf(addr); ok {
		if v, ok := st.cells[ck]; ok {
			return x.subst(st, v)
		}
		return &T{Op: "undefcell", V: ins}
	}
	typ := concreteType(ins.Type())
	if addr.Op == "addr" && addr.Name == "index" {
		base := addr.Args[0]
		if base.Op == "addr" && base.Name == "array" {
			ck := cellKey{base.N, base.V.(*ssa.Alloc)}
			if c, ok := constIdx(addr.Args[1]); ok {
				if v, ok := st.arrays[ck][c]; ok {
					return v
				}
			}
		}
		if base.Op == "lit" {
			if c, ok := constIdx(addr.Args[1]); ok && c >= 0 && int(c) < len(base.Args) {
				return base.Args[c]
			}
		}
		// element of a slice: index by a range loop's index variable reads "the element"
		if addr.Args[1].Op == "idx" {
			return &T{Op: "elem", N: addr.Args[1].N, Args: []*T{base}, V: ins, Typ: typ}
		}
		return &T{Op: "index", Args: []*T{base, addr.Args[1]}, V: ins, Typ: typ}
	}
	if addr.Op == "addr" && strings.HasPrefix(addr.Name, "field:") {
		obj := addr.Args[0]
		f := strings.TrimPrefix(addr.Name, "field:")
		if v, ok := st.fields[obj.String()+"|"+f]; ok {
			return x.subst(st, v)
		}
		if w, ok := st.fields[obj.String()+"|*"]; ok {
			return x.fieldOfValue(st, x.subst(st, w), f, ins, typ)
		}
		short := f
		if i := strings.LastIndex(f, "."); i >= 0 {
			short = f[i+1:]
		}
		return &T{Op: "field", Name: short, Args: []*T{obj}, V: ins, Typ: typ}
	}
	if addr.Op == "addr" && strings.HasPrefix(addr.Name, "global:") {
		return &T{Op: "global", Name: strings.TrimPrefix(addr.Name, "global:"), V: ins, Typ: typ}
	}
	if addr.Op == "free" {
		if v, ok := st.fields["free|"+addr.Name]; ok {
			return v
		}
		return &T{Op: "freeval", Name: addr.Name, V: ins, Typ: typ}
	}
	if addr.Op == "fresh" && addr.Name == "struct" {
		if w, ok := st.fields[addr.String()+"|*"]; ok {
			hasOwn := false
			pre := addr.String() + "|"
			for k := range st.fields {
				if strings.HasPrefix(k, pre) && k != pre+"*" {
					hasOwn = true
				}
			}
			if !hasOwn {
				return x.subst(st, w)
			}
		}
	}
	return &T{Op: "deref", Args: []*T{addr}, V: ins, Typ: typ}
}

// fieldOfValue: field f (qualified name) of the struct value w.
func (x *explorer) fieldOfValue(st *state, w *T, f string, v ssa.Value, typ types.Type) *T {
	if w.Op == "deref" && len(w.Args) == 1 && w.Args[0].Op == "fresh" {
		obj := w.Args[0]
		if fv, ok := st.fields[obj.String()+"|"+f]; ok {
			return x.subst(st, fv)
		}
		if w2, ok := st.fields[obj.String()+"|*"]; ok {
			return x.fieldOfValue(st, x.subst(st, w2), f, v, typ)
		}
	}
	short := f
	if i := strings.LastIndex(f, "."); i >= 0 {
		short = f[i+1:]
	}
	return &T{Op: "field", Name: short, Args: []*T{w}, V: v, Typ: typ}
}

// ---- calls ------------------------------------------------------------------------------------

var pureExternals = map[string]bool{
	"strings.HasPrefix": true, "strings.HasSuffix": true, "strings.TrimPrefix": true, "strings.TrimSuffix": true,
	"strings.Split": true, "strings.SplitN": true, "strings.Join": true, "strings.Contains": true, "strings.Count": true,
	"strings.ReplaceAll": true, "strings.Cut": true, "strings.CutPrefix": true, "strings.CutSuffix": true, "strings.ToLower": true, "strings.TrimSpace": true,
	"fmt.Sprintf": true, "fmt.Errorf": true, "fmt.Sprint": true, "errors.Is": true, "errors.Join": true, "errors.New": true,
	"maps.Clone": true, "slices.Clone": true, "maps.Keys": true, "slices.Sorted": true, "golang.org/x/exp/slices.Clone": true,
	"path/filepath.Base": true, "path/filepath.Dir": true, "path/filepath.Join": true, "path/filepath.Ext": true,
	"path/filepath.Rel": true, "reflect.DeepEqual": true, "unicode.IsLower": true,
	"strconv.ParseBool": true, "strconv.ParseInt": true, "strconv.ParseFloat": true, "strconv.Itoa": true,
	"golang.org/x/exp/utf8string.NewString": true, "(*golang.org/x/exp/utf8string.String).RuneCount": true, "(*golang.org/x/exp/utf8string.String).At": true,
	"encoding/hex.EncodeToString": true, "(*encoding/base64.Encoding).EncodeToString": true,
	"(encoding/json.Number).Int64": true, "(encoding/json.Number).Float64": true, "(*gopkg.in/yaml.v3.Node).ShortTag": true,
}

func (x *explorer) shouldInline(fr *frame, callee *ssa.Function) bool {
	if callee == nil || callee.Blocks == nil {
		return false
	}
	if !x.p.InRepo(callee) {
		// the small generic helpers of package slices and maps are ordinary loops over their argument:
		// interpreting their bodies keeps "for ... range" and "slices.ContainsFunc(...)" equivalent
		if !stdHelperPkg(callee) || fr.depth+1 > x.opts.MaxDepth+2 {
			return false
		}
		// one helper may sit inside a callback of the same helper (a search within a search); deeper than that is
		// taken for recursion
		seen := 0
		for f := fr; f != nil; f = f.parent {
			if f.fn == callee {
				seen++
			}
		}
		return seen < 2
	}
	name := x.p.FuncName(callee)
	if x.opts.NoInline[name] {
		return false
	}
	for _, pk := range x.opts.NoInlinePkgs {
		if strings.HasPrefix(name, pk+".") {
			return false
		}
	}
	if fr.depth+1 > x.opts.MaxDepth {
		return false
	}
	// never re-enter something on the stack (or the entry): that is the inductive hypothesis
	for f := fr; f != nil; f = f.parent {
		if f.fn == callee {
			return false
		}
	}
	if x.opts.Inline[name] {
		return true
	}
	if x.family[callee] {
		return true
	}
	// other recursive families stay opaque
	if x.g.SameSCC(callee, callee) {
		return false
	}
	return true
}

func (x *explorer) call(st *state, fr *frame, b, prev *ssa.BasicBlock, idx int, ci ssa.CallInstruction) bool {
	c := ci.Common()
	var val ssa.Value
	if v, ok := ci.(ssa.Value); ok {
		val = v
	}
	var args []*T
	for _, a := range c.Args {
		args = append(args, x.val(st, fr, a))
	}
	setRes := func(st *state, t *T) {
		if val != nil {
			x.set(st, fr, val, t)
		}
	}
	if _, isDefer := ci.(*ssa.Defer); isDefer {
		name, _ := calleeFullName(c)
		x.effect(st, fr, Effect{Kind: "defer", Callee: name, Args: args, Pos: ci.Pos()})
		return false
	}
	if _, isGo := ci.(*ssa.Go); isGo {
		name, _ := calleeFullName(c)
		x.effect(st, fr, Effect{Kind: "go", Callee: name, Args: args, Pos: ci.Pos()})
		return false
	}
	if c.IsInvoke() {
		recv := x.val(st, fr, c.Value)
		x.nTerms++
		ct := &T{Op: "call", Name: "invoke:" + c.Method.Name(), N: x.nTerms, Args: append([]*T{recv}, args...), V: val}
		x.effect(st, fr, Effect{Kind: "invoke", Callee: c.Method.Name(), Args: ct.Args, Res: ct, Pos: ci.Pos()})
		setRes(st, ct)
		return false
	}
	if bi, ok := c.Value.(*ssa.Builtin); ok {
		setRes(st, x.builtin(st, fr, bi.Name(), args, ci))
		return false
	}
	// which function?
	var callee *ssa.Function
	var clo *closureVal
	if sc := c.StaticCallee(); sc != nil {
		callee = sc
		if mc, ok := c.Value.(*ssa.MakeClosure); ok {
			fv := x.val(st, fr, mc)
			clo = x.closures[fv]
		}
	} else {
		fv := x.val(st, fr, c.Value)
		if fv.Op == "closure" {
			clo = x.closures[fv]
			if clo != nil {
				callee = clo.fn
			}
		} else if fv.Op == "func" {
			callee, _ = fv.V.(*ssa.Function)
		}
		if callee == nil {
			x.nTerms++
			ct := &T{Op: "call", Name: "dyn:" + fv.String(), N: x.nTerms, Args: args, V: val}
			x.effect(st, fr, Effect{Kind: "dyncall", Callee: fv.String(), Args: append([]*T{fv}, args...), Res: ct, Pos: ci.Pos()})
			setRes(st, ct)
			return false
		}
	}
	name := x.fname(callee)
	if x.shouldInline(fr, callee) {
		nf := x.newFrame(callee, fr)
		for i, par := range callee.Params {
			if i < len(args) {
				st.env[envKey{nf.id, par}] = args[i]
			}
		}
		nf.free = map[*ssa.FreeVar]*T{}
		if clo != nil {
			for i, fv := range callee.FreeVars {
				if i < len(clo.bindings) {
					nf.free[fv] = clo.bindings[i]
				}
			}
		} else if len(callee.FreeVars) > 0 {
			for _, fv := range callee.FreeVars {
				nf.free[fv] = &T{Op: "free", Name: fv.Name(), V: fv}
			}
		}
		nres := callee.Signature.Results().Len()
		nf.onReturn = func(st2 *state, results []*T) {
			switch {
			case val == nil:
			case nres == 1 && len(results) == 1:
				x.set(st2, fr, val, results[0])
			default:
				x.set(st2, fr, val, &T{Op: "tuple", Args: results, V: val})
			}
			x.run(st2, fr, b, prev, idx+1)
		}
		x.run(st, nf, callee.Blocks[0], nil, 0)
		return true
	}
	if name == "os.Exit" {
		x.effect(st, fr, Effect{Kind: "extcall", Callee: name, Fn: callee, Args: args, Pos: ci.Pos()})
		x.emit(st, "exit", args, 0, ci.Pos())
		return true
	}
	if name == "maps.Clone" || name == "slices.Clone" || name == "golang.org/x/exp/slices.Clone" || name == "golang.org/x/exp/maps.Clone" {
		x.nTerms++
		var typ types.Type
		if val != nil {
			typ = concreteType(val.Type())
		}
		setRes(st, &T{Op: "clone", N: x.nTerms, Args: args, V: val, Typ: typ})
		return false
	}
	// equivalent spellings of library calls
	if name == "slices.Concat" && len(args) == 1 && args[0].Op == "lit" && len(args[0].Args) == 2 && args[0].Args[1].Op == "lit" {
		// slices.Concat(a, []T{x, ...}) holds the same values as append(a, x, ...), in a slice of its own
		x.nTerms++
		setRes(st, &T{Op: "append", N: x.nTerms, Args: []*T{args[0].Args[0], args[0].Args[1]}, V: val})
		return false
	}
	if name == "strings.Replace" && len(args) == 4 && args[3].IsConst("-1") {
		name, args = "strings.ReplaceAll", args[:3]
	}
	if name == "fmt.Sprint" && len(args) == 1 && args[0].Op == "lit" && len(args[0].Args) == 1 {
		// one operand: the %v text of it
		name, args = "fmt.Sprintf", []*T{mkConst(`"%v"`, types.Typ[types.String]), args[0]}
	}
	// sorting a slice that holds exactly the keys of a map gives slices.Sorted(maps.Keys(m)), however the keys were
	// collected (slices.Collect(maps.Keys(m)), or a loop appending every key)
	if (name == "slices.Sort" || name == "sort.Strings") && len(args) == 1 {
		if m := x.keysOfMap(args[0]); m != nil {
			x.nTerms++
			keys := &T{Op: "call", Name: "maps.Keys", N: x.nTerms, Args: []*T{m}}
			x.nTerms++
			sorted := &T{Op: "call", Name: "slices.Sorted", N: x.nTerms, Args: []*T{keys}, Typ: args[0].Typ}
			if sv := ci.Common().Args[0]; sv != nil {
				x.set(st, fr, sv, sorted)
			}
			return false
		}
	}
	x.nTerms++
	op := "call"
	kind := "call"
	if x.p.InRepo(callee) {
		if x.family[callee] || callee == x.entry {
			op, kind = "rec", "rec"
		}
	} else {
		kind = "extcall"
	}
	if kind != "extcall" {
		// arguments in the parameter order of the pinned tree: positional matchers survive a reordering
		args = x.p.frozenArgOrder(callee, args)
	}
	ct := &T{Op: op, Name: name, N: x.nTerms, Args: args, V: val}
	if !(kind == "extcall" && pureExternals[name]) {
		x.effect(st, fr, Effect{Kind: kind, Callee: name, Fn: callee, Args: args, Res: ct, Pos: ci.Pos()})
	}
	if kind == "extcall" {
		// a local variable passed by address to an external function is written by it
		for i, a := range args {
			if ck, ok := x.cellOf(a); ok {
				x.noteCellWrite(st, ck)
				st.cells[ck] = &T{Op: "out", Name: name, N: x.nTerms, Args: []*T{ct, mkConst(fmt.Sprint(i), nil)}, V: ck.al}
			}
		}
		// closures handed to an external function: assume it may call them; their effects on
		// captured cells are unknown -> havoc the cells they capture
		for _, a := range args {
			if a.Op == "closure" {
				if cv := x.closures[a]; cv != nil {
					for _, bnd := range cv.bindings {
						if ck, ok := x.cellOf(bnd); ok {
							x.nCarried++
							st.cells[ck] = &T{Op: "carried", Name: "after:" + name + ":" + ck.al.Comment, N: x.nCarried, V: ck.al}
						}
					}
				}
			}
		}
	}
	setRes(st, ct)
	return false
}

func (x *explorer) builtin(st *state, fr *frame, name string, args []*T, ci ssa.CallInstruction) *T {
	var v ssa.Value
	if vv, ok := ci.(ssa.Value); ok {
		v = vv
	}
	switch name {
	case "len":
		a := args[0]
		if a.Op == "lit" {
			return mkConst(fmt.Sprint(len(a.Args)), types.Typ[types.Int])
		}
		if a.IsNil() {
			return mkConst("0", types.Typ[types.Int])
		}
		if a.Op == "const" {
			if s, ok := a.StrConst(); ok {
				return mkConst(fmt.Sprint(len(s)), types.Typ[types.Int])
			}
		}
		return &T{Op: "len", Args: []*T{a}, V: v, Typ: types.Typ[types.Int]}
	case "append":
		var typ types.Type
		if v != nil {
			typ = concreteType(v.Type())
		}
		return &T{Op: "append", Args: args, V: v, Typ: typ}
	case "delete":
		x.effect(st, fr, Effect{Kind: "mapdel", Args: args, Pos: ci.Pos()})
		return nil
	case "copy":
		// out := make([]T, len(src)[, cap]); copy(out, src): out is slices.Clone(src) (non-nil where Clone(nil) is nil;
		// the may-be-nil analysis works on the SSA and is not affected)
		if len(args) == 2 && args[0].Op == "fresh" && args[0].Name == "slice" && len(args[0].Args) == 1 && args[0].Args[0].Op == "len" &&
			len(args[0].Args[0].Args) == 1 && args[0].Args[0].Args[0].String() == args[1].String() {
			if mk, ok := args[0].V.(*ssa.MakeSlice); ok && mk.Parent() == fr.fn {
				touched := false
				for _, e := range st.effects {
					for _, a := range e.Args {
						if a == args[0] || (a != nil && a.Contains(args[0])) {
							touched = true
						}
					}
				}
				if !touched {
					x.nTerms++
					x.set(st, fr, mk, &T{Op: "clone", N: x.nTerms, Args: []*T{args[1]}, V: mk, Typ: concreteType(mk.Type())})
					return &T{Op: "len", Args: []*T{args[1]}, V: v, Typ: types.Typ[types.Int]}
				}
			}
		}
		x.effect(st, fr, Effect{Kind: "elemset", Callee: "copy", Args: args, Pos: ci.Pos()})
		return &T{Op: "call", Name: "builtin:copy", Args: args, V: v}
	}
	return &T{Op: "call", Name: "builtin:" + name, Args: args, V: v}
}

// mutated: was the fresh map written on this path?
func (x *explorer) mutated(st *state, m *T) bool {
	for _, e := range st.effects {
		if (e.Kind == "mapset" || e.Kind == "mapdel") && len(e.Args) > 0 && e.Args[0].String() == m.String() {
			return true
		}
		if e.Kind == "call" || e.Kind == "rec" || e.Kind == "dyncall" || e.Kind == "extcall" {
			for _, a := range e.Args {
				if a.Contains(m) {
					return true
				}
			}
		}
	}
	return false
}

// ---- debugging --------------------------------------------------------------------------------

func dumpPaths(p *Prog, name string) {
	fn := p.Func(name)
	paths := p.Paths(fn, PSOpts{NoInline: dumpNoInline, NoInlinePkgs: strings.Fields(os.Getenv("BKLCHECK_NOINLINEPKG"))})
	for i, pa := range paths {
		fmt.Printf("%3d %s\n", i, pa)
		if os.Getenv("BKLCHECK_CARRIED") != "" && len(pa.Carried) > 0 {
			var ids []int
			for id := range pa.Carried {
				ids = append(ids, id)
			}
			sort.Ints(ids)
			for _, id := range ids {
				fmt.Printf("      carried #%d := %s\n", id, pa.Carried[id])
			}
		}
	}
	fmt.Printf("%d paths\n", len(paths))
	ci := p.carriedInfo[p.lastPathKey]
	var ids []int
	for id := range ci {
		ids = append(ids, id)
	}
	sort.Ints(ids)
	for _, id := range ids {
		var ss []string
		for _, s := range ci[id].Src {
			ss = append(ss, s.String())
		}
		fmt.Printf("carried #%d init=%v src=%v\n", id, ci[id].Init, ss)
	}
}

// stdHelperPkg: callee is (an instance of) a function of package slices or maps whose behaviour is a plain
// loop over its arguments (search, test, copy); sorting and the iterator constructors stay opaque.
func stdHelperPkg(fn *ssa.Function) bool {
	o := fn.Origin()
	if o == nil {
		o = fn
	}
	if o.Pkg == nil {
		return false
	}
	switch o.Pkg.Pkg.Path() {
	case "slices":
		switch o.Name() {
		case "ContainsFunc", "IndexFunc", "Contains", "Index":
			return true
		}
	}
	return false
}

// keysOfMap: t is a slice holding exactly the keys of a map m, in whatever order: slices.Collect(maps.Keys(m)),
// or the result of a loop over m that appends the key in every iteration to an initially empty slice. Returns m.
func (x *explorer) keysOfMap(t *T) *T {
	if t == nil {
		return nil
	}
	if t.Op == "call" && t.Name == "slices.Collect" && len(t.Args) == 1 && t.Args[0].Op == "call" && t.Args[0].Name == "maps.Keys" && len(t.Args[0].Args) == 1 {
		return t.Args[0].Args[0]
	}
	if t.Op != "carried" {
		return nil
	}
	info := carriedInfo{Init: x.carInit[t.N], Src: x.carSrc[t.N]}
	if info.Init == nil || len(info.Src) == 0 {
		return nil
	}
	if !(info.Init.IsEmptyList() || info.Init.IsNil()) {
		return nil
	}
	var m *T
	for _, s := range info.Src {
		if s.Op == "carried" && s.N == t.N {
			return nil // an iteration that skips a key: not all keys
		}
		if s.Op != "append" || len(s.Args) != 2 || s.Args[0].Op != "carried" || s.Args[0].N != t.N {
			return nil
		}
		l := s.Args[1]
		if l.Op != "lit" || len(l.Args) != 1 || l.Args[0].Op != "key" || len(l.Args[0].Args) != 1 {
			return nil
		}
		mm := l.Args[0].Args[0]
		if m != nil && m.String() != mm.String() {
			return nil
		}
		m = mm
	}
	return m
}

// onlyLogs: inside its loop the iteration does nothing but call the log package, and every loop-carried
// variable keeps its value (or is the loop's own index).
func (x *explorer) onlyLogs(pa *Path) bool {
	n := 0
	for _, e := range pa.Effects {
		in := false
		for _, l := range e.Loops {
			if l == pa.Loop {
				in = true
			}
		}
		if !in {
			continue
		}
		if e.Kind == "extcall" && strings.HasPrefix(e.Callee, "log.") {
			n++
			continue
		}
		return false
	}
	if n == 0 {
		return false
	}
	for id, v := range pa.Carried {
		if !(v.Op == "carried" && v.N == id) && v.Op != "idx" {
			return false
		}
	}
	return true
}

// onlyCollectsKeys: every loop-carried update of the iteration is the identity, the range index, or the append
// of the current map key to a list that holds exactly the keys of that map.
func (x *explorer) onlyCollectsKeys(pa *Path) bool {
	n := 0
	for id, v := range pa.Carried {
		switch {
		case v.Op == "carried" && v.N == id, v.Op == "idx":
		case v.Op == "append" && len(v.Args) == 2 && v.Args[0].Op == "carried" && v.Args[0].N == id &&
			v.Args[1].Op == "lit" && len(v.Args[1].Args) == 1 && v.Args[1].Args[0].Op == "key" &&
			x.keysOfMap(v.Args[0]) != nil:
			n++
		default:
			return false
		}
	}
	return n > 0
}

// countedIndexPhi: phi is the counter of "for i := 0; i < len(x); i++": on every way back to the header it is
// phi+1, nothing else assigns it, and the header leaves the loop on !(phi < len(x)).
func countedIndexPhi(phi *ssa.Phi, h *ssa.BasicBlock, body map[*ssa.BasicBlock]bool) bool {
	bt, ok := phi.Type().Underlying().(*types.Basic)
	if !ok || bt.Info()&types.IsInteger == 0 || phi.Comment == "rangeindex" {
		return false
	}
	n := 0
	for i, e := range phi.Edges {
		if !body[h.Preds[i]] {
			continue
		}
		bo, ok := e.(*ssa.BinOp)
		if !ok || bo.Op != token.ADD || bo.X != ssa.Value(phi) {
			return false
		}
		c, ok := bo.Y.(*ssa.Const)
		if !ok || c.Value == nil || c.Value.ExactString() != "1" {
			return false
		}
		n++
	}
	if n == 0 {
		return false
	}
	iff, ok := h.Instrs[len(h.Instrs)-1].(*ssa.If)
	if !ok {
		return false
	}
	cond, ok := iff.Cond.(*ssa.BinOp)
	if !ok || cond.Op != token.LSS || cond.X != ssa.Value(phi) {
		return false
	}
	ln, ok := cond.Y.(*ssa.Call)
	if !ok {
		return false
	}
	bi, ok := ln.Common().Value.(*ssa.Builtin)
	if !ok || bi.Name() != "len" {
		return false
	}
	if _, isSlice := ln.Common().Args[0].Type().Underlying().(*types.Slice); !isSlice {
		return false
	}
	return body[h.Succs[0]]
}

// simplifyBool rewrites boolean-valued result terms with what the path already knows: the outcome of a type
// test or of a comparison that was branched on, and the algebra of == / != with true and false
// ("return isList", "return inner(...) != negate").
func simplifyBool(guards []Atom, t *T, depth int) *T {
	if t == nil || depth > 6 {
		return t
	}
	boolConst := func(x *T) (bool, bool) {
		if x != nil && x.Op == "const" && (x.Name == "true" || x.Name == "false") {
			return x.Name == "true", true
		}
		return false, false
	}
	switch t.Op {
	case "iskind":
		if len(t.Args) == 1 {
			for _, g := range guards {
				if g.Kind == "kind" && g.Const == t.Name && g.A != nil && g.A.String() == t.Args[0].String() {
					return mkConst(fmt.Sprint(!g.Neg), nil)
				}
			}
		}
	case "not":
		if len(t.Args) == 1 {
			a := simplifyBool(guards, t.Args[0], depth+1)
			if v, ok := boolConst(a); ok {
				return mkConst(fmt.Sprint(!v), nil)
			}
			if a != t.Args[0] {
				return &T{Op: "not", Args: []*T{a}, V: t.V, Typ: t.Typ}
			}
		}
	case "binop":
		if (t.Name == "==" || t.Name == "!=") && len(t.Args) == 2 {
			a := simplifyBool(guards, t.Args[0], depth+1)
			b := simplifyBool(guards, t.Args[1], depth+1)
			// decided by a branch on the very same comparison
			for _, g := range guards {
				if g.Kind != "eq" || g.A == nil || g.B == nil {
					continue
				}
				as, bs := g.A.String(), g.B.String()
				if (as == a.String() && bs == b.String()) || (as == b.String() && bs == a.String()) {
					eq := !g.Neg
					if t.Name == "!=" {
						eq = !eq
					}
					return mkConst(fmt.Sprint(eq), nil)
				}
			}
			av, aok := boolConst(a)
			bv, bok := boolConst(b)
			switch {
			case aok && bok:
				r := av == bv
				if t.Name == "!=" {
					r = !r
				}
				return mkConst(fmt.Sprint(r), nil)
			case bok || aok:
				other, c := a, bv
				if aok {
					other, c = b, av
				}
				// x == true, x != false -> x ; x == false, x != true -> !x
				keep := (t.Name == "==") == c
				if keep {
					return other
				}
				if v, ok := boolConst(other); ok {
					return mkConst(fmt.Sprint(!v), nil)
				}
				return &T{Op: "not", Args: []*T{other}, V: t.V, Typ: t.Typ}
			}
			if a != t.Args[0] || b != t.Args[1] {
				return &T{Op: "binop", Name: t.Name, Args: []*T{a, b}, V: t.V, Typ: t.Typ, N: t.N}
			}
		}
	}
	return t
}

// structFieldKey: the qualified name FieldAddr-based stores use for field i of struct type t.
func structFieldKey(t types.Type, i int) string {
	stt := t.Underlying().(*types.Struct)
	name := pinnedField(stt, i)
	if nt, ok := t.(*types.Named); ok {
		pk := ""
		if nt.Obj().Pkg() != nil {
			pk = nt.Obj().Pkg().Path() + "."
		}
		return pk + nt.Obj().Name() + "." + name
	}
	return t.String() + "." + name
}
