package main

// TERM — panic-site audit (C08.panic): unchecked type assertions, bounds checks the compiler
// could not prove, explicit panics, integer division, writes to nil maps.

import (
	"bufio"
	"bytes"
	"fmt"
	"go/constant"
	"go/token"
	"go/types"
	"os"
	"os/exec"
	"path/filepath"
	"regexp"
	"regexp/syntax"
	"sort"
	"strconv"
	"strings"

	"golang.org/x/tools/go/ssa"
)

// reachableRepoFuncs: repo functions reachable from the entry points.
func (p *Prog) reachableRepoFuncs() []*ssa.Function {
	g := p.CG()
	roots := p.Entries()
	for _, fn := range p.Funcs {
		// String/Error methods may be called by fmt through interfaces
		if fn.Signature.Recv() != nil && (fn.Name() == "String" || fn.Name() == "Error") {
			roots = append(roots, fn)
		}
	}
	reach := g.Reachable(roots...)
	var out []*ssa.Function
	for _, fn := range p.Funcs {
		if reach[fn] {
			out = append(out, fn)
		}
	}
	return out
}

// noReturn: does every path through fn end in a call of os.Exit (or another no-return function)?
func (p *Prog) noReturn(fn *ssa.Function, seen map[*ssa.Function]bool) bool {
	if fn == nil {
		return false
	}
	if fn.String() == "os.Exit" {
		return true
	}
	if !p.InRepo(fn) || fn.Blocks == nil || seen[fn] {
		return false
	}
	seen[fn] = true
	defer delete(seen, fn)
	// a Return block must be unreachable once edges after no-return calls are cut
	live := map[*ssa.BasicBlock]bool{}
	var walk func(b *ssa.BasicBlock)
	walk = func(b *ssa.BasicBlock) {
		if live[b] {
			return
		}
		live[b] = true
		for _, in := range b.Instrs {
			if c, ok := in.(*ssa.Call); ok {
				if p.noReturn(c.Common().StaticCallee(), seen) {
					return // nothing after this executes
				}
			}
			if _, ok := in.(*ssa.Panic); ok {
				return
			}
		}
		for _, s := range b.Succs {
			walk(s)
		}
	}
	walk(fn.Blocks[0])
	for b := range live {
		if _, ok := b.Instrs[len(b.Instrs)-1].(*ssa.Return); ok {
			// reached a return: is it after a no-return call in the same block? handled above (walk stops)
			cut := false
			for _, in := range b.Instrs {
				if c, ok := in.(*ssa.Call); ok && p.noReturn(c.Common().StaticCallee(), seen) {
					cut = true
				}
			}
			if !cut {
				return false
			}
		}
	}
	return true
}

// blockDies: block contains a call to a no-return function (control never leaves it).
func (p *Prog) blockDies(b *ssa.BasicBlock) bool {
	for _, in := range b.Instrs {
		if c, ok := in.(*ssa.Call); ok {
			if p.noReturn(c.Common().StaticCallee(), map[*ssa.Function]bool{}) {
				return true
			}
		}
	}
	return false
}

// reachesLiveFrom is reachesLive for control that enters `from` over the edge pred -> from, and it follows a
// constant through a boolean join: a block that branches on a phi of its own takes, when entered over an edge
// that carries a constant into that phi, only the matching side ("ok := a && b; if ok && c" compiles to this).
func (p *Prog) reachesLiveFrom(pred, from, to *ssa.BasicBlock) bool {
	type edge struct{ p, b *ssa.BasicBlock }
	seen := map[edge]bool{}
	var walk func(pr, b *ssa.BasicBlock) bool
	walk = func(pr, b *ssa.BasicBlock) bool {
		if b == to {
			return true
		}
		if seen[edge{pr, b}] {
			return false
		}
		seen[edge{pr, b}] = true
		if p.blockDies(b) {
			return false
		}
		succs := b.Succs
		if iff, ok := b.Instrs[len(b.Instrs)-1].(*ssa.If); ok && pr != nil {
			if phi, ok := iff.Cond.(*ssa.Phi); ok && phi.Block() == b {
				onlyPhisBefore := true
				for _, in := range b.Instrs[:len(b.Instrs)-1] {
					switch in.(type) {
					case *ssa.Phi, *ssa.DebugRef:
					default:
						onlyPhisBefore = false
					}
				}
				for i, q := range b.Preds {
					if q != pr || !onlyPhisBefore {
						continue
					}
					if c, ok := phi.Edges[i].(*ssa.Const); ok && c.Value != nil && c.Value.Kind() == constant.Bool {
						if constant.BoolVal(c.Value) {
							succs = b.Succs[:1]
						} else {
							succs = b.Succs[1:2]
						}
					}
				}
			}
		}
		for _, s := range succs {
			if walk(b, s) {
				return true
			}
		}
		return false
	}
	return walk(pred, from)
}

// reachesLive: can control flow from `from` reach `to` without passing through a block that dies?
func (p *Prog) reachesLive(from, to *ssa.BasicBlock) bool {
	seen := map[*ssa.BasicBlock]bool{}
	var walk func(b *ssa.BasicBlock) bool
	walk = func(b *ssa.BasicBlock) bool {
		if b == to {
			return true
		}
		if seen[b] {
			return false
		}
		seen[b] = true
		if p.blockDies(b) {
			return false
		}
		for _, s := range b.Succs {
			if walk(s) {
				return true
			}
		}
		return false
	}
	return walk(from)
}

// accessPath gives a syntactic name to a value that is re-loaded at each use (no CSE in go/ssa):
// parameter, field loads, global loads.
func accessPath(v ssa.Value) string {
	switch x := v.(type) {
	case *ssa.Parameter:
		return "param:" + x.Name()
	case *ssa.UnOp:
		if x.Op == token.MUL {
			switch a := x.X.(type) {
			case *ssa.FieldAddr:
				base := accessPath(a.X)
				if base == "" {
					return ""
				}
				return base + "." + fieldName(a)
			case *ssa.Global:
				return "global:" + a.String()
			case *ssa.Alloc:
				stores := cellStores(a)
				if len(stores) == 1 {
					return accessPath(stores[0])
				}
			case *ssa.FreeVar:
				// a captured variable that is assigned exactly once (a spilled parameter, typically): every load
				// of it, in whichever closure, is the same value
				if capturedNeverReassigned(a) {
					return "captured:" + a.Parent().Name() + ":" + a.Name()
				}
			}
		}
	case *ssa.Extract:
		return fmt.Sprintf("extract:%p#%d", x.Tuple, x.Index)
	case *ssa.Call:
		return fmt.Sprintf("call:%p", x)
	}
	if v != nil {
		return fmt.Sprintf("val:%p", v)
	}
	return ""
}

type bceSite struct {
	File string
	Line int
	Col  int
	Kind string
}

var bceRE = regexp.MustCompile(`^(.*\.go):(\d+):(\d+): Found (IsInBounds|IsSliceInBounds)`)

// compilerBoundsList runs the gc compiler's own bounds-check-elimination report (a static
// analysis; nothing is executed) and returns the checks it could not prove, for repo files.
func (p *Prog) compilerBoundsList(goCmd string) ([]bceSite, error) {
	cmd := exec.Command(goCmd, "build", "-gcflags=-d=ssa/check_bce/debug=1", "-o", os.DevNull, "./...")
	cmd.Dir = p.RepoDir
	env := append(os.Environ(), "GOFLAGS=-mod=mod", "GOPROXY=off", "GOWORK=off", "CGO_ENABLED=0")
	if p.Config.GOOS != "" {
		env = append(env, "GOOS="+p.Config.GOOS)
	}
	if p.Config.GOARCH != "" {
		env = append(env, "GOARCH="+p.Config.GOARCH)
	}
	if goCmd != "go" {
		env = append(env, "GOTOOLCHAIN=local")
	}
	cmd.Env = env
	var out bytes.Buffer
	cmd.Stdout = &out
	cmd.Stderr = &out
	err := cmd.Run()
	var sites []bceSite
	sc := bufio.NewScanner(&out)
	sc.Buffer(make([]byte, 1<<20), 1<<24)
	nonDiag := []string{}
	for sc.Scan() {
		line := sc.Text()
		m := bceRE.FindStringSubmatch(line)
		if m == nil {
			if !strings.HasPrefix(line, "#") && strings.TrimSpace(line) != "" {
				nonDiag = append(nonDiag, line)
			}
			continue
		}
		f := m[1]
		if !filepath.IsAbs(f) {
			f = filepath.Join(p.RepoDir, f)
		}
		rel, rerr := filepath.Rel(p.RepoDir, f)
		if rerr != nil || strings.HasPrefix(rel, "..") {
			continue // library source: trusted base
		}
		l, _ := strconv.Atoi(m[2])
		c, _ := strconv.Atoi(m[3])
		sites = append(sites, bceSite{rel, l, c, m[4]})
	}
	if err != nil {
		return nil, fmt.Errorf("go build failed: %v: %s", err, strings.Join(nonDiag, " | "))
	}
	return sites, nil
}

// secondToolchain: name of a second go command whose bounds-check list is also consulted (thorough tier).
var secondToolchain string

type panicAudit struct {
	p *Prog
	r *Result
}

// rulePanic implements C08.panic.
func rulePanic(p *Prog, r *Result) {
	a := &panicAudit{p, r}
	fns := p.reachableRepoFuncs()
	r.Count("reachable_functions", len(fns))
	nAssert, nExplicit, nDiv, nIdx, nLib := 0, 0, 0, 0, 0

	// positions of every index/slice instruction, for matching the compiler's list
	type idxInstr struct {
		fn *ssa.Function
		in ssa.Instruction
	}
	byPos := map[string][]idxInstr{}
	posKey := func(pos token.Pos) string {
		ps := p.Fset.Position(pos)
		rel, _ := filepath.Rel(p.RepoDir, ps.Filename)
		return fmt.Sprintf("%s:%d:%d", rel, ps.Line, ps.Column)
	}
	reach := map[*ssa.Function]bool{}
	for _, fn := range fns {
		reach[fn] = true
	}
	for _, fn := range p.Funcs {
		for _, b := range fn.Blocks {
			for _, in := range b.Instrs {
				switch x := in.(type) {
				case *ssa.IndexAddr, *ssa.Index, *ssa.Slice:
					byPos[posKey(in.Pos())] = append(byPos[posKey(in.Pos())], idxInstr{fn, in})
					nIdx++
				case *ssa.Lookup:
					if _, isMap := x.X.Type().Underlying().(*types.Map); !isMap {
						byPos[posKey(in.Pos())] = append(byPos[posKey(in.Pos())], idxInstr{fn, in})
						nIdx++
					}
				}
			}
		}
	}

	for _, fn := range fns {
		for _, b := range fn.Blocks {
			for _, in := range b.Instrs {
				switch x := in.(type) {
				case *ssa.TypeAssert:
					if x.CommaOk {
						continue
					}
					nAssert++
					key := fmt.Sprintf("%s / unchecked assertion .(%s) of %s", p.FuncName(fn), types.TypeString(x.AssertedType, shortQual), describeValue(p, x.X))
					if ok, why := a.assertSafe(x); ok {
						r.OK("C08.panic", key, p.InstrPos(in), why)
					} else {
						r.Fail("C08.panic", key, p.InstrPos(in), "type assertion without comma-ok whose operand is not provably of the asserted type: "+why)
					}
				case *ssa.Panic:
					if strings.HasPrefix(b.Comment, "rangefunc.") || b.Comment == "yield-invalid" {
						continue // compiler-generated iterator protocol checks, not reachable with well-behaved iterators (sortedMap obligation)
					}
					nExplicit++
					r.Fail("C08.panic", p.FuncName(fn)+" / explicit panic", p.InstrPos(in), "explicit panic reachable from an entry point")
				case *ssa.BinOp:
					if x.Op == token.QUO || x.Op == token.REM {
						if bt, ok := x.X.Type().Underlying().(*types.Basic); ok && bt.Info()&types.IsInteger != 0 {
							nDiv++
							if c, ok := x.Y.(*ssa.Const); ok && c.Value != nil && constant.Sign(c.Value) != 0 {
								r.OK("C08.panic", p.FuncName(fn)+" / integer division by constant", p.InstrPos(in), "non-zero constant divisor")
							} else {
								r.Fail("C08.panic", p.FuncName(fn)+" / integer division", p.InstrPos(in), "integer division by a value not proven non-zero")
							}
						}
					}
				case *ssa.MakeSlice:
					// make([]T, n, m) panics for a negative (or absurdly large) size: sizes must be constants, lengths, or tested
					for _, sz := range []ssa.Value{x.Len, x.Cap} {
						if sz == nil {
							continue
						}
						if ok, why := a.nonNegative(sz, in.Block(), 0); ok {
							if _, isC := sz.(*ssa.Const); !isC {
								r.OK("C08.panic", fmt.Sprintf("%s / make with size %s", p.FuncName(fn), describeValue(p, sz)), p.InstrPos(in), why)
							}
						} else {
							r.Fail("C08.panic", fmt.Sprintf("%s / make with size %s", p.FuncName(fn), describeValue(p, sz)), p.InstrPos(in), "make with a size that is not known to be non-negative (a negative size is a run-time panic): "+why)
						}
					}
				case *ssa.Call:
					// library calls with a panicking precondition on an index
					sc := x.Common().StaticCallee()
					if sc == nil || sc.String() != "(*golang.org/x/exp/utf8string.String).At" || len(x.Common().Args) != 2 {
						continue
					}
					nLib++
					recv, idx := x.Common().Args[0], x.Common().Args[1]
					key := fmt.Sprintf("%s / utf8string.At(%s)", p.FuncName(fn), describeValue(p, idx))
					k, isK := constInt(idx)
					if !isK || k < 0 {
						r.Fail("C08.panic", key, p.InstrPos(in), "rune index that is not a non-negative constant: At panics outside [0, RuneCount())")
						continue
					}
					if ok, why := a.sizeGuard(fn, in.Block(), func(v ssa.Value) bool {
						c, ok := v.(*ssa.Call)
						if !ok {
							return false
						}
						sc2 := c.Common().StaticCallee()
						return sc2 != nil && sc2.String() == "(*golang.org/x/exp/utf8string.String).RuneCount" && c.Common().Args[0] == recv
					}, k+1); ok {
						r.OK("C08.panic", key, p.InstrPos(in), strings.Replace(why, "len", "RuneCount()", 1))
					} else {
						r.Fail("C08.panic", key, p.InstrPos(in), fmt.Sprintf("At(%d) panics on a string of fewer than %d runes and no dominating RuneCount() test guarantees that many", k, k+1))
					}
				case *ssa.MapUpdate:
					if isNilConst(x.Map, map[ssa.Value]bool{}) {
						r.Fail("C08.panic", p.FuncName(fn)+" / write to nil map", p.InstrPos(in), "map assignment on a map that may be the nil constant")
					}
				}
			}
		}
	}

	// bounds: the compiler's list of unproven checks
	sites, err := p.compilerBoundsList("go")
	if err != nil {
		r.Undecided("C08.panic", "compiler bounds list", "", err.Error())
		return
	}
	if secondToolchain != "" {
		// thorough tier: the second installed toolchain's prove pass as an independent list
		more, err2 := p.compilerBoundsList(secondToolchain)
		if err2 != nil {
			r.Undecided("C08.panic", "compiler bounds list ("+secondToolchain+")", "", err2.Error())
			return
		}
		r.Count("bounds_sites_second_toolchain", len(more))
		sites = append(sites, more...)
	}
	nUnproven := 0
	seenSite := map[string]bool{}
	for _, s := range sites {
		k := fmt.Sprintf("%s:%d:%d", s.File, s.Line, s.Col)
		if seenSite[k] {
			continue
		}
		seenSite[k] = true
		ins := byPos[k]
		if len(ins) == 0 {
			continue // position of an inlined library body (call expression): trusted base
		}
		for _, ii := range ins {
			if !reach[ii.fn] && !reach[topFunc(ii.fn)] {
				continue
			}
			nUnproven++
			key := fmt.Sprintf("%s / %s", p.FuncName(ii.fn), describeIndex(p, ii.in))
			if ok, why := a.boundsSafe(ii.fn, ii.in); ok {
				r.OK("C08.panic", key, p.InstrPos(ii.in), "compiler could not prove the bounds check; discharged: "+why)
			} else {
				r.Fail("C08.panic", key, p.InstrPos(ii.in), "index or slice expression whose bounds neither the compiler nor a discharge pattern proves: "+why)
			}
		}
	}
	r.Count("type_assertions_unchecked", nAssert)
	r.Count("index_slice_instructions", nIdx)
	r.Count("bounds_checks_unproven_by_compiler", nUnproven)
	r.Count("explicit_panics", nExplicit)
	r.Count("library_index_calls", nLib)
	r.Count("integer_divisions", nDiv)
	r.Floor("C08.panic", "index/slice instructions examined", nIdx, 20)
	r.Floor("C08.panic", "reachable functions", len(fns), 150)
}

func shortQual(p *types.Package) string { return p.Name() }

func isNilConst(v ssa.Value, seen map[ssa.Value]bool) bool {
	if seen[v] {
		return false
	}
	seen[v] = true
	switch x := v.(type) {
	case *ssa.Const:
		return x.IsNil()
	case *ssa.Phi:
		for _, e := range x.Edges {
			if isNilConst(e, seen) {
				return true
			}
		}
	}
	return false
}

// describeValue names a value without using positions or register names.
func describeValue(p *Prog, v ssa.Value) string {
	switch x := v.(type) {
	case *ssa.Parameter:
		return "parameter " + x.Name()
	case *ssa.Extract:
		if c, ok := x.Tuple.(*ssa.Call); ok {
			return fmt.Sprintf("result #%d of %s", x.Index, calleeName(p, c.Common()))
		}
		return fmt.Sprintf("component #%d", x.Index)
	case *ssa.Call:
		return "result of " + calleeName(p, x.Common())
	case *ssa.UnOp:
		if x.Op == token.MUL {
			switch a := x.X.(type) {
			case *ssa.FieldAddr:
				return describeValue(p, a.X) + "." + a.X.Type().Underlying().(*types.Pointer).Elem().Underlying().(*types.Struct).Field(a.Field).Name()
			case *ssa.Global:
				return a.String()
			case *ssa.Alloc:
				if a.Comment != "" {
					return "variable " + a.Comment
				}
			case *ssa.FreeVar:
				return "captured " + a.Name()
			}
		}
	case *ssa.Const:
		return x.String()
	case *ssa.Phi:
		if x.Comment != "" {
			return "variable " + x.Comment
		}
	case *ssa.TypeAssert:
		return describeValue(p, x.X)
	case *ssa.MakeInterface:
		return describeValue(p, x.X)
	case *ssa.BinOp:
		return describeValue(p, x.X) + x.Op.String() + describeValue(p, x.Y)
	case *ssa.Lookup:
		return describeValue(p, x.X) + "[" + describeValue(p, x.Index) + "]"
	}
	if v == nil {
		return "nil"
	}
	return strings.TrimPrefix(fmt.Sprintf("%T", v), "*ssa.")
}

func calleeName(p *Prog, c *ssa.CallCommon) string {
	if c.IsInvoke() {
		return "method " + c.Method.Name()
	}
	if sc := c.StaticCallee(); sc != nil {
		if p.InRepo(sc) {
			return p.FuncName(sc)
		}
		if o := sc.Origin(); o != nil {
			return o.String()
		}
		return sc.String()
	}
	if b, ok := c.Value.(*ssa.Builtin); ok {
		return b.Name()
	}
	return "dynamic call"
}

func describeIndex(p *Prog, in ssa.Instruction) string {
	switch x := in.(type) {
	case *ssa.IndexAddr:
		return fmt.Sprintf("index %s[%s]", describeValue(p, x.X), describeValue(p, x.Index))
	case *ssa.Index:
		return fmt.Sprintf("index %s[%s]", describeValue(p, x.X), describeValue(p, x.Index))
	case *ssa.Lookup:
		return fmt.Sprintf("index %s[%s]", describeValue(p, x.X), describeValue(p, x.Index))
	case *ssa.Slice:
		lo, hi := "", ""
		if x.Low != nil {
			lo = describeValue(p, x.Low)
		}
		if x.High != nil {
			hi = describeValue(p, x.High)
		}
		return fmt.Sprintf("slice %s[%s:%s]", describeValue(p, x.X), lo, hi)
	}
	return "index"
}

// ---- type assertions --------------------------------------------------------------------------

func (a *panicAudit) assertSafe(ta *ssa.TypeAssert) (bool, string) {
	if ok, why := a.hasDynType(ta.X, ta.AssertedType, map[ssa.Value]bool{}, 0); ok {
		return true, why
	}
	// dominated by a successful comma-ok assertion of the same operand to the same type
	fn := ta.Parent()
	for _, b := range fn.Blocks {
		for _, in := range b.Instrs {
			o, ok := in.(*ssa.TypeAssert)
			if !ok || !o.CommaOk || o.X != ta.X || !types.Identical(o.AssertedType, ta.AssertedType) {
				continue
			}
			iff, ok := b.Instrs[len(b.Instrs)-1].(*ssa.If)
			if !ok {
				continue
			}
			if ex, ok := iff.Cond.(*ssa.Extract); ok && ex.Tuple == o && ex.Index == 1 {
				t := b.Succs[0]
				if len(t.Preds) == 1 && t.Dominates(ta.Block()) {
					return true, "dominated by a successful comma-ok assertion of the same value"
				}
			}
		}
	}
	return false, "operand " + describeValue(a.p, ta.X) + " can hold another dynamic type (or nil)"
}

// hasDynType: does v always hold a non-nil value of dynamic type t?
func (a *panicAudit) hasDynType(v ssa.Value, t types.Type, seen map[ssa.Value]bool, depth int) (bool, string) {
	if seen[v] || depth > 8 {
		return false, ""
	}
	seen[v] = true
	switch x := v.(type) {
	case *ssa.MakeInterface:
		if types.Identical(x.X.Type(), t) {
			return true, "operand is boxed from " + types.TypeString(t, shortQual) + " on every path"
		}
		return false, ""
	case *ssa.ChangeInterface:
		return a.hasDynType(x.X, t, seen, depth)
	case *ssa.Phi:
		for _, e := range x.Edges {
			if ok, _ := a.hasDynType(e, t, seen, depth); !ok {
				return false, ""
			}
		}
		return len(x.Edges) > 0, "every incoming value is boxed from " + types.TypeString(t, shortQual)
	case *ssa.Extract:
		if c, ok := x.Tuple.(*ssa.Call); ok {
			return a.resultHasDynType(c, x.Index, t, seen, depth)
		}
	case *ssa.Call:
		return a.resultHasDynType(x, 0, t, seen, depth)
	}
	return false, ""
}

func (a *panicAudit) resultHasDynType(c *ssa.Call, idx int, t types.Type, seen map[ssa.Value]bool, depth int) (bool, string) {
	callee := c.Common().StaticCallee()
	if callee != nil && callee.String() == "(*sync.Pool).Get" {
		if g, ok := c.Common().Args[0].(*ssa.Global); ok && a.p.isRepoGlobal(g) {
			if et := a.p.poolElemType(g); et != nil && types.Identical(et, t) {
				return true, "the pool's New function and every Put hold " + types.TypeString(t, shortQual) + " only"
			}
		}
		return false, ""
	}
	if callee == nil || !a.p.InRepo(callee) || callee.Blocks == nil {
		return false, ""
	}
	n := 0
	for _, b := range callee.Blocks {
		ret, ok := b.Instrs[len(b.Instrs)-1].(*ssa.Return)
		if !ok || idx >= len(ret.Results) {
			continue
		}
		// results accompanied by a non-nil error are not used by a caller that checked the error;
		// we do not rely on that: every return must box the type.
		n++
		if ok, _ := a.hasDynType(retValue(ret, idx), t, seen, depth+1); !ok {
			return false, ""
		}
	}
	if n == 0 {
		return false, ""
	}
	return true, fmt.Sprintf("every return of %s boxes %s", a.p.FuncName(callee), types.TypeString(t, shortQual))
}

// ---- bounds -----------------------------------------------------------------------------------

func constInt(v ssa.Value) (int64, bool) {
	c, ok := v.(*ssa.Const)
	if !ok || c.Value == nil || c.Value.Kind() != constant.Int {
		return 0, false
	}
	return c.Int64(), true
}

// boundsExceptions: single named functions whose index expressions are outside the property's
// input space, each with its reason.
var boundsExceptions = map[string]string{
	"cmd/bkl.versionFromBuildInfo": "slices the vcs.revision string of the binary's own build info (-V / BKL_VERSION); build metadata is not an evaluation input of the property",
}

func (a *panicAudit) boundsSafe(fn *ssa.Function, in ssa.Instruction) (bool, string) {
	p := a.p
	if why, ok := boundsExceptions[p.FuncName(topFunc(fn))]; ok {
		return true, "reasoned exception: " + why
	}
	var base, idx ssa.Value
	var lowC int64 = -1
	isSlice := false
	switch x := in.(type) {
	case *ssa.IndexAddr:
		base, idx = x.X, x.Index
	case *ssa.Index:
		base, idx = x.X, x.Index
	case *ssa.Lookup:
		base, idx = x.X, x.Index
	case *ssa.Slice:
		base = x.X
		isSlice = true
		if x.High != nil || x.Max != nil {
			// s[a:b] with computed bounds: only the guarded-length pattern below applies
			lowC = -2
		} else if x.Low != nil {
			if c, ok := constInt(x.Low); ok {
				lowC = c
			} else {
				lowC = -2
			}
		} else {
			lowC = 0
		}
	}
	need := int64(-1) // minimal length that makes the access safe, when the index is constant
	if !isSlice {
		if c, ok := constInt(idx); ok && c >= 0 {
			need = c + 1
		}
	} else if lowC >= 0 {
		need = lowC
	}

	// (1) os.Args has at least one element
	if accessPath(base) == "global:os.Args" && need >= 0 && need <= 1 {
		return true, "os.Args always holds the program name"
	}
	// (2) strings.Split / SplitN with a non-empty constant separator returns at least one element
	if need == 1 {
		if c, ok := base.(*ssa.Call); ok {
			if sc := c.Common().StaticCallee(); sc != nil {
				name := sc.String()
				if name == "strings.Split" || name == "strings.SplitN" || name == "strings.SplitAfter" {
					if sep, ok := c.Common().Args[1].(*ssa.Const); ok && sep.Value != nil && sep.Value.Kind() == constant.String && constant.StringVal(sep.Value) != "" {
						if name == "strings.SplitN" {
							if n, ok := constInt(c.Common().Args[2]); !ok || n == 0 {
								return false, "strings.SplitN with n == 0 returns nil"
							}
						}
						return true, name + " with a non-empty separator returns at least one element"
					}
				}
			}
		}
	}
	// (3) guarded length: an If on len(base) dominates, and the failing side cannot reach the access
	if need >= 0 {
		if ok, why := a.lenGuard(fn, in.Block(), base, need); ok {
			return true, why
		}
	}
	// (4) loop condition idx+k < len(base) with a non-negative induction variable
	if !isSlice {
		if ok, why := a.loopBound(fn, in.Block(), base, idx); ok {
			return true, why
		}
		// (4b) descending loop: i = len(base)-1; i >= 0; i--
		if ok, why := a.descendingLoop(fn, in.Block(), base, idx); ok {
			return true, why
		}
		// (5) parallel slices
		if ok, why := a.parallelIndex(fn, in.Block(), base, idx); ok {
			return true, why
		}
		// (6) yaml document node
		if need == 1 {
			if ok, why := a.yamlDocumentChild(fn, in.Block(), base); ok {
				return true, why
			}
		}
	}
	// (9) i := slices.Index/IndexFunc(s, ...), and the access is reached only when i >= 0: then 0 <= i < len(s),
	// which covers s[i], s[:i], s[i:], s[i+1:]
	if ok, why := a.foundIndex(in, base, idx, isSlice); ok {
		return true, why
	}
	// (10) s[k:] after strings.HasPrefix(s, "<at least k bytes>") held
	if isSlice {
		if sl := in.(*ssa.Slice); sl.High == nil && sl.Max == nil && sl.Low != nil {
			if k, ok := constInt(sl.Low); ok && k >= 0 {
				if a.prefixGuard(in.Block(), base, k) {
					return true, "the string was tested to start with a constant at least that long"
				}
			}
		}
	}
	// (8) s[strings.(Last)Index*(s, x)+1:]: the index functions answer -1..len(s)-1, so the low bound is 0..len(s)
	if isSlice {
		if sl := in.(*ssa.Slice); sl.High == nil && sl.Max == nil && sl.Low != nil {
			if bo, ok := sl.Low.(*ssa.BinOp); ok && bo.Op == token.ADD {
				if k, ok := constInt(bo.Y); ok && k == 1 {
					if c, ok := bo.X.(*ssa.Call); ok {
						if sc := c.Common().StaticCallee(); sc != nil {
							switch sc.String() {
							case "strings.LastIndexByte", "strings.IndexByte", "strings.LastIndex", "strings.Index", "strings.IndexRune", "strings.IndexAny", "strings.LastIndexAny":
								if c.Common().Args[0] == base {
									return true, sc.String() + " of the same string answers -1..len-1, so +1 is a valid lower bound"
								}
							}
						}
					}
				}
			}
		}
	}
	// (7) submatch slice of a regexp compiled from a constant: non-nil result has 1+NumSubexp entries
	if need >= 1 {
		if ok, why := a.submatchIndex(in.Block(), base, need); ok {
			return true, why
		}
	}
	return false, "no dominating length guard, loop bound, parallel-slice or library fact covers it"
}

// submatchIndex: base is the result of FindStringSubmatch/FindSubmatch on a package-level regexp that is
// initialised once with regexp.MustCompile(<constant>); the access is only reached when the result is
// non-nil (a match), and a match always carries 1+NumSubexp entries.
func (a *panicAudit) submatchIndex(at *ssa.BasicBlock, base ssa.Value, need int64) (bool, string) {
	c, ok := base.(*ssa.Call)
	if !ok {
		return false, ""
	}
	sc := c.Common().StaticCallee()
	if sc == nil {
		return false, ""
	}
	switch sc.String() {
	case "(*regexp.Regexp).FindStringSubmatch", "(*regexp.Regexp).FindSubmatch":
	default:
		return false, ""
	}
	pat, ok := a.p.regexpPattern(c.Common().Args[0])
	if !ok {
		return false, ""
	}
	re, err := syntax.Parse(pat, syntax.Perl)
	if err != nil {
		return false, ""
	}
	if int64(re.MaxCap())+1 < need {
		return false, ""
	}
	// reached only when base != nil
	guarded := false
	for d := at; d != nil && !guarded; d = d.Idom() {
		id := d.Idom()
		if id == nil {
			break
		}
		iff, isIf := id.Instrs[len(id.Instrs)-1].(*ssa.If)
		if !isIf || len(d.Preds) != 1 {
			continue
		}
		bo, isB := iff.Cond.(*ssa.BinOp)
		if !isB || bo.X != base {
			continue
		}
		if k, isC := bo.Y.(*ssa.Const); isC && k.IsNil() {
			onTrue := id.Succs[0] == d
			if bo.Op == token.NEQ && onTrue || bo.Op == token.EQL && !onTrue {
				guarded = true
			}
		}
	}
	if !guarded {
		return false, ""
	}
	return true, fmt.Sprintf("a non-nil submatch result of the constant pattern %q has %d entries", pat, re.MaxCap()+1)
}

// regexpPattern: v is a load of a package-level *regexp.Regexp that is assigned exactly once, in package
// initialisation, from regexp.MustCompile(<constant>).
func (p *Prog) regexpPattern(v ssa.Value) (string, bool) {
	u, ok := v.(*ssa.UnOp)
	if !ok || u.Op != token.MUL {
		return "", false
	}
	g, ok := u.X.(*ssa.Global)
	if !ok {
		return "", false
	}
	pat, n := "", 0
	for _, fn := range p.Funcs {
		for _, b := range fn.Blocks {
			for _, in := range b.Instrs {
				st, ok := in.(*ssa.Store)
				if !ok || st.Addr != ssa.Value(g) {
					continue
				}
				n++
				call, ok := st.Val.(*ssa.Call)
				if !ok || !isInitFunc(fn) {
					return "", false
				}
				sc := call.Common().StaticCallee()
				if sc == nil || sc.String() != "regexp.MustCompile" {
					return "", false
				}
				k, ok := call.Common().Args[0].(*ssa.Const)
				if !ok || k.Value == nil || k.Value.Kind() != constant.String {
					return "", false
				}
				pat = constant.StringVal(k.Value)
			}
		}
	}
	if n != 1 {
		return "", false
	}
	return pat, true
}

// lenGuard: a dominating If compares len(base) such that, on the side that can reach the access,
// len(base) >= need.
func (a *panicAudit) lenGuard(fn *ssa.Function, at *ssa.BasicBlock, base ssa.Value, need int64) (bool, string) {
	bp := accessPath(base)
	return a.sizeGuard(fn, at, func(v ssa.Value) bool {
		c, ok := v.(*ssa.Call)
		if !ok {
			return false
		}
		bi, ok := c.Common().Value.(*ssa.Builtin)
		return ok && bi.Name() == "len" && accessPath(c.Common().Args[0]) == bp && bp != ""
	}, need)
}

// sizeGuard: a dominating If compares a value accepted by lenOf (the size of the thing accessed) with a constant
// such that, on the side that can reach the access, size >= need.
func (a *panicAudit) sizeGuard(fn *ssa.Function, at *ssa.BasicBlock, lenOf func(ssa.Value) bool, need int64) (bool, string) {
	for _, b := range fn.Blocks {
		iff, ok := b.Instrs[len(b.Instrs)-1].(*ssa.If)
		if !ok || !b.Dominates(at) {
			continue
		}
		bo, ok := iff.Cond.(*ssa.BinOp)
		if !ok {
			continue
		}
		if !lenOf(bo.X) {
			continue
		}
		k, ok := constInt(bo.Y)
		if !ok {
			continue
		}
		// on which side is len >= need guaranteed?
		var okTrue, okFalse bool
		switch bo.Op {
		case token.EQL:
			okTrue = k >= need
		case token.NEQ:
			okFalse = k >= need
		case token.LSS:
			okFalse = k >= need
		case token.LEQ:
			okFalse = k+1 >= need
		case token.GTR:
			okTrue = k+1 >= need
		case token.GEQ:
			okTrue = k >= need
		}
		tS, fS := b.Succs[0], b.Succs[1]
		if okTrue && !a.p.reachesLiveFrom(b, fS, at) {
			return true, fmt.Sprintf("guarded by len %s %d (the other branch cannot reach the access)", bo.Op, k)
		}
		if okFalse && !a.p.reachesLiveFrom(b, tS, at) {
			return true, fmt.Sprintf("guarded by !(len %s %d): the failing branch ends in a no-return call or return", bo.Op, k)
		}
	}
	return false, ""
}

// loopBound: idx is i or i+c (c>=0) where the enclosing loop continues only while i+k < len(base), k >= c,
// and i starts at a non-negative constant and only grows.
func (a *panicAudit) loopBound(fn *ssa.Function, at *ssa.BasicBlock, base, idx ssa.Value) (bool, string) {
	bp := accessPath(base)
	if bp == "" {
		return false, ""
	}
	split := func(v ssa.Value) (ssa.Value, int64) {
		if bo, ok := v.(*ssa.BinOp); ok && bo.Op == token.ADD {
			if c, ok := constInt(bo.Y); ok {
				return bo.X, c
			}
		}
		if bo, ok := v.(*ssa.BinOp); ok && bo.Op == token.SUB {
			if c, ok := constInt(bo.Y); ok {
				return bo.X, -c
			}
		}
		return v, 0
	}
	iv, c := split(idx)
	phi, ok := iv.(*ssa.Phi)
	if !ok {
		return false, ""
	}
	// induction: edges are a non-negative constant and phi + positive constant; a negative offset (x[j-1] in a
	// loop that starts at j = 1) is covered when the start value makes up for it
	for _, e := range phi.Edges {
		if k, ok := constInt(e); ok {
			if k < 0 || k+c < 0 {
				return false, ""
			}
			continue
		}
		x, inc := split(e)
		if x != ssa.Value(phi) || inc <= 0 {
			return false, ""
		}
	}
	// rotated loop ("for i := range len(x)"): the body is entered only over edges whose value e was just tested
	// e < len(x), by the predecessor that carries it
	if c <= 0 && phi.Block().Dominates(at) {
		all := len(phi.Edges) > 0
		for i, e := range phi.Edges {
			pred := phi.Block().Preds[i]
			iff, ok := pred.Instrs[len(pred.Instrs)-1].(*ssa.If)
			if !ok || pred.Succs[0] != phi.Block() {
				all = false
				break
			}
			bo, ok := iff.Cond.(*ssa.BinOp)
			if !ok || bo.Op != token.LSS {
				all = false
				break
			}
			same := bo.X == e
			if k1, ok1 := constInt(bo.X); ok1 {
				if k2, ok2 := constInt(e); ok2 && k1 == k2 {
					same = true
				}
			}
			lc, isCall := bo.Y.(*ssa.Call)
			if !same || !isCall {
				all = false
				break
			}
			bi, isBi := lc.Common().Value.(*ssa.Builtin)
			if !isBi || bi.Name() != "len" || accessPath(lc.Common().Args[0]) != bp {
				all = false
				break
			}
		}
		if all {
			if !a.noFieldWrites(fn, base) {
				return false, "the indexed field is written in this function"
			}
			return true, fmt.Sprintf("the loop body is entered only with %s < len (tested on every edge into it); index is %s%+d, never negative", phi.Comment, phi.Comment, c)
		}
	}
	for _, b := range fn.Blocks {
		iff, ok := b.Instrs[len(b.Instrs)-1].(*ssa.If)
		if !ok || !b.Dominates(at) {
			continue
		}
		bo, ok := iff.Cond.(*ssa.BinOp)
		if !ok || (bo.Op != token.LSS && bo.Op != token.GTR) {
			continue
		}
		cmpX, cmpY := bo.X, bo.Y
		if bo.Op == token.GTR {
			cmpX, cmpY = bo.Y, bo.X // len(x) > i+k is i+k < len(x)
		}
		lv, k := split(cmpX)
		if lv != ssa.Value(phi) || k < c {
			continue
		}
		lc, ok := cmpY.(*ssa.Call)
		if !ok {
			continue
		}
		bi, ok := lc.Common().Value.(*ssa.Builtin)
		if !ok || bi.Name() != "len" || accessPath(lc.Common().Args[0]) != bp {
			continue
		}
		if a.p.reachesLive(b.Succs[1], at) && !b.Succs[0].Dominates(at) {
			continue
		}
		if !a.noFieldWrites(fn, base) {
			return false, "the indexed field is written in this function"
		}
		return true, fmt.Sprintf("loop continues only while %s+%d < len; index is %s+%d with %s >= 0", phi.Comment, k, phi.Comment, c, phi.Comment)
	}
	return false, ""
}

// noFieldWrites: the field that base is loaded from is never stored to in repo code.
func (a *panicAudit) noFieldWrites(fn *ssa.Function, base ssa.Value) bool {
	u, ok := base.(*ssa.UnOp)
	if !ok {
		return true
	}
	fa, ok := u.X.(*ssa.FieldAddr)
	if !ok {
		return true
	}
	name := fieldName(fa)
	for _, f := range a.p.Funcs {
		for _, b := range f.Blocks {
			for _, in := range b.Instrs {
				if st, ok := in.(*ssa.Store); ok {
					if fa2, ok := st.Addr.(*ssa.FieldAddr); ok && fieldName(fa2) == name {
						return false
					}
				}
			}
		}
	}
	return true
}

// yamlDocumentChild: Content[0] of a *yaml.Node under the condition Kind == DocumentNode.
func (a *panicAudit) yamlDocumentChild(fn *ssa.Function, at *ssa.BasicBlock, base ssa.Value) (bool, string) {
	bp := accessPath(base)
	if !strings.HasSuffix(bp, ".gopkg.in/yaml.v3.Node.Content") {
		return false, ""
	}
	nodePath := strings.TrimSuffix(bp, ".gopkg.in/yaml.v3.Node.Content")
	for _, b := range fn.Blocks {
		iff, ok := b.Instrs[len(b.Instrs)-1].(*ssa.If)
		if !ok || !b.Dominates(at) {
			continue
		}
		bo, ok := iff.Cond.(*ssa.BinOp)
		if !ok || bo.Op != token.EQL {
			continue
		}
		if accessPath(bo.X) != nodePath+".gopkg.in/yaml.v3.Node.Kind" {
			continue
		}
		if k, ok := constInt(bo.Y); ok && k == 1 && b.Succs[0].Dominates(at) && len(b.Succs[0].Preds) == 1 {
			return true, "library fact (yaml.v3 v3.0.1): a DocumentNode produced by the parser has exactly one child"
		}
	}
	return false, ""
}

// parallelIndex: base[idx] where idx is the induction variable of a range loop over another
// slice that is in lockstep (equal length) with base.
func (a *panicAudit) parallelIndex(fn *ssa.Function, at *ssa.BasicBlock, base, idx ssa.Value) (bool, string) {
	// find the loop condition idx < len(other)
	for _, b := range fn.Blocks {
		iff, ok := b.Instrs[len(b.Instrs)-1].(*ssa.If)
		if !ok || !b.Dominates(at) {
			continue
		}
		bo, ok := iff.Cond.(*ssa.BinOp)
		if !ok || bo.Op != token.LSS || bo.X != idx {
			continue
		}
		lc, ok := bo.Y.(*ssa.Call)
		if !ok {
			continue
		}
		bi, ok := lc.Common().Value.(*ssa.Builtin)
		if !ok || bi.Name() != "len" {
			continue
		}
		if !b.Succs[0].Dominates(at) {
			continue
		}
		// idx must be non-negative: phi(-1) + 1 of a range loop, or phi from 0
		if !nonNegInduction(idx) {
			continue
		}
		other := lc.Common().Args[0]
		if ok, why := lockstep(a.p, base, other, map[[2]ssa.Value]bool{}, 0); ok {
			return true, "index ranges over a slice of provably equal length: " + why
		}
	}
	return false, ""
}

func nonNegInduction(v ssa.Value) bool {
	return nonNegValue(v, map[ssa.Value]bool{}, 0)
}

// nonNegValue: an integer that is never negative: a constant >= 0, a length, a range index (rangeindex phi
// starting at -1 is used only after its increment), a counter that starts at such a value and is only
// incremented, a sum of such values. Cycles through phis are taken optimistically (induction).
func nonNegValue(v ssa.Value, seen map[ssa.Value]bool, depth int) bool {
	if depth > 8 {
		return false
	}
	if seen[v] {
		return true
	}
	switch x := v.(type) {
	case *ssa.Const:
		k, ok := constInt(x)
		return ok && k >= 0
	case *ssa.Call:
		if bi, ok := x.Common().Value.(*ssa.Builtin); ok && (bi.Name() == "len" || bi.Name() == "cap") {
			return true
		}
		return false
	case *ssa.BinOp:
		if x.Op != token.ADD {
			return false
		}
		// rangeindex: phi(-1, phi+1) + 1
		if c, ok := constInt(x.Y); ok && c == 1 {
			if phi, ok := x.X.(*ssa.Phi); ok {
				all := true
				for _, e := range phi.Edges {
					if k, ok := constInt(e); ok && k >= -1 {
						continue
					}
					if e == v {
						continue
					}
					all = false
				}
				if all {
					return true
				}
			}
		}
		seen[v] = true
		return nonNegValue(x.X, seen, depth+1) && nonNegValue(x.Y, seen, depth+1)
	case *ssa.Phi:
		seen[v] = true
		for _, e := range x.Edges {
			if !nonNegValue(e, seen, depth+1) {
				return false
			}
		}
		return true
	case *ssa.Convert:
		return nonNegValue(x.X, seen, depth+1)
	}
	return false
}

// lockstep: do slices x and y always have the same length?
func lockstep(p *Prog, x, y ssa.Value, seen map[[2]ssa.Value]bool, depth int) (bool, string) {
	if x == y {
		return true, "same value"
	}
	k := [2]ssa.Value{x, y}
	if seen[k] {
		return true, "loop-carried pair"
	}
	if depth > 12 {
		return false, ""
	}
	seen[k] = true
	// nil / nil
	if isNilConst(x, map[ssa.Value]bool{}) && isNilConst(y, map[ssa.Value]bool{}) {
		return true, "both nil"
	}
	switch a := x.(type) {
	case *ssa.Parameter:
		// two parameters of one private function: in lockstep if the arguments are, at every call
		b, ok := y.(*ssa.Parameter)
		if !ok || a.Parent() != b.Parent() {
			return false, ""
		}
		fn := a.Parent()
		if obj := fn.Object(); obj != nil && obj.Exported() {
			return false, "" // callable from outside the repository
		}
		ia, ib := -1, -1
		for i, q := range fn.Params {
			if q == a {
				ia = i
			}
			if q == b {
				ib = i
			}
		}
		n := 0
		for _, e := range p.CG().In[fn] {
			if e.Kind != "static" || !p.InRepo(e.Caller) {
				return false, ""
			}
			args := e.Site.Common().Args
			if ia >= len(args) || ib >= len(args) {
				return false, ""
			}
			if ok, _ := lockstep(p, args[ia], args[ib], seen, depth+1); !ok {
				return false, ""
			}
			n++
		}
		if n == 0 {
			return false, ""
		}
		return true, fmt.Sprintf("parameters %s and %s receive slices of equal length at all %d call sites", a.Name(), b.Name(), n)
	case *ssa.Extract:
		b, ok := y.(*ssa.Extract)
		if !ok || a.Tuple != b.Tuple {
			return false, ""
		}
		c, ok := a.Tuple.(*ssa.Call)
		if !ok {
			return false, ""
		}
		callee := c.Common().StaticCallee()
		if callee == nil || !p.InRepo(callee) {
			return false, ""
		}
		// every return of the callee yields a lockstep pair at these result positions
		n := 0
		for _, bl := range callee.Blocks {
			ret, ok := bl.Instrs[len(bl.Instrs)-1].(*ssa.Return)
			if !ok {
				continue
			}
			n++
			if ok, _ := lockstep(p, retValue(ret, a.Index), retValue(ret, b.Index), seen, depth+1); !ok {
				return false, ""
			}
		}
		return n > 0, fmt.Sprintf("results #%d and #%d of %s are built in lockstep", a.Index, b.Index, p.FuncName(callee))
	case *ssa.Field:
		// two fields of one struct value (a pair of slices returned together as a struct)
		b, ok := y.(*ssa.Field)
		if !ok || a.X != b.X {
			return false, ""
		}
		if structFieldsLockstep(p, a.X, a.Field, b.Field, seen, depth+1) {
			return true, fmt.Sprintf("fields #%d and #%d of the struct are filled in lockstep wherever it is built", a.Field, b.Field)
		}
		return false, ""
	case *ssa.Phi:
		b, ok := y.(*ssa.Phi)
		if !ok || a.Block() != b.Block() || len(a.Edges) != len(b.Edges) {
			return false, ""
		}
		for i := range a.Edges {
			if ok, _ := lockstep(p, a.Edges[i], b.Edges[i], seen, depth+1); !ok {
				return false, ""
			}
		}
		return true, "corresponding phi edges are in lockstep"
	case *ssa.MakeSlice:
		// make([]T, n, ...) on both sides with the same constant length (typically 0 with a capacity hint)
		b, ok := y.(*ssa.MakeSlice)
		if !ok {
			if sl, isSl := y.(*ssa.Slice); isSl {
				if lb, okb := literalLen(sl); okb {
					if la, oka := constInt(a.Len); oka && la == lb {
						return true, fmt.Sprintf("both of length %d", la)
					}
				}
			}
			return false, ""
		}
		la, ok1 := constInt(a.Len)
		lb, ok2 := constInt(b.Len)
		if ok1 && ok2 && la == lb {
			return true, fmt.Sprintf("both made with length %d", la)
		}
		if a.Len == b.Len {
			return true, "both made with the same length"
		}
		return false, ""
	case *ssa.Slice:
		b, ok := y.(*ssa.Slice)
		if !ok {
			if mk, isMk := y.(*ssa.MakeSlice); isMk {
				if la, oka := literalLen(a); oka {
					if lb, okb := constInt(mk.Len); okb && la == lb {
						return true, fmt.Sprintf("both of length %d", la)
					}
				}
			}
			return false, ""
		}
		la, ok1 := literalLen(a)
		lb, ok2 := literalLen(b)
		if ok1 && ok2 && la == lb {
			return true, fmt.Sprintf("literals of length %d", la)
		}
		return false, ""
	case *ssa.Call:
		b, ok := y.(*ssa.Call)
		if !ok {
			return false, ""
		}
		ba, ok1 := a.Common().Value.(*ssa.Builtin)
		bb, ok2 := b.Common().Value.(*ssa.Builtin)
		if !ok1 || !ok2 || ba.Name() != "append" || bb.Name() != "append" {
			return false, ""
		}
		if a.Block() != b.Block() {
			return false, "" // appended under different conditions
		}
		if ok, _ := lockstep(p, a.Common().Args[0], b.Common().Args[0], seen, depth+1); !ok {
			return false, ""
		}
		if ok, _ := lockstep(p, a.Common().Args[1], b.Common().Args[1], seen, depth+1); !ok {
			return false, ""
		}
		return true, "appended to in the same block with operands of equal length"
	case *ssa.UnOp:
		// loads of cells: compare what is stored
		b, ok := y.(*ssa.UnOp)
		if !ok {
			return false, ""
		}
		if f1, ok1 := a.X.(*ssa.FieldAddr); ok1 {
			if f2, ok2 := b.X.(*ssa.FieldAddr); ok2 && f1.X == f2.X {
				// fields of one struct-typed local that is only ever assigned as a whole
				if al, isAl := f1.X.(*ssa.Alloc); isAl && al.Referrers() != nil {
					n := 0
					for _, ref := range *al.Referrers() {
						switch r := ref.(type) {
						case *ssa.Store:
							if r.Addr != ssa.Value(al) || !structFieldsLockstep(p, r.Val, f1.Field, f2.Field, seen, depth+1) {
								return false, ""
							}
							n++
						case *ssa.FieldAddr:
							if r.Referrers() != nil {
								for _, r2 := range *r.Referrers() {
									if _, isLoad := r2.(*ssa.UnOp); !isLoad {
										if _, isDbg := r2.(*ssa.DebugRef); !isDbg {
											return false, "" // a field is written or its address escapes
										}
									}
								}
							}
						case *ssa.UnOp, *ssa.DebugRef:
						default:
							return false, ""
						}
					}
					if n > 0 {
						return true, fmt.Sprintf("fields #%d and #%d of a struct that is filled in lockstep wherever it is built", f1.Field, f2.Field)
					}
					return false, ""
				}
			}
		}
		al1, al2 := cellRootOf(p, a.X), cellRootOf(p, b.X)
		if al1 == nil || al2 == nil {
			return false, ""
		}
		s1, s2 := cellStores(al1), cellStores(al2)
		if len(s1) != len(s2) || len(s1) == 0 {
			return false, ""
		}
		for i := range s1 {
			if ok, _ := lockstep(p, s1[i], s2[i], seen, depth+1); !ok {
				return false, ""
			}
		}
		return true, "cells stored in lockstep"
	}
	return false, ""
}

// structFieldsLockstep: wherever the struct value sv comes from, its fields fa and fb hold slices of equal length.
func structFieldsLockstep(p *Prog, sv ssa.Value, fa, fb int, seen map[[2]ssa.Value]bool, depth int) bool {
	if depth > 12 {
		return false
	}
	k := [2]ssa.Value{sv, nil}
	if seen[k] {
		return true
	}
	seen[k] = true
	fromCall := func(c *ssa.Call, idx int) bool {
		callee := c.Common().StaticCallee()
		if callee == nil || !p.InRepo(callee) || callee.Blocks == nil {
			return false
		}
		n := 0
		for _, bl := range callee.Blocks {
			ret, ok := bl.Instrs[len(bl.Instrs)-1].(*ssa.Return)
			if !ok {
				continue
			}
			n++
			if !structFieldsLockstep(p, retValue(ret, idx), fa, fb, seen, depth+1) {
				return false
			}
		}
		return n > 0
	}
	switch x := sv.(type) {
	case *ssa.Const:
		return x.Value == nil // the zero struct: both fields nil
	case *ssa.Extract:
		if c, ok := x.Tuple.(*ssa.Call); ok {
			return fromCall(c, x.Index)
		}
	case *ssa.Call:
		return fromCall(x, 0)
	case *ssa.Phi:
		for _, e := range x.Edges {
			if !structFieldsLockstep(p, e, fa, fb, seen, depth+1) {
				return false
			}
		}
		return true
	case *ssa.UnOp:
		al, ok := x.X.(*ssa.Alloc)
		if !ok || x.Op != token.MUL || al.Referrers() == nil {
			return false
		}
		// a result cell (functions with defer or a range-over-func loop keep results in cells that closures may
		// assign): every value stored as a whole must itself be in lockstep
		if whole := cellStores(al); len(whole) > 0 {
			for _, ref := range *al.Referrers() {
				if _, isFA := ref.(*ssa.FieldAddr); isFA {
					return false // mixed whole and field-wise assignment
				}
			}
			for _, w := range whole {
				if !structFieldsLockstep(p, w, fa, fb, seen, depth+1) {
					return false
				}
			}
			return true
		}
		// a composite literal: the fields are stored one by one into a fresh local, which is then read as a whole
		var va, vb ssa.Value
		for _, ref := range *al.Referrers() {
			switch r := ref.(type) {
			case *ssa.FieldAddr:
				if r.Referrers() == nil {
					continue
				}
				for _, r2 := range *r.Referrers() {
					st, isSt := r2.(*ssa.Store)
					if !isSt || st.Addr != ssa.Value(r) {
						return false // the field's address is used for something else
					}
					switch r.Field {
					case fa:
						if va != nil {
							return false
						}
						va = st.Val
					case fb:
						if vb != nil {
							return false
						}
						vb = st.Val
					}
				}
			case *ssa.UnOp, *ssa.DebugRef:
			default:
				return false
			}
		}
		if va == nil && vb == nil {
			return true // both left at their zero value
		}
		if va == nil || vb == nil {
			return false
		}
		ok2, _ := lockstep(p, va, vb, seen, depth+1)
		return ok2
	}
	return false
}

func literalLen(s *ssa.Slice) (int64, bool) {
	al, ok := s.X.(*ssa.Alloc)
	if !ok || s.Low != nil || s.High != nil {
		return 0, false
	}
	arr, ok := al.Type().Underlying().(*types.Pointer).Elem().Underlying().(*types.Array)
	if !ok {
		return 0, false
	}
	return arr.Len(), true
}

var _ = sort.Strings

// descendingLoop: idx is phi(len(base)-1, phi-1) and the access is dominated by the true branch of phi >= 0.
func (a *panicAudit) descendingLoop(fn *ssa.Function, at *ssa.BasicBlock, base, idx ssa.Value) (bool, string) {
	phi, ok := idx.(*ssa.Phi)
	if !ok || len(phi.Edges) != 2 {
		return false, ""
	}
	bp := accessPath(base)
	okInit, okStep := false, false
	for _, e := range phi.Edges {
		bo, ok := e.(*ssa.BinOp)
		if !ok || bo.Op != token.SUB {
			return false, ""
		}
		c, isC := constInt(bo.Y)
		if !isC || c != 1 {
			return false, ""
		}
		if bo.X == ssa.Value(phi) {
			okStep = true
			continue
		}
		if lc, ok := bo.X.(*ssa.Call); ok {
			if bi, ok := lc.Common().Value.(*ssa.Builtin); ok && bi.Name() == "len" && accessPath(lc.Common().Args[0]) == bp && bp != "" {
				okInit = true
			}
		}
	}
	if !okInit || !okStep {
		return false, ""
	}
	for _, b := range fn.Blocks {
		iff, ok := b.Instrs[len(b.Instrs)-1].(*ssa.If)
		if !ok || !b.Dominates(at) {
			continue
		}
		bo, ok := iff.Cond.(*ssa.BinOp)
		if !ok || bo.X != ssa.Value(phi) {
			continue
		}
		c, isC := constInt(bo.Y)
		if !isC {
			continue
		}
		if (bo.Op == token.GEQ && c == 0 || bo.Op == token.GTR && c == -1) && b.Succs[0].Dominates(at) {
			return true, "descending loop from len-1 while i >= 0"
		}
	}
	return false, ""
}

// foundIndex: every index operand of the access is i or i+1 where i is the result of slices.Index /
// slices.IndexFunc (or strings.Index*) over the very same base, and the access is dominated by the
// "found" side of a test i >= 0 / i != -1 / !(i < 0).
func (a *panicAudit) foundIndex(in ssa.Instruction, base, idx ssa.Value, isSlice bool) (bool, string) {
	var ops []ssa.Value
	if isSlice {
		sl := in.(*ssa.Slice)
		if sl.Max != nil {
			return false, ""
		}
		for _, v := range []ssa.Value{sl.Low, sl.High} {
			if v != nil {
				ops = append(ops, v)
			}
		}
	} else {
		ops = []ssa.Value{idx}
	}
	if len(ops) == 0 {
		return false, ""
	}
	var found *ssa.Call
	for _, v := range ops {
		plus1 := false
		if bo, ok := v.(*ssa.BinOp); ok && bo.Op == token.ADD {
			if k, ok := constInt(bo.Y); ok && k == 1 {
				v = bo.X
				plus1 = true
			}
		}
		if plus1 && !isSlice {
			return false, "" // s[i+1] needs i+1 < len
		}
		c, ok := v.(*ssa.Call)
		if !ok {
			return false, ""
		}
		sc := c.Common().StaticCallee()
		if sc == nil {
			return false, ""
		}
		o := sc.Origin()
		if o == nil {
			o = sc
		}
		name := ""
		if o.Pkg != nil {
			name = o.Pkg.Pkg.Path() + "." + o.Name()
		}
		switch name {
		case "slices.Index", "slices.IndexFunc", "strings.Index", "strings.IndexByte", "strings.IndexRune", "strings.LastIndex", "strings.LastIndexByte":
		default:
			return false, ""
		}
		if a0 := c.Common().Args[0]; a0 != base {
			// a position found in a prefix base[:k] is a position in base as well
			if sl, isSl := a0.(*ssa.Slice); !(isSl && sl.X == base && sl.Low == nil && sl.Max == nil) {
				return false, ""
			}
		}
		if found != nil && found != c {
			return false, ""
		}
		found = c
	}
	at := in.Block()
	for d := at; d != nil; d = d.Idom() {
		id := d.Idom()
		if id == nil {
			break
		}
		iff, isIf := id.Instrs[len(id.Instrs)-1].(*ssa.If)
		if !isIf {
			continue
		}
		bo, isB := iff.Cond.(*ssa.BinOp)
		if !isB || bo.X != ssa.Value(found) {
			continue
		}
		k, isK := constInt(bo.Y)
		if !isK {
			continue
		}
		// which successor is the "found" side?
		var side *ssa.BasicBlock
		switch {
		case bo.Op == token.GEQ && k == 0, bo.Op == token.GTR && k == -1, bo.Op == token.NEQ && k == -1:
			side = id.Succs[0]
		case bo.Op == token.LSS && k == 0, bo.Op == token.LEQ && k == -1, bo.Op == token.EQL && k == -1:
			side = id.Succs[1]
		}
		if side == nil {
			continue
		}
		// the access must be reachable only through that side: it dominates, or the other side cannot reach the access
		other := id.Succs[0]
		if other == side {
			other = id.Succs[1]
		}
		if (side.Dominates(at) && len(side.Preds) == 1) || a.p.blockDies(other) || !a.p.reachesLive(other, at) {
			return true, "the index is a position found in the same slice (not -1 on this path), so it is within bounds"
		}
	}
	return false, ""
}

// nonNegative: the integer value cannot be negative where it is used: a non-negative constant, a length
// or capacity, sums/products/min/max of such, a range index, or a value tested (>= 0, > 0, >= k) on the
// way to the use.
func (a *panicAudit) nonNegative(v ssa.Value, at *ssa.BasicBlock, depth int) (bool, string) {
	if depth > 6 {
		return false, "expression too deep"
	}
	switch x := v.(type) {
	case *ssa.Const:
		if x.Value != nil && x.Value.Kind() == constant.Int && constant.Sign(x.Value) >= 0 {
			return true, "non-negative constant"
		}
		return false, "negative constant"
	case *ssa.Call:
		if bi, ok := x.Common().Value.(*ssa.Builtin); ok {
			switch bi.Name() {
			case "len", "cap":
				return true, "a length"
			case "min":
				// min is non-negative only if all operands are
				for _, arg := range x.Common().Args {
					if ok, why := a.nonNegative(arg, at, depth+1); !ok {
						return false, why
					}
				}
				return true, "minimum of non-negative sizes"
			case "max":
				for _, arg := range x.Common().Args {
					if ok, _ := a.nonNegative(arg, at, depth+1); ok {
						return true, "maximum with a non-negative size"
					}
				}
			}
		}
	case *ssa.BinOp:
		switch x.Op {
		case token.ADD, token.MUL:
			okx, wx := a.nonNegative(x.X, at, depth+1)
			oky, wy := a.nonNegative(x.Y, at, depth+1)
			if okx && oky {
				return true, "sum/product of non-negative sizes"
			}
			if !okx {
				return false, wx
			}
			return false, wy
		case token.SUB:
			// len(x)-c needs len(x) >= c: only with a dominating guard on the whole expression
		}
	case *ssa.Convert:
		return a.nonNegative(x.X, at, depth+1)
	case *ssa.Phi:
		if nonNegInduction(x) {
			return true, "loop counter starting at a non-negative value and only incremented"
		}
	}
	// dominating test on v itself
	for d := at; d != nil; d = d.Idom() {
		id := d.Idom()
		if id == nil {
			break
		}
		iff, isIf := id.Instrs[len(id.Instrs)-1].(*ssa.If)
		if !isIf {
			continue
		}
		bo, isB := iff.Cond.(*ssa.BinOp)
		if !isB || bo.X != v {
			continue
		}
		k, isK := constInt(bo.Y)
		if !isK {
			continue
		}
		var side *ssa.BasicBlock
		switch {
		case bo.Op == token.GEQ && k >= 0, bo.Op == token.GTR && k >= -1, bo.Op == token.EQL && k >= 0:
			side = id.Succs[0]
		case bo.Op == token.LSS && k >= 0, bo.Op == token.LEQ && k >= -1:
			side = id.Succs[1]
		}
		if side == nil {
			continue
		}
		other := id.Succs[0]
		if other == side {
			other = id.Succs[1]
		}
		if (side.Dominates(at) && len(side.Preds) == 1) || a.p.blockDies(other) || !a.p.reachesLive(other, at) {
			return true, "tested to be non-negative before use"
		}
	}
	return false, "the size " + describeValue(a.p, v) + " comes from data or a computation that may be negative"
}

// prefixGuard: the block is only reached when strings.HasPrefix(base, c) held for a constant c of at least k bytes
// (or base != "" for k == 1).
func (a *panicAudit) prefixGuard(at *ssa.BasicBlock, base ssa.Value, k int64) bool {
	for d := at; d != nil; d = d.Idom() {
		id := d.Idom()
		if id == nil {
			break
		}
		iff, isIf := id.Instrs[len(id.Instrs)-1].(*ssa.If)
		if !isIf || !(id.Succs[0] == d && len(d.Preds) == 1) {
			continue
		}
		switch c := iff.Cond.(type) {
		case *ssa.Call:
			sc := c.Common().StaticCallee()
			if sc == nil || sc.String() != "strings.HasPrefix" || c.Common().Args[0] != base {
				continue
			}
			if pc, ok := c.Common().Args[1].(*ssa.Const); ok && pc.Value != nil && pc.Value.Kind() == constant.String && int64(len(constant.StringVal(pc.Value))) >= k {
				return true
			}
		case *ssa.BinOp:
			if c.Op == token.NEQ && c.X == base && k <= 1 {
				if pc, ok := c.Y.(*ssa.Const); ok && pc.Value != nil && pc.Value.Kind() == constant.String && constant.StringVal(pc.Value) == "" {
					return true
				}
			}
		}
	}
	return false
}
