package main

// CG — closure-aware call graph over the repo functions.
//
// Static calls resolve through StaticCallee. A function-typed parameter that is called makes
// its owner an applicator: the edge goes from the *caller of the applicator* to the function
// value passed at that call site, not from the applicator to every closure in the program.
// Function values loaded from struct fields are resolved field-based (every function ever
// stored in that field). Anything else is recorded as unresolved, and rules that rely on call
// graph completeness are UNDECIDED when an unresolved dynamic call exists in repo code.

import (
	"fmt"
	"go/types"
	"sort"

	"golang.org/x/tools/go/ssa"
)

type Edge struct {
	Caller *ssa.Function
	Site   ssa.CallInstruction // call instruction in Caller that gives rise to the edge
	Callee *ssa.Function       // repo or external function
	Kind   string              // static | closure | funcarg | field | result | extcallback
}

type InvokeSite struct {
	Caller *ssa.Function
	Site   ssa.CallInstruction
	Method *types.Func
}

type CallGraph struct {
	p          *Prog
	Out        map[*ssa.Function][]*Edge
	In         map[*ssa.Function][]*Edge
	Invokes    map[*ssa.Function][]InvokeSite
	Unresolved []string // descriptions of dynamic calls that could not be resolved
	Applicator map[*ssa.Function]map[int]bool
	fieldFuncs map[fieldKey][]*ssa.Function
	sccID      map[*ssa.Function]int
	sccs       [][]*ssa.Function
}

type fieldKey struct {
	T     string
	Field int
}

// a resolved function value
type fref struct {
	fn    *ssa.Function // concrete function, or owner of the parameter when param >= 0
	param int           // -1 for a concrete function
}

func (p *Prog) CG() *CallGraph {
	if p.cg != nil {
		return p.cg
	}
	g := &CallGraph{p: p, Out: map[*ssa.Function][]*Edge{}, In: map[*ssa.Function][]*Edge{},
		Invokes: map[*ssa.Function][]InvokeSite{}, Applicator: map[*ssa.Function]map[int]bool{},
		fieldFuncs: map[fieldKey][]*ssa.Function{}}
	g.collectFieldFuncs()
	// pass 1: direct edges and applicator discovery
	type pending struct {
		owner *ssa.Function // function that contains the dynamic call
		site  ssa.CallInstruction
		ref   fref
	}
	var pend []pending
	for _, fn := range p.Funcs {
		for _, b := range fn.Blocks {
			for _, in := range b.Instrs {
				call, ok := in.(ssa.CallInstruction)
				if !ok {
					continue
				}
				c := call.Common()
				if c.IsInvoke() {
					g.Invokes[fn] = append(g.Invokes[fn], InvokeSite{fn, call, c.Method})
					continue
				}
				if _, isBuiltin := c.Value.(*ssa.Builtin); isBuiltin {
					continue
				}
				refs, ok := g.resolve(c.Value, map[ssa.Value]bool{})
				if !ok || len(refs) == 0 {
					g.Unresolved = append(g.Unresolved, fmt.Sprintf("%s: dynamic call %s in %s", p.InstrPos(in), c.Value.String(), p.FuncName(fn)))
					continue
				}
				for _, r := range refs {
					if r.param < 0 {
						kind := "static"
						if c.StaticCallee() == nil {
							kind = "dynamic"
						}
						g.addEdge(fn, call, r.fn, kind)
					} else {
						if g.Applicator[r.fn] == nil {
							g.Applicator[r.fn] = map[int]bool{}
						}
						g.Applicator[r.fn][r.param] = true
						pend = append(pend, pending{fn, call, r})
					}
				}
			}
		}
	}
	// pass 2: function values handed to applicators / external functions; iterate because an
	// argument may itself be a parameter of the caller (nested applicators).
	for iter := 0; iter < 8; iter++ {
		changed := false
		for _, fn := range p.Funcs {
			for _, b := range fn.Blocks {
				for _, in := range b.Instrs {
					call, ok := in.(ssa.CallInstruction)
					if !ok {
						continue
					}
					c := call.Common()
					if c.IsInvoke() {
						continue
					}
					if _, isBuiltin := c.Value.(*ssa.Builtin); isBuiltin {
						continue
					}
					callees, _ := g.resolve(c.Value, map[ssa.Value]bool{})
					for ai, arg := range c.Args {
						if _, isFunc := arg.Type().Underlying().(*types.Signature); !isFunc {
							continue
						}
						for _, cal := range callees {
							if cal.param >= 0 {
								continue
							}
							// index into the callee's Params: methods have the receiver first in both.
							called := false
							ext := !p.InRepo(cal.fn)
							if ext {
								called = true // external function receiving a function value: assume it calls it
							} else if g.Applicator[cal.fn][ai] {
								called = true
							} else if g.paramEscapes(cal.fn, ai) {
								g.noteUnresolved(fmt.Sprintf("%s: function value passed to %s escapes (stored/returned)", p.InstrPos(in), p.FuncName(cal.fn)))
							}
							if !called {
								continue
							}
							refs, ok := g.resolve(arg, map[ssa.Value]bool{})
							if !ok {
								g.noteUnresolved(fmt.Sprintf("%s: function argument %s of call to %s unresolved", p.InstrPos(in), arg.String(), p.FuncName(cal.fn)))
								continue
							}
							for _, r := range refs {
								if r.param < 0 {
									kind := "funcarg"
									if ext {
										kind = "extcallback"
									}
									if g.addEdge(fn, call, r.fn, kind) {
										changed = true
									}
								} else {
									if g.Applicator[r.fn] == nil {
										g.Applicator[r.fn] = map[int]bool{}
									}
									if !g.Applicator[r.fn][r.param] {
										g.Applicator[r.fn][r.param] = true
										changed = true
									}
								}
							}
						}
					}
				}
			}
		}
		if !changed {
			break
		}
	}
	_ = pend
	sort.Strings(g.Unresolved)
	g.computeSCC()
	p.cg = g
	return g
}

func (g *CallGraph) noteUnresolved(s string) {
	for _, x := range g.Unresolved {
		if x == s {
			return
		}
	}
	g.Unresolved = append(g.Unresolved, s)
}

func (g *CallGraph) addEdge(caller *ssa.Function, site ssa.CallInstruction, callee *ssa.Function, kind string) bool {
	for _, e := range g.Out[caller] {
		if e.Site == site && e.Callee == callee {
			return false
		}
	}
	e := &Edge{caller, site, callee, kind}
	g.Out[caller] = append(g.Out[caller], e)
	g.In[callee] = append(g.In[callee], e)
	return true
}

// paramEscapes: is parameter i of fn used other than as the callee of a call?
func (g *CallGraph) paramEscapes(fn *ssa.Function, i int) bool {
	if i >= len(fn.Params) {
		return true
	}
	par := fn.Params[i]
	for _, ref := range *par.Referrers() {
		switch r := ref.(type) {
		case ssa.CallInstruction:
			if r.Common().Value == par {
				continue
			}
			return true
		case *ssa.DebugRef:
			continue
		case *ssa.MakeClosure:
			// captured by a nested closure (range-over-func body): fine if that closure only calls it
			continue
		case *ssa.Store:
			// spilled to a local cell which is then captured; treated as non-escaping if the cell is local
			if _, ok := r.Addr.(*ssa.Alloc); ok && r.Val == par {
				continue
			}
			return true
		default:
			return true
		}
	}
	return false
}

func (g *CallGraph) collectFieldFuncs() {
	for _, fn := range g.p.Funcs {
		for _, b := range fn.Blocks {
			for _, in := range b.Instrs {
				st, ok := in.(*ssa.Store)
				if !ok {
					continue
				}
				fa, ok := st.Addr.(*ssa.FieldAddr)
				if !ok {
					continue
				}
				if _, isFunc := st.Val.Type().Underlying().(*types.Signature); !isFunc {
					continue
				}
				k := fieldKeyOf(fa.X.Type(), fa.Field)
				refs, ok := g.resolve(st.Val, map[ssa.Value]bool{})
				if !ok {
					g.noteUnresolved(fmt.Sprintf("%s: function value stored in field %v unresolved", g.p.InstrPos(in), k))
					continue
				}
				for _, r := range refs {
					if r.param >= 0 {
						g.noteUnresolved(fmt.Sprintf("%s: function parameter stored in field %v", g.p.InstrPos(in), k))
						continue
					}
					g.fieldFuncs[k] = appendUniqueFn(g.fieldFuncs[k], r.fn)
				}
			}
		}
	}
}

func appendUniqueFn(l []*ssa.Function, f *ssa.Function) []*ssa.Function {
	for _, x := range l {
		if x == f {
			return l
		}
	}
	return append(l, f)
}

func fieldKeyOf(t types.Type, field int) fieldKey {
	if pt, ok := t.Underlying().(*types.Pointer); ok {
		t = pt.Elem()
	}
	return fieldKey{types.TypeString(t, nil), field}
}

// FieldFuncs returns the functions stored anywhere in field `field` of struct type t.
func (g *CallGraph) FieldFuncs(typeName string, field int) []*ssa.Function {
	return g.fieldFuncs[fieldKey{typeName, field}]
}

// resolve a function-typed SSA value to the functions it may denote.
func (g *CallGraph) resolve(v ssa.Value, seen map[ssa.Value]bool) ([]fref, bool) {
	if seen[v] {
		return nil, true
	}
	seen[v] = true
	switch x := v.(type) {
	case *ssa.Function:
		return []fref{{x, -1}}, true
	case *ssa.MakeClosure:
		return []fref{{x.Fn.(*ssa.Function), -1}}, true
	case *ssa.Parameter:
		fn := x.Parent()
		for i, p := range fn.Params {
			if p == x {
				return []fref{{fn, i}}, true
			}
		}
		return nil, false
	case *ssa.FreeVar:
		return g.resolveFreeVar(x, seen)
	case *ssa.ChangeType:
		return g.resolve(x.X, seen)
	case *ssa.Phi:
		var out []fref
		for _, e := range x.Edges {
			r, ok := g.resolve(e, seen)
			if !ok {
				return nil, false
			}
			out = append(out, r...)
		}
		return out, true
	case *ssa.UnOp:
		// load
		return g.resolveLoad(x.X, seen)
	case *ssa.Call:
		// function-valued result of a call: look through the callee's returns
		callees, ok := g.resolve(x.Call.Value, seen)
		if !ok || x.Call.IsInvoke() {
			return nil, false
		}
		var out []fref
		for _, c := range callees {
			if c.param < 0 && !g.p.InRepo(c.fn) {
				// function value manufactured by an external function: not a repo function
				// (repo callbacks handed to externals are covered by the extcallback edges). The iterators of the
				// standard library are the exception worth naming: calling what slices.Backward(s) returned is a
				// call into that package which calls the yield function back
				if _, isIter := stdIteratorConstructor(x.Common()); isIter {
					out = append(out, fref{c.fn, -1})
				}
				continue
			}
			if c.param >= 0 || c.fn.Blocks == nil {
				return nil, false
			}
			for _, b := range c.fn.Blocks {
				if ret, ok := b.Instrs[len(b.Instrs)-1].(*ssa.Return); ok && len(ret.Results) == 1 {
					r, ok := g.resolve(retValue(ret, 0), seen)
					if !ok {
						return nil, false
					}
					out = append(out, r...)
				}
			}
		}
		return out, true
	case *ssa.Const:
		if x.IsNil() {
			return nil, true
		}
	}
	return nil, false
}

func (g *CallGraph) resolveFreeVar(fv *ssa.FreeVar, seen map[ssa.Value]bool) ([]fref, bool) {
	fn := fv.Parent()
	idx := -1
	for i, f := range fn.FreeVars {
		if f == fv {
			idx = i
		}
	}
	par := fn.Parent()
	if idx < 0 || par == nil {
		return nil, false
	}
	var out []fref
	found := false
	for _, b := range par.Blocks {
		for _, in := range b.Instrs {
			mc, ok := in.(*ssa.MakeClosure)
			if !ok || mc.Fn != fn {
				continue
			}
			found = true
			r, ok := g.resolve(mc.Bindings[idx], seen)
			if !ok {
				return nil, false
			}
			out = append(out, r...)
		}
	}
	return out, found
}

// resolveLoad: function values read from a cell (Alloc / captured cell / struct field).
func (g *CallGraph) resolveLoad(addr ssa.Value, seen map[ssa.Value]bool) ([]fref, bool) {
	switch a := addr.(type) {
	case *ssa.Alloc:
		return g.resolveCellStores(a, seen)
	case *ssa.FreeVar:
		// pointer to a captured cell: find the binding in the parent
		fn := a.Parent()
		idx := -1
		for i, f := range fn.FreeVars {
			if f == a {
				idx = i
			}
		}
		par := fn.Parent()
		if idx < 0 || par == nil {
			return nil, false
		}
		var out []fref
		found := false
		for _, b := range par.Blocks {
			for _, in := range b.Instrs {
				mc, ok := in.(*ssa.MakeClosure)
				if !ok || mc.Fn != fn {
					continue
				}
				found = true
				r, ok := g.resolveLoad(mc.Bindings[idx], seen)
				if !ok {
					return nil, false
				}
				out = append(out, r...)
			}
		}
		return out, found
	case *ssa.FieldAddr:
		k := fieldKeyOf(a.X.Type(), a.Field)
		fs := g.fieldFuncs[k]
		if len(fs) == 0 {
			return nil, false
		}
		var out []fref
		for _, f := range fs {
			out = append(out, fref{f, -1})
		}
		return out, true
	}
	return nil, false
}

func (g *CallGraph) resolveCellStores(a *ssa.Alloc, seen map[ssa.Value]bool) ([]fref, bool) {
	var out []fref
	ok := true
	var visit func(v ssa.Value)
	visited := map[ssa.Value]bool{}
	visit = func(v ssa.Value) {
		if visited[v] {
			return
		}
		visited[v] = true
		refs := v.Referrers()
		if refs == nil {
			return
		}
		for _, ref := range *refs {
			switch r := ref.(type) {
			case *ssa.Store:
				if r.Addr == v {
					rr, rok := g.resolve(r.Val, seen)
					if !rok {
						ok = false
					}
					out = append(out, rr...)
				}
			case *ssa.MakeClosure:
				cfn := r.Fn.(*ssa.Function)
				for i, bnd := range r.Bindings {
					if bnd == v {
						visit(cfn.FreeVars[i])
					}
				}
			}
		}
	}
	visit(a)
	return out, ok
}

// ---- reachability and SCCs ---------------------------------------------------------------

// Reachable returns every function (repo and external) reachable from roots.
func (g *CallGraph) Reachable(roots ...*ssa.Function) map[*ssa.Function]bool {
	seen := map[*ssa.Function]bool{}
	var stack []*ssa.Function
	for _, r := range roots {
		if !seen[r] {
			seen[r] = true
			stack = append(stack, r)
		}
	}
	for len(stack) > 0 {
		f := stack[len(stack)-1]
		stack = stack[:len(stack)-1]
		for _, e := range g.Out[f] {
			if !seen[e.Callee] {
				seen[e.Callee] = true
				stack = append(stack, e.Callee)
			}
		}
	}
	return seen
}

// OnlyThrough: every call chain from an entry point to fn passes through gate (fn is the gate itself, or is
// not reachable once the gate is taken out of the graph). This is what makes "f is called only inside g"
// robust against g being split into private helpers.
func (p *Prog) OnlyThrough(fn, gate *ssa.Function) bool {
	fn, gate = topFunc(fn), topFunc(gate)
	if fn == gate {
		return true
	}
	g := p.CG()
	seen := map[*ssa.Function]bool{}
	var stack []*ssa.Function
	roots := p.Entries()
	for _, f := range p.Funcs {
		// package initialisers and String/Error methods run outside any gate
		if f.Signature.Recv() != nil && (f.Name() == "String" || f.Name() == "Error") {
			roots = append(roots, f)
		}
	}
	for _, r := range roots {
		r = topFunc(r)
		if r != gate && !seen[r] {
			seen[r] = true
			stack = append(stack, r)
		}
	}
	for len(stack) > 0 {
		f := stack[len(stack)-1]
		stack = stack[:len(stack)-1]
		for _, q := range append([]*ssa.Function{f}, allAnon(f)...) {
			for _, e := range g.Out[q] {
				c := topFunc(e.Callee)
				if c == gate || seen[c] {
					continue
				}
				seen[c] = true
				stack = append(stack, c)
			}
		}
	}
	return !seen[fn]
}

// PathTo returns one call path (function names) from any root to target, for reports.
func (g *CallGraph) PathTo(roots []*ssa.Function, target *ssa.Function) []string {
	prev := map[*ssa.Function]*ssa.Function{}
	seen := map[*ssa.Function]bool{}
	var q []*ssa.Function
	for _, r := range roots {
		if !seen[r] {
			seen[r] = true
			q = append(q, r)
		}
	}
	for len(q) > 0 {
		f := q[0]
		q = q[1:]
		if f == target {
			var path []string
			for x := f; x != nil; x = prev[x] {
				path = append([]string{g.name(x)}, path...)
			}
			return path
		}
		for _, e := range g.Out[f] {
			if !seen[e.Callee] {
				seen[e.Callee] = true
				prev[e.Callee] = f
				q = append(q, e.Callee)
			}
		}
	}
	return nil
}

func (g *CallGraph) name(f *ssa.Function) string {
	if g.p.InRepo(f) {
		return g.p.FuncName(f)
	}
	return f.String()
}

func (g *CallGraph) computeSCC() {
	g.sccID = map[*ssa.Function]int{}
	index := map[*ssa.Function]int{}
	low := map[*ssa.Function]int{}
	on := map[*ssa.Function]bool{}
	var stack []*ssa.Function
	n := 0
	var strong func(v *ssa.Function)
	strong = func(v *ssa.Function) {
		index[v] = n
		low[v] = n
		n++
		stack = append(stack, v)
		on[v] = true
		for _, e := range g.Out[v] {
			w := e.Callee
			if w.Blocks == nil || !g.p.InRepo(w) {
				continue
			}
			if _, ok := index[w]; !ok {
				strong(w)
				if low[w] < low[v] {
					low[v] = low[w]
				}
			} else if on[w] && index[w] < low[v] {
				low[v] = index[w]
			}
		}
		if low[v] == index[v] {
			var comp []*ssa.Function
			for {
				w := stack[len(stack)-1]
				stack = stack[:len(stack)-1]
				on[w] = false
				comp = append(comp, w)
				if w == v {
					break
				}
			}
			id := len(g.sccs)
			for _, w := range comp {
				g.sccID[w] = id
			}
			g.sccs = append(g.sccs, comp)
		}
	}
	for _, fn := range g.p.Funcs {
		if _, ok := index[fn]; !ok {
			strong(fn)
		}
	}
}

// SameSCC reports whether a and b are on a common cycle (or a==b with a self edge).
func (g *CallGraph) SameSCC(a, b *ssa.Function) bool {
	ia, ok1 := g.sccID[a]
	ib, ok2 := g.sccID[b]
	if !ok1 || !ok2 || ia != ib {
		return false
	}
	if a != b {
		return true
	}
	if len(g.sccs[ia]) > 1 {
		return true
	}
	for _, e := range g.Out[a] {
		if e.Callee == a {
			return true
		}
	}
	return false
}

// RecursiveSCCs returns the SCCs that contain a cycle, each sorted by name.
func (g *CallGraph) RecursiveSCCs() [][]*ssa.Function {
	var out [][]*ssa.Function
	for _, comp := range g.sccs {
		if len(comp) > 1 || g.SameSCC(comp[0], comp[0]) {
			c := append([]*ssa.Function(nil), comp...)
			sort.Slice(c, func(i, j int) bool { return g.p.FuncName(c[i]) < g.p.FuncName(c[j]) })
			out = append(out, c)
		}
	}
	sort.Slice(out, func(i, j int) bool { return g.p.FuncName(out[i][0]) < g.p.FuncName(out[j][0]) })
	return out
}

// paramAlwaysGlobal: the parameter of a private function that receives, at every call, the value of one and the
// same package-level variable (directly, or as the caller's parameter that itself always receives it): inside the
// function it *is* that variable. Returns nil when that is not established.
func (p *Prog) paramAlwaysGlobal(par *ssa.Parameter, depth int) *ssa.Global {
	fn := par.Parent()
	if fn == nil || fn.Parent() != nil || depth > 3 {
		return nil
	}
	if obj := fn.Object(); obj != nil && obj.Exported() {
		return nil
	}
	idx := -1
	for i, q := range fn.Params {
		if q == par {
			idx = i
		}
	}
	edges := p.CG().In[fn]
	if idx < 0 || len(edges) == 0 {
		return nil
	}
	var g *ssa.Global
	for _, e := range edges {
		if e.Kind != "static" || !p.InRepo(e.Caller) {
			return nil
		}
		args := e.Site.Common().Args
		if idx >= len(args) {
			return nil
		}
		var cur *ssa.Global
		switch a := args[idx].(type) {
		case *ssa.UnOp:
			cur, _ = a.X.(*ssa.Global)
		case *ssa.Parameter:
			cur = p.paramAlwaysGlobal(a, depth+1)
		}
		if cur == nil || (g != nil && cur != g) {
			return nil
		}
		g = cur
	}
	return g
}
