package main

// CLI control-flow discipline (C08.exit, C08.dropped), wrapper rules (C20), and the CLI clauses of
// C03, C05 and C18, decided on path summaries of the main functions with library calls kept opaque.

import (
	"fmt"
	"go/types"
	"strings"

	"golang.org/x/tools/go/ssa"
)

var mainOpts = PSOpts{NoInlinePkgs: []string{"bkl"}, NoInline: map[string]bool{"wrapper.WrapOrDie": true}}

var mainFuncs = []string{"cmd/bkl.main", "cmd/bkld.main", "cmd/bkli.main", "cmd/bklr.main", "cmd/bklb.main", "wrapper.WrapOrDie"}

func isStdout(t *T) bool { return t != nil && t.Op == "global" && t.Name == "Stdout" }
func isStderr(t *T) bool { return t != nil && t.Op == "global" && t.Name == "Stderr" }

// writesStdout: does the effect (possibly) write to standard output?
func writesStdout(e Effect) bool {
	switch e.Kind {
	case "extcall":
		switch e.Callee {
		case "fmt.Printf", "fmt.Println", "fmt.Print":
			return true
		case "fmt.Fprintf", "fmt.Fprintln", "fmt.Fprint", "(*os.File).Write", "(*os.File).WriteString":
			return len(e.Args) > 0 && mayBeStdout(e.Args[0])
		}
	case "call":
		for _, a := range e.Args {
			if isStdout(a) {
				return true
			}
		}
	case "invoke":
		return len(e.Args) > 0 && mayBeStdout(e.Args[0])
	}
	return false
}

func mayBeStdout(t *T) bool {
	if isStdout(t) {
		return true
	}
	return t.Op == "carried" && strings.Contains(t.Name, "fh")
}

// ruleCLIExit implements C08.exit.
func ruleCLIExit(p *Prog, r *Result) {
	for _, name := range mainFuncs {
		if !p.HasFunc(name) {
			r.Undecided("C08.exit", name, "", "entry point not found")
			continue
		}
		pr := newPSRule(p, r, "C08.exit", name, mainOpts)
		// (a) failure paths: a failed step leads to exit != 0 with a diagnostic on stderr and nothing on stdout
		failing := selectPaths(pr.paths, func(pa *Path) bool {
			for _, g := range pa.Guards {
				if g.Kind == "err" && !g.Neg {
					return true
				}
			}
			return false
		})
		if name == "cmd/bklb.main" {
			// no fallible step of its own
		} else {
			pr.allIfAny("a failed step ends the process with a non-zero status and a diagnostic, before anything is written to stdout", failing, "stderr message, os.Exit(non-zero), no stdout write on the path", func(pa *Path) (bool, string) {
				if pa.End == "iter" {
					// the only tolerated continuation: wrapper skipping a non-bkl argument
					if name == "wrapper.WrapOrDie" && len(pa.Guards) > 0 {
						for _, g := range pa.Guards {
							if g.Kind == "err" && !g.Neg && !mCall("bkl.FileMatch")(g.A) {
								return false, "an error other than 'not a bkl file' is skipped"
							}
						}
						return true, ""
					}
					return false, "an error is ignored and the loop continues"
				}
				if pa.End != "exit" {
					return false, "a failed step does not end in os.Exit (the process would continue or exit 0): " + pa.End
				}
				if len(pa.Results) != 1 || pa.Results[0].IsConst("0") {
					return false, "exit status 0 after a failure"
				}
				diag := false
				for _, e := range pa.Effects {
					if e.Kind == "extcall" && strings.HasPrefix(e.Callee, "fmt.Fprint") && len(e.Args) > 0 && isStderr(e.Args[0]) {
						diag = true
					}
					if strings.HasPrefix(e.Callee, "(*github.com/jessevdk/go-flags.Parser).Parse") {
						diag = true // go-flags prints its own diagnostic
					}
				}
				if !diag {
					return false, "no diagnostic is written to stderr"
				}
				// stdout: nothing before the failing step except when the failing step is the write itself
				for i, e := range pa.Effects {
					if writesStdout(e) {
						// allowed only if this effect is the last fallible one (its own error is what failed)
						later := false
						for _, e2 := range pa.Effects[i+1:] {
							if e2.Kind == "call" || (e2.Kind == "extcall" && !strings.HasPrefix(e2.Callee, "fmt.Fprint") && e2.Callee != "os.Exit") || e2.Kind == "invoke" || e2.Kind == "dyncall" {
								later = true
							}
						}
						if later {
							return false, "something is written to stdout and a later step fails: partial output with a failure status"
						}
					}
				}
				return true, ""
			})
		}
		// (b) success: no pending error; exit 0 only on version paths
		pr.allIfAny("normal termination happens only when every step succeeded", selectPaths(pr.paths, func(pa *Path) bool { return pa.End == "return" }), "no failed step on a returning path", func(pa *Path) (bool, string) {
			for _, g := range pa.Guards {
				if g.Kind == "err" && !g.Neg {
					return false, "main returns (status 0) although " + g.A.String() + " failed"
				}
			}
			return true, ""
		})
		// (c) stdout is written once, at the end
		pr.all("stdout is written last", pr.paths, "after the first write to stdout no further fallible step follows", func(pa *Path) (bool, string) {
			first := -1
			for i, e := range pa.Effects {
				if writesStdout(e) {
					first = i
					break
				}
			}
			if first < 0 {
				return true, ""
			}
			for _, e := range pa.Effects[first+1:] {
				if e.Kind == "call" || e.Kind == "dyncall" || e.Kind == "rec" {
					return false, "after writing to stdout the program still runs " + e.Callee + ", which can fail"
				}
				if writesStdout(e) && e.Callee != "fmt.Printf" {
					return false, "stdout is written in several pieces"
				}
			}
			return true, ""
		})
		// every os.Exit has a constant status
		pr.all("exit statuses are constants", selectPaths(pr.paths, func(pa *Path) bool { return pa.End == "exit" }), "os.Exit(0|1)", func(pa *Path) (bool, string) {
			if len(pa.Results) == 1 && pa.Results[0].Op == "const" {
				return true, ""
			}
			return false, "exit status is computed"
		})
	}
	// fatal never returns
	for _, fn := range p.Funcs {
		if fn.Name() == "fatal" && fn.Parent() == nil {
			r.Check(p.noReturn(fn, map[*ssa.Function]bool{}), "C08.exit", p.FuncName(fn)+" / never returns", p.Pos(fn.Pos()), "every path ends in os.Exit", "fatal can return: callers continue after a reported error")
		}
	}
	// library side: OutputToWriter writes the complete buffer once
	ow := newPSRule(p, r, "C08.exit", "bkl.(*Parser).OutputToWriter", PSOpts{NoInline: map[string]bool{"bkl.(*Parser).Output": true}})
	ow.all("the writer receives one complete buffer, produced before the write", ow.paths, "Output() succeeded, then exactly one Write of its result", func(pa *Path) (bool, string) {
		n := 0
		for _, e := range pa.Effects {
			if e.Kind == "invoke" && e.Callee == "Write" {
				n++
				if !mResOf(0, mCall("bkl.(*Parser).Output"))(e.Args[1]) {
					return false, "what is written is not the result of Output"
				}
				if guardPol(pa, "err", mCall("bkl.(*Parser).Output"), nil) != -1 {
					return false, "the buffer is written although producing it failed"
				}
			}
		}
		if n > 1 {
			return false, "several writes"
		}
		if guardPol(pa, "err", mCall("bkl.(*Parser).Output"), nil) == 1 && n > 0 {
			return false, "write after failure"
		}
		return true, ""
	})
}

// droppedErrorOK: callees whose error result may be ignored, with the reason.
var droppedErrorOK = map[string]string{
	"runtime/pprof.StartCPUProfile":                    "profiling aid, not part of evaluation",
	"fmt.Fprintf":                                      "diagnostic output",
	"fmt.Printf":                                       "version banner",
	"fmt.Fprintln":                                     "diagnostic output",
	"(*bytes.Buffer).Write":                            "bytes.Buffer.Write never fails",
	"(*bytes.Buffer).WriteString":                      "documented: err is always nil",
	"(*bytes.Buffer).WriteByte":                        "documented: err is always nil",
	"(*bytes.Buffer).WriteRune":                        "documented: err is always nil",
	"(*strings.Builder).Write":                         "documented: always returns a nil error",
	"(*strings.Builder).WriteString":                   "documented: always returns a nil error",
	"(*strings.Builder).WriteByte":                     "documented: always returns a nil error",
	"(*strings.Builder).WriteRune":                     "documented: always returns a nil error",
	"(*os.File).Close":                                 "closing a handle that was only read, or a temp file already written by OutputToFile",
	"(*github.com/jessevdk/go-flags.Parser).WriteHelp": "help text",
	"log.Printf":                                       "debug log",
}

// ruleDroppedErrors implements C08.dropped: no error result of a call is discarded.
func ruleDroppedErrors(p *Prog, r *Result) {
	n, bad := 0, 0
	for _, fn := range p.Funcs {
		for _, b := range fn.Blocks {
			for _, in := range b.Instrs {
				ci, ok := in.(ssa.CallInstruction)
				if !ok {
					continue
				}
				c := ci.Common()
				sig := c.Signature()
				if sig == nil || sig.Results().Len() == 0 {
					continue
				}
				last := sig.Results().At(sig.Results().Len() - 1).Type()
				if !isErrorType(last) {
					continue
				}
				n++
				name, sc := calleeFullName(c)
				if _, isDefer := in.(*ssa.Defer); isDefer {
					if strings.HasSuffix(name, "Close") {
						continue
					}
					bad++
					r.Fail("C08.dropped", fmt.Sprintf("%s / deferred %s", p.FuncName(fn), name), p.InstrPos(in), "the error of a deferred call is discarded")
					continue
				}
				v, _ := in.(ssa.Value)
				used := false
				if v != nil && v.Referrers() != nil {
					if sig.Results().Len() == 1 {
						used = reachesUse(v, map[ssa.Value]bool{})
					} else {
						for _, ref := range *v.Referrers() {
							if ex, ok := ref.(*ssa.Extract); ok && ex.Index == sig.Results().Len()-1 {
								if reachesUse(ex, map[ssa.Value]bool{}) {
									used = true
								}
							}
						}
					}
				}
				if used {
					// looked at — but when? an error produced inside a loop must be looked at inside that loop: if the only
					// test sits after the loop, every iteration but the last has its error overwritten by the next one
					if ev := errorValueOf(v, sig.Results().Len()); ev != nil && p.InRepo(fn) {
						if why := overwrittenInLoop(fn, in.Block(), ev); why != "" {
							bad++
							r.Fail("C08.dropped", fmt.Sprintf("%s / error of %s overwritten by the next iteration", p.FuncName(fn), name), p.InstrPos(in), why)
						}
					}
					continue
				}
				if why, ok := droppedErrorOK[name]; ok {
					r.OK("C08.dropped", fmt.Sprintf("%s / %s", p.FuncName(fn), name), p.InstrPos(in), "accepted idiom: "+why)
					continue
				}
				if c.IsInvoke() && (c.Method.Name() == "Write" || c.Method.Name() == "Close") {
					// hash.Hash.Write never returns an error; Close on read handles
					if recvIsHashOrReader(c) {
						r.OK("C08.dropped", fmt.Sprintf("%s / %s", p.FuncName(fn), name), p.InstrPos(in), "hash.Hash.Write never fails / closing a read handle")
						continue
					}
				}
				// a repo applicator called with a closure that provably returns a nil error
				if sc != nil && p.InRepo(sc) && closureNeverFails(p, c) {
					r.OK("C08.dropped", fmt.Sprintf("%s / %s", p.FuncName(fn), name), p.InstrPos(in), "the only error source is the callback, which returns nil on every path")
					continue
				}
				bad++
				r.Fail("C08.dropped", fmt.Sprintf("%s / error of %s discarded", p.FuncName(fn), name), p.InstrPos(in), "an error result is dropped: a failure is turned into silent success")
			}
		}
	}
	r.Count("fallible_call_sites", n)
	r.Floor("C08.dropped", "calls returning an error", n, 100)
	_ = bad
}

func recvIsHashOrReader(c *ssa.CallCommon) bool {
	t := c.Value.Type().String()
	return strings.Contains(t, "hash.Hash") || strings.Contains(t, "io.ReadCloser")
}

// closureNeverFails: every function-typed argument of the call is a closure all of whose returns
// have a nil constant as error, and the callee's own errors only come from calling it.
func closureNeverFails(p *Prog, c *ssa.CallCommon) bool {
	any := false
	for _, a := range c.Args {
		if _, isSig := a.Type().Underlying().(*types.Signature); !isSig {
			continue
		}
		mc, ok := a.(*ssa.MakeClosure)
		if !ok {
			return false
		}
		fn := mc.Fn.(*ssa.Function)
		for _, b := range fn.Blocks {
			if ret, ok := b.Instrs[len(b.Instrs)-1].(*ssa.Return); ok {
				n := len(ret.Results)
				if n == 0 {
					return false
				}
				e := retValue(ret, n-1)
				if k, ok := e.(*ssa.Const); !ok || !k.IsNil() {
					return false
				}
			}
		}
		any = true
	}
	if !any {
		return false
	}
	// the callee returns a non-nil error only when the callback did
	callee := c.StaticCallee()
	for _, b := range callee.Blocks {
		if ret, ok := b.Instrs[len(b.Instrs)-1].(*ssa.Return); ok {
			e := retValue(ret, len(ret.Results)-1)
			if k, ok := e.(*ssa.Const); ok && k.IsNil() {
				continue
			}
			// must be the error extracted from calling the function parameter
			ex, ok := e.(*ssa.Extract)
			if !ok {
				return false
			}
			call, ok := ex.Tuple.(*ssa.Call)
			if !ok {
				return false
			}
			refs, _ := p.CG().resolve(call.Common().Value, map[ssa.Value]bool{})
			okp := false
			for _, rf := range refs {
				if rf.param >= 0 {
					okp = true
				}
			}
			if !okp {
				return false
			}
		}
	}
	return true
}

// ---- C20 ---------------------------------------------------------------------------------------

func ruleC20(p *Prog, r *Result) {
	pr := newPSRule(p, r, "C20.argv", "wrapper.WrapOrDie", mainOpts)
	isArgs := func(t *T) bool { // clone(os.Args[1:])
		return t.Op == "clone" && t.Args[0].Op == "slice" && t.Args[0].Args[0].Op == "global" && t.Args[0].Args[0].Name == "Args" && t.Args[0].Args[1].IsConst("1")
	}
	arg := mElemOf(isArgs)
	exec := selectPaths(pr.paths, func(pa *Path) bool { return hasCallEffect(pa, "syscall.Exec") })
	pr.all("the wrapped program receives the program name followed by the (rewritten copy of the) arguments, in order, and the caller's environment", exec,
		"syscall.Exec(LookPath(cmd), append([cmd], clone(os.Args[1:])...), os.Environ())", func(pa *Path) (bool, string) {
			for _, e := range pa.Effects {
				if e.Callee != "syscall.Exec" {
					continue
				}
				if !mResOf(0, mCall("os/exec.LookPath", mParam("cmd")))(e.Args[0]) {
					return false, "the program executed is not the one found for the command name"
				}
				av := e.Args[1]
				if av.Op != "append" || len(av.Args) != 2 || av.Args[0].Op != "lit" || len(av.Args[0].Args) != 1 || !mParam("cmd")(av.Args[0].Args[0]) || !isArgs(av.Args[1]) {
					return false, "argv is not [cmd] + arguments in their original order: " + av.String()
				}
				if !mCall("os.Environ")(e.Args[2]) {
					return false, "the environment is not passed through"
				}
				if guardPol(pa, "itermore", mOp("range", isArgs), nil) != -1 {
					return false, "the program is started before all arguments were examined"
				}
				for _, g := range pa.Guards {
					if g.Kind == "err" && !g.Neg {
						return false, "the wrapped program is started although " + g.A.String() + " failed"
					}
				}
			}
			return true, ""
		})
	pr.all("the argument copy is touched only by the per-file replacement", pr.paths, "no call receives the argument slice other than exec", func(pa *Path) (bool, string) {
		for _, e := range pa.Effects {
			if e.Kind != "extcall" && e.Kind != "call" && e.Kind != "dyncall" {
				continue
			}
			if e.Callee == "syscall.Exec" {
				continue
			}
			for _, a := range e.Args {
				if isArgs(a) {
					return false, "the arguments are handed to " + e.Callee + ", which may reorder or rewrite them"
				}
			}
		}
		return true, ""
	})
	iter := selectPaths(pr.paths, func(pa *Path) bool { return guardPol(pa, "itermore", mOp("range", isArgs), nil) == 1 })
	fm := mCall("bkl.FileMatch", arg)
	pr.all("an argument that is not a bkl-resolvable file is passed through untouched", selectPaths(iter, func(pa *Path) bool { return guardPol(pa, "err", fm, nil) == 1 }), "continue, no effect", func(pa *Path) (bool, string) {
		if pa.End != "iter" {
			return false, "a non-file argument aborts the wrapper"
		}
		for _, e := range pa.Effects {
			if len(e.Loops) == 0 {
				continue // before the loop over the arguments
			}
			if e.Kind == "elemset" {
				return false, "a non-file argument is rewritten"
			}
			if e.Kind == "call" && e.Callee != "bkl.FileMatch" {
				return false, "a non-file argument is processed: " + e.Callee
			}
		}
		return true, ""
	})
	pr.all("a bkl file argument is replaced, in place, by a temp file holding its evaluated layers in the named format", selectPaths(iter, func(pa *Path) bool { return guardPol(pa, "err", fm, nil) == -1 && pa.End == "iter" }),
		"MergeFileLayers(realPath); OutputToFile(tmp, format); args[i] = tmp.Name()", func(pa *Path) (bool, string) {
			realPath, format := mResOf(0, fm), mResOf(1, fm)
			fresh := false
			for _, e := range pa.Effects {
				if e.Callee == "bkl.New" && len(e.Loops) > 0 {
					fresh = true
				}
			}
			if !fresh {
				return false, "the parser that evaluates this argument is not created for it (no bkl.New in the iteration): a parser shared between arguments accumulates the layers of earlier arguments into later ones"
			}
			if !hasCallEffect(pa, "bkl.(*Parser).MergeFileLayers", mResOf(0, mCall("bkl.New")), realPath) {
				return false, "the layers merged are not those of the file the argument resolves to"
			}
			tmp := mResOf(0, mCall("os.CreateTemp"))
			tmpName := mCall("(*os.File).Name", tmp)
			if !hasCallEffect(pa, "bkl.(*Parser).OutputToFile", mResOf(0, mCall("bkl.New")), tmpName, format) {
				return false, "the evaluated output is not written to the temp file in the format named by the argument's extension"
			}
			n := 0
			for _, e := range pa.Effects {
				if e.Kind == "elemset" {
					n++
					if !isArgs(e.Args[0]) || e.Args[1].Op != "idx" || !tmpName(e.Args[2]) {
						return false, "the replacement does not put the temp file's name at the argument's own position: " + e.String()
					}
				}
				if e.Callee == "os.CreateTemp" {
					pat := e.Args[1]
					if !mConcat(mAny(), mStr(".*."), mCall("path/filepath.Base", arg))(pat) {
						return false, "the temp file name does not end with the argument's base name (the wrapped program would not see the extension): " + pat.String()
					}
				}
			}
			if n != 1 {
				return false, fmt.Sprintf("%d argument slots are rewritten for one file argument", n)
			}
			for _, name := range []string{"bkl.New", "bkl.(*Parser).MergeFileLayers", "os.CreateTemp", "bkl.(*Parser).OutputToFile"} {
				if guardPol(pa, "err", mCall(name), nil) != -1 {
					return false, "the result of " + name + " is used without checking its error"
				}
			}
			return true, ""
		})
	pr.all("if evaluating a file argument fails the wrapped program is not run", selectPaths(iter, func(pa *Path) bool {
		for _, g := range pa.Guards {
			if g.Kind == "err" && !g.Neg && !fm(g.A) {
				return true
			}
		}
		return false
	}), "fatal: exit 1, no exec", func(pa *Path) (bool, string) {
		if pa.End != "exit" || hasCallEffect(pa, "syscall.Exec") {
			return false, "an evaluation error does not stop the wrapper before exec"
		}
		return true, ""
	})
	// bklb: program name from the symlink name
	pb := newPSRule(p, r, "C20.name", "cmd/bklb.main", mainOpts)
	base := mCall("path/filepath.Base", mOp("index", func(t *T) bool { return t.Op == "global" && t.Name == "Args" }))
	pb.all("bklb runs the program named by its own name minus the trailing b", selectPaths(pb.paths, func(pa *Path) bool { return hasCallEffect(pa, "wrapper.WrapOrDie") }), `WrapOrDie(TrimSuffix(Base(os.Args[0]), "b"))`, func(pa *Path) (bool, string) {
		if guardPol(pa, "suffix", base, q("b")) != 1 {
			return false, "WrapOrDie is reached without the name ending in b"
		}
		for _, e := range pa.Effects {
			if e.Callee == "wrapper.WrapOrDie" {
				a := e.Args[0]
				if a.Op == "call" && a.Name == "strings.TrimSuffix" && base(a.Args[0]) && mStr("b")(a.Args[1]) {
					return true, ""
				}
				return false, "the wrapped program's name is " + a.String()
			}
		}
		return false, ""
	})
	pb.all("run under its own name bklb prints usage and fails", selectPaths(pb.paths, func(pa *Path) bool { return guardPol(pa, "suffix", base, q("b")) == -1 }), "exit 1", func(pa *Path) (bool, string) {
		if pa.End == "exit" && !pa.Results[0].IsConst("0") && !hasCallEffect(pa, "wrapper.WrapOrDie") {
			return true, ""
		}
		return false, "without a trailing b the wrapper still runs something"
	})
	if p.HasFunc("cmd/kubectl-bkl.main") {
		pk := newPSRule(p, r, "C20.name", "cmd/kubectl-bkl.main", mainOpts)
		pk.all("kubectl-bkl wraps kubectl", pk.paths, `WrapOrDie("kubectl")`, func(pa *Path) (bool, string) {
			if hasCallEffect(pa, "wrapper.WrapOrDie", mStr("kubectl")) {
				return true, ""
			}
			return false, "kubectl-bkl does not wrap kubectl"
		})
	}
}

// ---- cmd/bkl main: C03.cli, C05.choice, C18.cli ----------------------------------------------------

func bklMainPaths(p *Prog, r *Result, rule string) *psRule {
	return newPSRule(p, r, rule, "cmd/bkl.main", mainOpts)
}

func optField(name string) TM {
	return func(t *T) bool { return t.Op == "field" && t.Name == name }
}

func ruleBklMainInputs(p *Prog, r *Result) {
	pr := bklMainPaths(p, r, "C03.cli")
	inputs := func(t *T) bool { return t.Op == "field" && t.Name == "InputPaths" }
	path := mElemOf(inputs)
	fm := mCall("bkl.FileMatch", func(t *T) bool { return path(t) || (t.Op == "convert" && path(t.Args[0])) })
	iter := selectPaths(pr.paths, func(pa *Path) bool {
		return guardPol(pa, "itermore", mOp("range", inputs), nil) == 1 && (hasCallEffect(pa, "bkl.(*Parser).MergeFile") || hasCallEffect(pa, "bkl.(*Parser).MergeFileLayers"))
	})
	pr.all("inputs are applied left to right; -P selects MergeFile, otherwise the whole inheritance chain is loaded", iter, "for each input in index order: FileMatch, then MergeFile (SkipParent) or MergeFileLayers on the real path", func(pa *Path) (bool, string) {
		skip := guardPol(pa, "truth", optField("SkipParent"), nil)
		real := mResOf(0, fm)
		mf := hasCallEffect(pa, "bkl.(*Parser).MergeFile", mAny(), real)
		ml := hasCallEffect(pa, "bkl.(*Parser).MergeFileLayers", mAny(), real)
		if guardPol(pa, "err", fm, nil) != -1 {
			return false, "the input is merged without a successful FileMatch of the path given on the command line"
		}
		switch skip {
		case 1:
			if !mf || ml {
				return false, "with -P the parents are still loaded (MergeFileLayers) or nothing is merged"
			}
		case -1:
			if !ml || mf {
				return false, "without -P the inheritance chain is not loaded"
			}
		default:
			return false, "the choice between MergeFile and MergeFileLayers does not depend on -P"
		}
		return true, ""
	})
	pr.some("every input is processed before output", pr.paths, "output only after the loop ended", "output is produced before all inputs were merged", func(pa *Path) bool {
		return (hasCallEffect(pa, "bkl.(*Parser).OutputToWriter") || hasCallEffect(pa, "bkl.(*Parser).OutputToFile")) && guardPol(pa, "itermore", mOp("range", inputs), nil) == -1
	})
	pr.all("no output before the last input", selectPaths(pr.paths, func(pa *Path) bool {
		return hasCallEffect(pa, "bkl.(*Parser).OutputToWriter") || hasCallEffect(pa, "bkl.(*Parser).OutputToFile")
	}), "the input loop has terminated", func(pa *Path) (bool, string) {
		if guardPol(pa, "itermore", mOp("range", inputs), nil) == -1 {
			return true, ""
		}
		return false, "output inside the input loop"
	})
}

func ruleBklMainFormat(p *Prog, r *Result) {
	pr := bklMainPaths(p, r, "C05.choice")
	inputs := func(t *T) bool { return t.Op == "field" && t.Name == "InputPaths" }
	out := selectPaths(pr.paths, func(pa *Path) bool {
		return hasCallEffect(pa, "bkl.(*Parser).OutputToWriter") || hasCallEffect(pa, "bkl.(*Parser).OutputToFile")
	})
	pr.all("the format handed to the library is -f if given, else (without -o) the first input's extension, else empty", out, "format := *OutputFormat | first FileMatch format while format == \"\" and no -o", func(pa *Path) (bool, string) {
		var f *T
		for _, e := range pa.Effects {
			if e.Callee == "bkl.(*Parser).OutputToWriter" || e.Callee == "bkl.(*Parser).OutputToFile" {
				f = e.Args[2]
			}
		}
		if f == nil || f.Op != "carried" {
			return false, "the format argument is not the loop-carried format variable"
		}
		info := pr.carried[f.N]
		given := guardPol(pa, "nil", optField("OutputFormat"), nil)
		if given == 0 {
			given = guardPol(pa, "kind", optField("OutputFormat"), "nil")
		}
		if given == -1 {
			if !(info.Init.Op == "deref" && optField("OutputFormat")(info.Init.Args[0])) {
				return false, "with -f the initial format is not the flag's value: " + info.Init.String()
			}
		} else if given == 1 {
			if !mStr("")(info.Init) {
				return false, "without -f the format does not start empty: " + info.Init.String()
			}
		} else {
			return false, "the -f flag is not consulted"
		}
		// updates: only from FileMatch's format, only while empty and no -o
		for _, it := range pr.paths {
			v, ok := it.Carried[f.N]
			if !ok || (v.Op == "carried" && v.N == f.N) {
				continue
			}
			if !mResOf(1, mCall("bkl.FileMatch"))(v) {
				return false, "the format is set from something other than the input's extension: " + v.String()
			}
			if guardPol(it, "streq", func(t *T) bool { return t.Op == "carried" && t.N == f.N }, q("")) != 1 {
				return false, "a later input overrides the format although one is already chosen (first input must win)"
			}
			op := guardPol(it, "nil", optField("OutputPath"), nil)
			if op == 0 {
				op = guardPol(it, "kind", optField("OutputPath"), "nil")
			}
			if op != 1 {
				return false, "an input's extension is used although -o is given (the output file's extension must decide)"
			}
		}
		return true, ""
	})
	_ = inputs
	// library: OutputToFile falls back to the path's extension, OutputToWriter to json-pretty, Output looks the codec up
	of := newPSRule(p, r, "C05.choice", "bkl.(*Parser).OutputToFile", PSOpts{NoInline: map[string]bool{"bkl.(*Parser).OutputToWriter": true, "bkl.(*Parser).Output": true, "bkl.ext": true}})
	of.all("OutputToFile: an empty format means the output path's extension", selectPaths(of.paths, func(pa *Path) bool {
		return hasCallEffect(pa, "bkl.(*Parser).OutputToWriter") || hasCallEffect(pa, "bkl.(*Parser).Output")
	}), "format == \"\" -> ext(path)", func(pa *Path) (bool, string) {
		empty := guardPol(pa, "streq", mParam("format"), q(""))
		for _, e := range pa.Effects {
			if e.Callee == "bkl.(*Parser).OutputToWriter" || e.Callee == "bkl.(*Parser).Output" {
				f := e.Args[len(e.Args)-1] // the format is the last argument of either encoder entry point
				if empty == 1 && !mCall("bkl.ext", mParam("path"))(f) {
					return false, "with an empty format the extension of the output path is not used: " + f.String()
				}
				if empty == -1 && !mParam("format")(f) {
					return false, "an explicit format is overridden: " + f.String()
				}
				if empty == 0 {
					return false, "the empty-format case is not distinguished"
				}
			}
		}
		return true, ""
	})
	ow := newPSRule(p, r, "C05.choice", "bkl.(*Parser).OutputToWriter", PSOpts{NoInline: map[string]bool{"bkl.(*Parser).Output": true}})
	ow.all("OutputToWriter: an empty format means json-pretty", selectPaths(ow.paths, func(pa *Path) bool { return hasCallEffect(pa, "bkl.(*Parser).Output") }), "format == \"\" -> json-pretty", func(pa *Path) (bool, string) {
		empty := guardPol(pa, "streq", mParam("format"), q(""))
		for _, e := range pa.Effects {
			if e.Callee == "bkl.(*Parser).Output" {
				f := e.Args[1]
				if empty == 1 && !mStr("json-pretty")(f) {
					return false, "default format is " + f.String()
				}
				if empty == -1 && !mParam("format")(f) {
					return false, "an explicit format is overridden"
				}
			}
		}
		return true, ""
	})
	oo := newPSRule(p, r, "C05.choice", "bkl.(*Parser).Output", PSOpts{NoInline: map[string]bool{"bkl.(*Parser).OutputDocuments": true, "bkl.GetFormat": true}})
	oo.all("Output encodes with the codec registered under the format name", selectPaths(oo.paths, func(pa *Path) bool { return pa.End == "return" && len(pa.Effects) >= 3 }), "GetFormat(format).MarshalStream(outs)", func(pa *Path) (bool, string) {
		gf := hasCallEffect(pa, "bkl.GetFormat", mParam("format"))
		ms := false
		for _, e := range pa.Effects {
			if e.Kind == "dyncall" && strings.Contains(e.Callee, "MarshalStream") && strings.Contains(e.Callee, "bkl.GetFormat") {
				ms = true
			}
		}
		if gf && ms {
			return true, ""
		}
		return false, "the encoder is not the MarshalStream of GetFormat(format)"
	})
}

func ruleBklMainRoot(p *Prog, r *Result) {
	pr := bklMainPaths(p, r, "C18.cli")
	merges := selectPaths(pr.paths, func(pa *Path) bool {
		return hasCallEffect(pa, "bkl.(*Parser).MergeFile") || hasCallEffect(pa, "bkl.(*Parser).MergeFileLayers") || hasCallEffect(pa, "bkl.FileMatch")
	})
	pr.all("-r is applied, and checked, before any input is resolved or loaded", merges, "RootPath != nil => SetRoot(*RootPath) succeeded earlier on the path", func(pa *Path) (bool, string) {
		given := guardPol(pa, "nil", optField("RootPath"), nil)
		if given == 0 {
			given = guardPol(pa, "kind", optField("RootPath"), "nil")
		}
		if given == 0 {
			return false, "the -r flag is not consulted before loading"
		}
		si, mi := -1, -1
		for i, e := range pa.Effects {
			if e.Callee == "bkl.(*Parser).SetRoot" && si < 0 {
				si = i
				if !(e.Args[1].Op == "deref" && optField("RootPath")(e.Args[1].Args[0])) {
					return false, "SetRoot is not given the -r value"
				}
			}
			if (e.Callee == "bkl.(*Parser).MergeFile" || e.Callee == "bkl.(*Parser).MergeFileLayers") && mi < 0 {
				mi = i
			}
		}
		if given == -1 { // flag present
			if si < 0 {
				return false, "-r is given but the parser's root is never set"
			}
			if mi >= 0 && mi < si {
				return false, "a layer is loaded before the root is set"
			}
			if guardPol(pa, "err", mCall("bkl.(*Parser).SetRoot"), nil) != -1 {
				return false, "loading continues although SetRoot failed (or its error is not checked)"
			}
		}
		return true, ""
	})
	// the flag itself
	okFlag := false
	if sp := p.SSAPkg["cmd/bkl"]; sp != nil {
		if tn, ok := sp.Pkg.Scope().Lookup("options").(*types.TypeName); ok {
			if st, ok := tn.Type().Underlying().(*types.Struct); ok {
				for i := 0; i < st.NumFields(); i++ {
					if pinnedField(st, i) == "RootPath" && strings.Contains(st.Tag(i), `short:"r"`) {
						okFlag = true
					}
				}
			}
		}
	}
	r.Check(okFlag, "C18.cli", "cmd/bkl.options / -r flag", "", "RootPath is bound to -r / --root-path", "the -r flag is no longer bound to RootPath")
}

// reachesUse: does the value (possibly through comparisons, conversions and phis) reach a branch,
// return, store, call argument or other escaping use? A comparison whose result is unused does not count.
func reachesUse(v ssa.Value, seen map[ssa.Value]bool) bool {
	if seen[v] {
		return false
	}
	seen[v] = true
	refs := v.Referrers()
	if refs == nil {
		return false
	}
	for _, ref := range *refs {
		switch x := ref.(type) {
		case *ssa.DebugRef:
		case *ssa.BinOp:
			if reachesUse(x, seen) {
				return true
			}
		case *ssa.UnOp:
			if reachesUse(x, seen) {
				return true
			}
		case *ssa.Phi:
			if reachesUse(x, seen) {
				return true
			}
		case *ssa.MakeInterface:
			if reachesUse(x, seen) {
				return true
			}
		case *ssa.ChangeInterface:
			if reachesUse(x, seen) {
				return true
			}
		case *ssa.Extract:
			if reachesUse(x, seen) {
				return true
			}
		default:
			return true // If, Return, Store, call argument, MapUpdate, ...
		}
	}
	return false
}

// errorValueOf: the error result of a call value (itself, or its last Extract).
func errorValueOf(v ssa.Value, nres int) ssa.Value {
	if v == nil {
		return nil
	}
	if nres == 1 {
		return v
	}
	if v.Referrers() == nil {
		return nil
	}
	for _, ref := range *v.Referrers() {
		if ex, ok := ref.(*ssa.Extract); ok && ex.Index == nres-1 {
			return ex
		}
	}
	return nil
}

// overwrittenInLoop: the error ev is produced in a block of a loop, is carried to the loop header (a phi there merges
// it with the value of other iterations) and nothing inside the loop body tests, returns or hands on that value:
// the test after the loop only ever sees the last iteration's error.
func overwrittenInLoop(fn *ssa.Function, at *ssa.BasicBlock, ev ssa.Value) string {
	var body map[*ssa.BasicBlock]bool
	var hdr *ssa.BasicBlock
	for _, h := range loopHeaders(fn) {
		if b := loopBody(h); b[at] && (body == nil || len(b) < len(body)) {
			body, hdr = b, h
		}
	}
	if body == nil || ev.Referrers() == nil {
		return ""
	}
	// every direct use of ev
	carried := false
	seen := map[ssa.Value]bool{}
	var usedInside func(v ssa.Value) bool
	usedInside = func(v ssa.Value) bool {
		if seen[v] || v.Referrers() == nil {
			return false
		}
		seen[v] = true
		for _, ref := range *v.Referrers() {
			switch x := ref.(type) {
			case *ssa.DebugRef:
			case *ssa.Phi:
				if x.Block() == hdr {
					carried = true
					continue // what happens to the merged value is the question, not an answer
				}
				if body[x.Block()] && usedInside(x) {
					return true
				}
			default:
				if body[ref.Block()] {
					return true // compared, returned, stored, passed on ... inside the loop
				}
			}
		}
		return false
	}
	if usedInside(ev) {
		return ""
	}
	if !carried {
		return ""
	}
	return "the error is assigned in the loop and first looked at after it: when a later iteration succeeds, the failure of an earlier one is overwritten and the result is computed from what the failed step left behind"
}
