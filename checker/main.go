package main

import (
	"encoding/json"
	"flag"
	"fmt"
	"os"
	"os/exec"
	"runtime/debug"
	"runtime/pprof"
	"sort"
	"strconv"
	"strings"
	"time"

	"golang.org/x/tools/go/ssa"
)

// PropSpec describes one property check: which rule functions decide it.
type PropSpec struct {
	ID          string
	Title       string
	Technique   string // the deciding method, for MANIFEST.technique
	LevelText   string // MANIFEST.level_claimed.text
	LevelNote   string // MANIFEST.level_note
	DesignRef   string
	Explanation string
	NotDecided  []string
	Trusted     []string
	Assumptions []string
	Rules       []func(p *Prog, r *Result)
}

var registry = map[string]PropSpec{}

func register(s PropSpec) { registry[s.ID] = s }

func main() {
	repo := flag.String("repo", "/repo", "repository to analyse")
	prop := flag.String("prop", "", "property id (C01..C20)")
	tier := flag.String("tier", "quick", "quick|thorough")
	verif := flag.String("verif", "/verif", "verif directory (evidence, known findings)")
	dump := flag.String("dump", "", "debug: funcs|cg|scc|unresolved|ssa:<func>|paths:<func>")
	explain := flag.String("explain", "", "print a replay file")
	noEvidence := flag.Bool("no-evidence", false, "do not write evidence (self-test runs)")
	list := flag.Bool("list", false, "print the registered properties as JSON")
	flag.Parse()
	start := time.Now()
	debug.SetGCPercent(800) // the whole-program SSA is a large live heap; the analyses allocate many short-lived terms
	if pf := os.Getenv("BKLCHECK_PROF"); pf != "" {
		if f, err := os.Create(pf); err == nil {
			_ = pprof.StartCPUProfile(f)
			defer pprof.StopCPUProfile()
		}
	}

	if *list {
		type item struct {
			ID, Title, Explanation, Technique, Level, Note, DesignRef string
			NotDecided, Trusted, Assumptions                          []string
		}
		var ids []string
		for id := range registry {
			ids = append(ids, id)
		}
		sort.Strings(ids)
		var out []item
		for _, id := range ids {
			s := registry[id]
			out = append(out, item{ID: s.ID, Title: s.Title, Explanation: s.Explanation, Technique: s.Technique, Level: s.LevelText, Note: s.LevelNote, DesignRef: s.DesignRef, NotDecided: s.NotDecided, Trusted: s.Trusted, Assumptions: s.Assumptions})
		}
		b, _ := json.MarshalIndent(out, "", " ")
		fmt.Println(string(b))
		return
	}
	if *explain != "" {
		b, err := os.ReadFile(*explain)
		if err != nil {
			fmt.Println(err)
			os.Exit(2)
		}
		fmt.Printf("%s\n", b)
		return
	}

	seed := 0
	if s := os.Getenv("VERIF_SEED"); s != "" {
		seed, _ = strconv.Atoi(s)
	}
	if t := os.Getenv("VERIF_TIER"); t == "quick" || t == "thorough" {
		*tier = t
	}

	code := 2
	func() {
		defer func() {
			if e := recover(); e != nil {
				if u, ok := e.(UndecidedError); ok {
					fmt.Printf("UNDECIDED property=%s %s\n", *prop, u.Msg)
				} else {
					fmt.Printf("UNDECIDED property=%s analyser panic: %v\n%s\n", *prop, e, debug.Stack())
				}
				code = 2
			}
		}()
		if *dump != "" {
			p := Load(*repo, LoadConfig{GOOS: "linux", GOARCH: "amd64"})
			doDump(p, *dump)
			code = 0
			return
		}
		spec, ok := registry[*prop]
		if !ok {
			fmt.Printf("unknown property %q\n", *prop)
			code = 2
			return
		}
		cfgs := []LoadConfig{{GOOS: "linux", GOARCH: "amd64"}}
		if *tier == "thorough" {
			cfgs = thoroughConfigs()
			if _, err := exec.LookPath("go1.26.8"); err == nil {
				secondToolchain = "go1.26.8"
			}
		}
		var results []*Result
		var cfgNames []string
		for _, cfg := range cfgs {
			p := Load(*repo, cfg)
			r := NewResult(spec.ID)
			r.cfg = cfg.String()
			r.Count("packages", len(p.Pkgs))
			r.Count("functions", len(p.Funcs))
			r.Count("renamed_anchor_functions", len(p.Renamed))
			for _, rn := range p.Renamed {
				fmt.Printf("NOTE property=%s renamed function: %s\n", *prop, rn)
			}
			for _, rule := range spec.Rules {
				// a rule that loses its anchor (function renamed, shape not recognised) or crashes is UNDECIDED on its
				// own; the other rules of the property still run and report
				func() {
					defer func() {
						if e := recover(); e != nil {
							if u, ok := e.(UndecidedError); ok {
								r.Undecided("analyser", u.Msg, "", "the rule could not be evaluated")
							} else {
								r.Undecided("analyser", fmt.Sprintf("rule panic: %v", e), "", string(debug.Stack()))
							}
						}
					}()
					rule(p, r)
				}()
			}
			results = append(results, r)
			cfgNames = append(cfgNames, cfg.String())
		}
		extra := map[string]any{"build_configurations": cfgNames}
		if *tier == "thorough" {
			for k, v := range thoroughExtras(*repo, *verif, spec) {
				extra[k] = v
			}
		}
		if *noEvidence {
			code = finishNoEvidence(results, *prop, *verif)
			return
		}
		code = Finish(results, *prop, *tier, seed, *verif, start, spec, extra)
	}()
	pprof.StopCPUProfile()
	os.Exit(code)
}

func thoroughConfigs() []LoadConfig {
	var out []LoadConfig
	for _, goos := range []string{"linux", "darwin", "windows"} {
		for _, arch := range []string{"amd64", "386", "arm64"} {
			if goos == "darwin" && arch == "386" {
				continue
			}
			out = append(out, LoadConfig{GOOS: goos, GOARCH: arch})
		}
	}
	out = append(out, LoadConfig{GOOS: "linux", GOARCH: "amd64", Tests: true})
	return out
}

func finishNoEvidence(results []*Result, prop string, verif string) int {
	kf := loadKnown(verif + "/known_findings.json")
	seen := map[string]bool{}
	code := 0
	for _, r := range results {
		for _, o := range r.Obls {
			if o.Status == Discharged && os.Getenv("BKLCHECK_VERBOSE") != "" && !seen[o.Key()+o.Status.String()] {
				seen[o.Key()+o.Status.String()] = true
				fmt.Printf("ok %s [%s] at %s: %s\n", o.Rule, o.Construct, o.Pos, o.How)
				continue
			}
			if o.Status == Discharged || seen[o.Key()+o.Status.String()] {
				continue
			}
			seen[o.Key()+o.Status.String()] = true
			if o.Status == Violated {
				known := false
				for _, k := range kf.Known {
					if k.Property == prop && k.Rule == o.Rule && k.Construct == o.Construct {
						known = true
					}
				}
				if known {
					fmt.Printf("KNOWN-FINDING: property=%s %s / %s\n", prop, o.Rule, o.Construct)
					continue
				}
			}
			fmt.Printf("%s property=%s %s [%s] at %s: %s\n", o.Status, prop, o.Rule, o.Construct, o.Pos, o.Detail)
			if o.Status == Violated {
				code = 1
			} else if code == 0 {
				code = 2
			}
		}
	}
	return code
}

func doDump(p *Prog, what string) {
	g := p.CG()
	switch {
	case what == "anchors":
		b, _ := json.MarshalIndent(p.dumpAnchors(), "", " ")
		fmt.Println(string(b))
	case what == "funcs":
		for _, fn := range p.Funcs {
			fmt.Printf("%-60s %s blocks=%d synthetic=%q\n", p.FuncName(fn), p.Pos(fn.Pos()), len(fn.Blocks), fn.Synthetic)
		}
	case what == "cg":
		for _, fn := range p.Funcs {
			var outs []string
			for _, e := range g.Out[fn] {
				outs = append(outs, fmt.Sprintf("%s(%s)", g.name(e.Callee), e.Kind))
			}
			sort.Strings(outs)
			fmt.Printf("%s ->\n", p.FuncName(fn))
			last := ""
			for _, o := range outs {
				if o != last {
					fmt.Printf("    %s\n", o)
				}
				last = o
			}
		}
	case what == "scc":
		for _, comp := range g.RecursiveSCCs() {
			var names []string
			for _, f := range comp {
				names = append(names, p.FuncName(f))
			}
			fmt.Printf("SCC(%d): %s\n", len(comp), strings.Join(names, ", "))
		}
	case what == "unresolved":
		for _, u := range g.Unresolved {
			fmt.Println(u)
		}
		fmt.Printf("applicators:\n")
		for fn, ps := range g.Applicator {
			fmt.Printf("  %s %v\n", p.FuncName(fn), ps)
		}
	case strings.HasPrefix(what, "ssa:"):
		fn := p.Func(strings.TrimPrefix(what, "ssa:"))
		fn.WriteTo(os.Stdout)
	case what == "writes":
		o := p.Own()
		for _, fn := range p.Funcs {
			for _, w := range o.Writes[fn] {
				roots, _ := o.rootsOf(w.Target)
				var rs []string
				for par := range roots {
					rs = append(rs, par.Name())
				}
				sort.Strings(rs)
				fmt.Printf("%s %s %s roots=%v\n", p.FuncName(w.Fn), w.Kind, p.InstrPos(w.Instr), rs)
			}
		}
	case what == "mut":
		for _, l := range p.Own().MutSummary() {
			fmt.Println(l)
		}
	case what == "rec":
		for _, comp := range g.RecursiveSCCs() {
			in := map[*ssa.Function]bool{}
			for _, f := range comp {
				in[f] = true
			}
			for _, f := range comp {
				for _, e := range g.Out[f] {
					if !in[e.Callee] || e.Kind == "funcarg" || e.Kind == "extcallback" {
						continue
					}
					fmt.Printf("%s -> %s @ %s\n", p.FuncName(f), p.FuncName(e.Callee), p.InstrPos(e.Site))
					for j, a := range e.Site.Common().Args {
						fmt.Printf("    arg%d %v\n", j, p.Derive(a, func(x *ssa.Function) bool { return in[x] }))
					}
				}
			}
		}
	case strings.HasPrefix(what, "paths:"):
		dumpPaths(p, strings.TrimPrefix(what, "paths:"))
	}
}

var _ = ssa.Function{}

func init() {
	dumpNoInline = map[string]bool{}
	if s := os.Getenv("BKLCHECK_NOINLINE"); s != "" {
		for _, n := range strings.Split(s, ",") {
			dumpNoInline[n] = true
		}
	}
}

var dumpNoInline map[string]bool
