package main

// Stream separators of the line-oriented codecs (YAML, TOML): the readers split the input text with a constant
// regular expression before handing each part to the library decoder. The rule evaluates that constant pattern
// (the checker's own regexp package on a constant of the source: constant folding, no code of the repository is
// run) on a small battery of lines: it must cut exactly at a line that is the separator and nowhere else,
// otherwise a value, key or comment that merely contains the separator characters tears a document apart —
// for text bkl itself has written as well as for hand-written layers.

import (
	"fmt"
	"regexp"
	"sort"
	"strings"

	"golang.org/x/tools/go/ssa"
)

func ruleStreamSeparators(rule string) func(p *Prog, r *Result) {
	return func(p *Prog, r *Result) {
		n := 0
		// the readers: every function of the library that cuts its input with a regular expression (itself or through
		// a helper it hands the pattern to) and decodes the parts with the YAML or TOML library
		var readers []*ssa.Function
		for _, fn := range p.Funcs {
			pk := fnPkg(fn)
			if pk == nil || shortPkg(pk.Pkg.Path()) != "bkl" || fn.Parent() != nil {
				continue
			}
			readers = append(readers, fn)
		}
		sort.Slice(readers, func(i, j int) bool { return p.FuncName(readers[i]) < p.FuncName(readers[j]) })
		for _, fn := range readers {
			sps := splittersOf(p, fn)
			if len(sps) == 0 {
				continue
			}
			family := ""
			fams := codecOf(fn)
			switch {
			case fams["yaml"] && !fams["toml"]:
				family = "yaml"
			case fams["toml"] && !fams["yaml"]:
				family = "toml"
			}
			if family == "" {
				continue
			}
			sp := sps[0]
			n++
			key := p.FuncName(fn) + " / document separator pattern"
			pos := p.InstrPos(sp.site)
			pat, ok := p.regexpPattern(sp.recv)
			if !ok {
				r.Undecided(rule, key, pos, "the pattern is not a package-level regexp.MustCompile(<constant>) assigned once")
				continue
			}
			re, err := regexp.Compile(pat)
			if err != nil {
				r.Fail(rule, key, pos, fmt.Sprintf("the pattern %q does not compile", pat))
				continue
			}
			seps := []string{"---"}
			others := []string{"+++"}
			if family == "toml" {
				seps, others = []string{"---", "+++"}, nil
			}
			bad := ""
			for _, s := range seps {
				parts := re.Split("a: 1\n"+s+"\nb: 2\n", -1)
				if len(parts) != 2 || parts[0] != "a: 1\n" || parts[1] != "\nb: 2\n" {
					bad = fmt.Sprintf("a line that is exactly %q does not separate two documents cleanly (parts %q)", s, parts)
				}
			}
			var lines []string
			for _, s := range append(append([]string{}, seps...), others...) {
				lines = append(lines, s+"x: 1", "name: stage"+s, "- edge"+s, " "+s, s+" ", s+s[:1], s+" = 'v'", "# "+s, "k: '"+s+"'")
			}
			lines = append(lines, others...)
			for _, l := range lines {
				if bad != "" {
					break
				}
				if parts := re.Split("a: 1\n"+l+"\nb: 2\n", -1); len(parts) != 1 {
					bad = fmt.Sprintf("the line %q is cut as if it were a separator (parts %q): the text around it becomes extra documents", l, parts)
				}
			}
			if bad != "" {
				r.Fail(rule, key, pos, fmt.Sprintf("pattern %q: %s", pat, bad))
			} else {
				r.OK(rule, key, pos, fmt.Sprintf("pattern %q cuts exactly at whole-line separators %v (battery of %d lines)", pat, seps, len(lines)+len(seps)))
			}
		}
		r.Floor(rule, "stream separator patterns examined", n, 2)
	}
}

// ruleYamlScalars: the YAML reader's scalar table. yaml.v3 resolves the tag; bkl turns the text into a Go value.
// Each tag's value must come from the full-range standard parser applied to the node's text, so that every
// spelling the YAML library classifies under the tag (True/TRUE/true, 0x10-free decimal ints of any size, ...)
// gets the value the other formats give the same scalar.
func ruleYamlScalars(rule string) func(p *Prog, r *Result) {
	return func(p *Prog, r *Result) {
		pr := newPSRule(p, r, rule, "bkl.yamlTranslateNode", PSOpts{})
		nodeP := mParam("node")
		text := func(t *T) bool {
			return t != nil && t.Op == "field" && t.Name == "Value" && len(t.Args) == 1 && nodeP(t.Args[0])
		}
		tagIs := func(pa *Path, tag string) bool {
			for _, g := range pa.Guards {
				if g.Kind == "streq" && !g.Neg && g.Const == q(tag) && g.A != nil && strings.Contains(g.A.String(), "ShortTag") {
					return true
				}
			}
			return false
		}
		tagged := func(tag string) []*Path {
			return selectPaths(pr.paths, func(pa *Path) bool { return tagIs(pa, tag) && pa.End == "return" })
		}
		parsed := func(t *T, fn string) *T {
			// res<0>(call fn(text, ...)) possibly under a conversion
			for t != nil && t.Op == "convert" && len(t.Args) == 1 {
				t = t.Args[0]
			}
			if t != nil && t.Op == "res" && len(t.Args) == 1 && t.Args[0].Op == "call" && t.Args[0].Name == fn && len(t.Args[0].Args) >= 1 && text(t.Args[0].Args[0]) {
				return t.Args[0]
			}
			return nil
		}
		pr.all("!!bool is strconv.ParseBool of the node's text", tagged("!!bool"), "every spelling yaml.v3 tags as a boolean (true/True/TRUE/false/False/FALSE) gets its value", func(pa *Path) (bool, string) {
			if len(pa.Results) >= 1 && parsed(pa.Results[0], "strconv.ParseBool") != nil {
				return true, ""
			}
			return false, "a YAML boolean is not parsed with strconv.ParseBool(node.Value): spellings such as True or TRUE that yaml.v3 also tags !!bool get another value than true (" + truncate(lastResultString(pa), 60) + ")"
		})
		wide := false
		pr.all("!!int is strconv.ParseInt of the node's text in base 10", tagged("!!int"), "decimal, with a 64-bit parse available for large values", func(pa *Path) (bool, string) {
			if len(pa.Results) < 1 {
				return false, "no result"
			}
			c := parsed(pa.Results[0], "strconv.ParseInt")
			if c == nil {
				if isFailure(pa) {
					return true, ""
				}
				return false, "a YAML integer is not the result of strconv.ParseInt(node.Value, 10, ...): " + truncate(pa.Results[0].String(), 60)
			}
			if len(c.Args) != 3 || !c.Args[1].IsConst("10") {
				return false, "a YAML integer is parsed in another base than 10"
			}
			if c.Args[2].IsConst("64") {
				wide = true
			}
			return true, ""
		})
		if len(tagged("!!int")) > 0 {
			r.Check(wide, rule, "bkl.yamlTranslateNode / !!int has a 64-bit parse", pr.pos(), "ParseInt(..., 64) on some path", "no path parses a YAML integer with 64 bits: integers beyond 32 bits are rejected or wrapped, unlike in JSON and TOML")
		}
		pr.all("!!float is strconv.ParseFloat of the node's text", tagged("!!float"), "ParseFloat(node.Value, 64)", func(pa *Path) (bool, string) {
			if len(pa.Results) >= 1 {
				if c := parsed(pa.Results[0], "strconv.ParseFloat"); c != nil && len(c.Args) == 2 && c.Args[1].IsConst("64") {
					return true, ""
				}
			}
			return false, "a YAML float is not strconv.ParseFloat(node.Value, 64)"
		})
		pr.all("!!null is nil", tagged("!!null"), "nil, nil", func(pa *Path) (bool, string) {
			return isSuccess(pa) && pa.Results[0].IsNil(), "a YAML null does not become nil"
		})
		for _, tag := range []string{"!!str", "!!timestamp"} {
			pr.all(tag+" is the node's text, unchanged", tagged(tag), "node.Value", func(pa *Path) (bool, string) {
				return isSuccess(pa) && text(pa.Results[0]), "a YAML string is not returned as the node's text"
			})
		}
	}
}

func lastResultString(pa *Path) string {
	if len(pa.Results) == 0 {
		return "no result"
	}
	return pa.Results[0].String()
}
