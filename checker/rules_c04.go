package main

// C04 — results do not depend on the layer's format: only canonical dynamic types enter
// document data; every decoder result is normalised; no float narrowing.

import (
	"fmt"
	"go/types"
	"sort"
	"strings"

	"golang.org/x/tools/go/ssa"
)

var canonicalBoxed = map[string]bool{"string": true, "bool": true, "int": true, "float64": true, "map[string]any": true, "[]any": true, "map[string]interface{}": true, "[]interface{}": true}

func isEmptyInterface(t types.Type) bool {
	it, ok := t.Underlying().(*types.Interface)
	return ok && it.NumMethods() == 0
}

// onlyFormatted: the boxed value is used only as an operand of fmt/log/errors formatting.
func onlyFormatted(mi *ssa.MakeInterface) bool {
	refs := mi.Referrers()
	if refs == nil || len(*refs) == 0 {
		return false
	}
	for _, ref := range *refs {
		switch r := ref.(type) {
		case *ssa.DebugRef:
		case *ssa.Store:
			ia, ok := r.Addr.(*ssa.IndexAddr)
			if !ok {
				return false
			}
			al, ok := ia.X.(*ssa.Alloc)
			if !ok {
				return false
			}
			// the array must be sliced and passed to a formatting function only
			for _, ar := range *al.Referrers() {
				sl, ok := ar.(*ssa.Slice)
				if !ok {
					continue
				}
				for _, sr := range *sl.Referrers() {
					c, ok := sr.(ssa.CallInstruction)
					if !ok {
						return false
					}
					name, _ := calleeFullName(c.Common())
					if !(strings.HasPrefix(name, "fmt.") || strings.HasPrefix(name, "log.") || strings.HasPrefix(name, "errors.") || strings.HasSuffix(name, ".log")) {
						return false
					}
				}
			}
		case ssa.CallInstruction:
			name, _ := calleeFullName(r.Common())
			if !(strings.HasPrefix(name, "fmt.") || strings.HasPrefix(name, "log.")) {
				return false
			}
		default:
			return false
		}
	}
	return true
}

func boxedTypes(p *Prog, fns []*ssa.Function) map[string][]ssa.Instruction {
	out := map[string][]ssa.Instruction{}
	for _, fn := range fns {
		for _, b := range fn.Blocks {
			for _, in := range b.Instrs {
				mi, ok := in.(*ssa.MakeInterface)
				if !ok || !isEmptyInterface(mi.Type()) || onlyFormatted(mi) {
					continue
				}
				tn := types.TypeString(mi.X.Type(), shortQual)
				out[tn] = append(out[tn], in)
			}
		}
	}
	return out
}

func funcsNamed(p *Prog, prefix ...string) []*ssa.Function {
	var out []*ssa.Function
	for _, fn := range p.Funcs {
		n := p.FuncName(fn)
		for _, pre := range prefix {
			if strings.HasPrefix(n, pre) {
				out = append(out, fn)
			}
		}
	}
	return out
}

func ruleC04Census(p *Prog, r *Result) {
	// 1. what normalize and evaluation box into `any` must be canonical
	evalFns := funcsNamed(p, "bkl.normalize", "bkl.process1", "bkl.process2", "bkl.repeat", "bkl.merge", "bkl.get", "bkl.findOutputs", "bkl.filterOutput", "bkl.finalize", "bkl.pop", "bkl.filter", "bkl.(*EvalContext)", "bkl.envVars", "bkl.deepClone", "bkl.toString")
	bt := boxedTypes(p, evalFns)
	n := 0
	for _, tn := range sortedKeys(bt) {
		for _, in := range bt[tn] {
			n++
			fn := in.Parent()
			key := fmt.Sprintf("%s / boxes %s into any", p.FuncName(fn), tn)
			switch {
			case canonicalBoxed[tn]:
				r.OK("C04.census", key, p.InstrPos(in), "canonical dynamic type")
			case tn == "int64" && guardedUnrepresentable(in.(*ssa.MakeInterface)):
				r.OK("C04.census", key, p.InstrPos(in), "int64 only when the value does not fit int (num != int64(int(num)))")
			case strings.HasPrefix(tn, "*") || strings.HasPrefix(tn, "func") || tn == "error":
				r.OK("C04.census", key, p.InstrPos(in), "not document data")
			default:
				r.Fail("C04.census", key, p.InstrPos(in), "a non-canonical dynamic type enters document data: values written in different formats compare unequal (== on interfaces is type-sensitive), so $match, $delete, useless-override detection and $repeat counts depend on the format")
			}
		}
	}
	r.Floor("C04.census", "boxing sites in normalisation and evaluation", n, 20)
	// 2. every numeric type a decoder can yield has a case in normalize
	norm := p.Func("bkl.normalize")
	asserted := map[string]bool{}
	for _, b := range norm.Blocks {
		for _, in := range b.Instrs {
			if ta, ok := in.(*ssa.TypeAssert); ok {
				asserted[types.TypeString(ta.AssertedType, shortQual)] = true
			}
		}
	}
	yields := map[string]string{}
	// own YAML translator: read from the census
	for tn := range boxedTypes(p, funcsNamed(p, "bkl.yamlTranslateNode")) {
		yields[tn] = "yamlTranslateNode"
	}
	// library facts for the versions in go.mod
	if libVersion(p, "github.com/pelletier/go-toml/v2") != "v2.2.3" {
		r.Undecided("C04.cover", "go-toml version", "", "go-toml/v2 is not v2.2.3: the table of types it decodes into `any` must be re-confirmed")
	}
	yields["int64"] = yields["int64"] + "+go-toml/v2 (integers decode to int64)"
	// encoding/json with UseNumber
	useNumber := false
	for _, cs := range allCalls(funcsNamed(p, "bkl.jsonUnmarshalStream")) {
		if cs.Name == "(*encoding/json.Decoder).UseNumber" {
			useNumber = true
		}
	}
	r.Check(useNumber, "C04.cover", "bkl.jsonUnmarshalStream / UseNumber", p.Pos(p.Func("bkl.jsonUnmarshalStream").Pos()), "JSON numbers are decoded as json.Number (exact), then canonicalised by normalize", "JSON numbers are decoded as float64: integers above 2^53 lose precision and integers become floats")
	yields["json.Number"] = "encoding/json with UseNumber"
	var ys []string
	for y := range yields {
		ys = append(ys, y)
	}
	sort.Strings(ys)
	for _, y := range ys {
		if canonicalBoxed[y] || y == "nil" {
			continue
		}
		r.Check(asserted[y], "C04.cover", "bkl.normalize / case "+y, p.Pos(norm.Pos()), "normalize canonicalises "+y+" (from "+yields[y]+")",
			fmt.Sprintf("a decoder yields %s (%s) but normalize has no case for it: the same number written in another format has dynamic type int, and == between them is false", y, yields[y]))
	}
}

func libVersion(p *Prog, mod string) string {
	for _, pkg := range p.AllPkgs {
		if pkg.Module != nil && pkg.Module.Path == mod {
			return pkg.Module.Version
		}
	}
	return ""
}

// guardedUnrepresentable: the boxing is on the false side of `x == int64(int(x))` (the true side of `!=`).
func guardedUnrepresentable(mi *ssa.MakeInterface) bool {
	b := mi.Block()
	fn := b.Parent()
	for _, gb := range fn.Blocks {
		iff, ok := gb.Instrs[len(gb.Instrs)-1].(*ssa.If)
		if !ok {
			continue
		}
		bo, ok := iff.Cond.(*ssa.BinOp)
		if !ok || (bo.Op.String() != "==" && bo.Op.String() != "!=") {
			continue
		}
		// one side is Convert(Convert(x,int),int64) of the other
		isRound := func(a, b ssa.Value) bool {
			c1, ok := a.(*ssa.Convert)
			if !ok {
				return false
			}
			c2, ok := c1.X.(*ssa.Convert)
			if !ok {
				return false
			}
			return c2.X == b && types.TypeString(c2.Type(), nil) == "int" && b == mi.X
		}
		if !(isRound(bo.Y, bo.X) || isRound(bo.X, bo.Y)) {
			continue
		}
		f := gb.Succs[1] // the side on which the round trip through int changed the value
		if bo.Op.String() == "!=" {
			f = gb.Succs[0]
		}
		if f == b || (f.Dominates(b) && len(f.Preds) == 1) {
			return true
		}
	}
	return false
}

func ruleC04Float(p *Prog, r *Result) {
	n := 0
	for _, cs := range allCalls(p.Funcs) {
		if cs.Name != "strconv.ParseFloat" {
			continue
		}
		n++
		bits, ok := constInt(cs.Instr.Common().Args[1])
		r.Check(ok && bits == 64, "C04.float", fmt.Sprintf("%s / strconv.ParseFloat bit size", p.FuncName(cs.Fn)), p.InstrPos(cs.Instr), "parsed with 64 bits", "a float is parsed with less than 64 bits: 0.1 becomes 0.10000000149011612, unlike the same number in JSON or TOML")
	}
	for _, fn := range p.Funcs {
		for _, b := range fn.Blocks {
			for _, in := range b.Instrs {
				if cv, ok := in.(*ssa.Convert); ok {
					if bt, ok := cv.Type().Underlying().(*types.Basic); ok && bt.Kind() == types.Float32 {
						r.Fail("C04.float", p.FuncName(fn)+" / conversion to float32", p.InstrPos(in), "doubles are narrowed to float32")
					}
				}
			}
		}
	}
	r.Floor("C04.float", "ParseFloat call sites", n, 1)
}

// ruleC04Normalised: every element of a decoded stream passes through normalize before any other use.
func ruleC04Normalised(rule string) func(p *Prog, r *Result) {
	return func(p *Prog, r *Result) {
		n := 0
		for _, fn := range p.Funcs {
			for _, b := range fn.Blocks {
				for _, in := range b.Instrs {
					c, ok := in.(*ssa.Call)
					if !ok || c.Common().IsInvoke() || c.Common().StaticCallee() != nil {
						continue
					}
					u, ok := c.Common().Value.(*ssa.UnOp)
					if !ok {
						continue
					}
					fa, ok := u.X.(*ssa.FieldAddr)
					if !ok || !strings.HasSuffix(fieldName(fa), "Format.UnmarshalStream") {
						continue
					}
					n++
					key := p.FuncName(fn) + " / decoded stream is normalised"
					var res ssa.Value
					for _, ref := range *c.Referrers() {
						if ex, ok := ref.(*ssa.Extract); ok && ex.Index == 0 {
							res = ex
						}
					}
					if res == nil {
						r.Fail(rule, key, p.InstrPos(in), "decoded documents are discarded")
						continue
					}
					bad := ""
					nElem := 0
					// the slice may be handed whole to a helper of the repository, whose uses of it then count
					var uses func(v ssa.Value, depth int)
					uses = func(v ssa.Value, depth int) {
						for _, ref := range *v.Referrers() {
							switch x := ref.(type) {
							case *ssa.DebugRef:
							case *ssa.Call:
								if bi, ok := x.Common().Value.(*ssa.Builtin); ok && bi.Name() == "len" {
									continue
								}
								if sc := x.Common().StaticCallee(); sc != nil && p.InRepo(sc) && len(sc.Blocks) > 0 && depth < 3 && p.FuncName(sc) != "bkl.normalize" {
									followed := false
									for j, a := range x.Common().Args {
										if a == v && j < len(sc.Params) {
											uses(sc.Params[j], depth+1)
											followed = true
										}
									}
									if followed {
										continue
									}
								}
								bad = "the undecoded slice is passed on as a whole"
							case *ssa.IndexAddr:
								for _, r2 := range *x.Referrers() {
									ld, ok := r2.(*ssa.UnOp)
									if !ok {
										bad = "element address escapes"
										continue
									}
									nElem++
									for _, r3 := range *ld.Referrers() {
										switch y := r3.(type) {
										case *ssa.DebugRef:
										case *ssa.Call:
											sc := y.Common().StaticCallee()
											if sc == nil || !p.InRepo(sc) || p.FuncName(sc) != "bkl.normalize" {
												bad = "a decoded document is used by " + calleeName(p, y.Common()) + " before it is normalised"
											}
										default:
											bad = fmt.Sprintf("a decoded document is used (%T) before it is normalised", r3)
										}
									}
								}
							default:
								bad = fmt.Sprintf("decoded documents flow into %T without normalisation", ref)
							}
						}
					}
					uses(res, 0)
					if bad == "" && nElem == 0 {
						bad = "no element of the decoded stream is read"
					}
					r.Check(bad == "", rule, key, p.InstrPos(in), "every element read from the decoded stream goes to normalize and nowhere else", bad+": numbers keep their decoder-specific dynamic type (json.Number, int64)")
				}
			}
		}
		r.Floor(rule, "dynamic UnmarshalStream call sites", n, 2)
	}
}

func ruleC04Ext(p *Prog, r *Result) {
	fn := p.Func("bkl.(*Parser).loadFile")
	ok := false
	for _, cs := range allCalls([]*ssa.Function{fn}) {
		if cs.Callee != nil && p.InRepo(cs.Callee) && p.FuncName(cs.Callee) == "bkl.GetFormat" {
			if c, isC := cs.Instr.Common().Args[0].(*ssa.Call); isC {
				if sc := c.Common().StaticCallee(); sc != nil && p.InRepo(sc) && p.FuncName(sc) == "bkl.ext" {
					if c.Common().Args[0] == ssa.Value(fn.Params[1]) {
						ok = true
					}
				}
			}
		}
	}
	r.Check(ok, "C04.ext", "bkl.(*Parser).loadFile / codec chosen by extension", p.Pos(fn.Pos()), "GetFormat(ext(path))", "the codec is not chosen from the file's extension alone")
}

// ruleC04Canon: normalize leaves already-canonical scalars alone; only the decoder-specific
// number types (json.Number, int64) are converted. Otherwise the same logical value gets a
// different dynamic type depending on which decoder produced it.
func ruleC04Canon(p *Prog, r *Result) {
	pr := newPSRule(p, r, "C04.canon", "bkl.normalize", PSOpts{NoInline: map[string]bool{"bkl.normalizeNumber": true, "bkl.normalizeMap": true, "bkl.normalizeList": true, "bkl.normalizeListMap": true}})
	objP := mParam("obj")
	converting := map[string]bool{"json.Number": true, "int64": true, "map": true, "list": true, "map[any]any": true, "[]map[string]any": true, "map[interface{}]interface{}": true, "[]map[string]interface{}": true}
	pr.all("canonical scalars (string, bool, int, float64, null) pass through normalize unchanged", selectPaths(pr.paths, func(pa *Path) bool {
		if pa.End != "return" {
			return false
		}
		for _, g := range pa.Guards {
			if g.Kind == "kind" && !g.Neg && objP(g.A) && converting[g.Const] {
				return false
			}
		}
		return true
	}), "returns obj itself", func(pa *Path) (bool, string) {
		if isSuccess(pa) && objP(pa.Results[0]) {
			return true, ""
		}
		kind := "value"
		for _, g := range pa.Guards {
			if g.Kind == "kind" && !g.Neg && objP(g.A) {
				kind = g.Const
			}
		}
		return false, "a " + kind + " that is already canonical is converted (" + pa.Results[0].String() + "): the same logical value now has a different dynamic type depending on the decoder (JSON numbers take another route), so == based comparisons depend on the format"
	})
	// json.Number: integer if it parses as one, else float64 — the same split the YAML translator makes
	pn := newPSRule(p, r, "C04.canon", "bkl.normalizeNumber", PSOpts{})
	pn.all("a JSON number becomes int when it is written as an integer, otherwise float64", selectPaths(pn.paths, func(pa *Path) bool { return pa.End == "return" }), "Int64() ok -> int (int64 if it does not fit); else Float64()", func(pa *Path) (bool, string) {
		okInt := guardPol(pa, "err", mCall("(encoding/json.Number).Int64"), nil)
		res := pa.Results[0]
		switch okInt {
		case -1:
			if res.Op == "convert" && (res.Name == "int") || mResOf(0, mCall("(encoding/json.Number).Int64"))(res) {
				return true, ""
			}
			return false, "an integer literal is not kept as an integer: " + res.String()
		case 1:
			if mCall("(encoding/json.Number).Float64")(res) {
				return true, ""
			}
			return false, "a non-integer literal is not converted with Float64: " + res.String()
		}
		return false, "the integer/float split is not decided by Int64() succeeding"
	})
}

// ruleC04Fresh (C04.fresh): loading rebuilds every container. YAML anchors make the decoder hand out one
// object for several positions (and a decoder is free to share in other ways); JSON and TOML never do.
// Because merge edits maps in place, a shared subtree would make a later layer's change at one position
// appear at the others — for the YAML spelling of the data only. normalize therefore must not return (or
// keep inside its result) any map or list it was given.
func ruleC04Fresh(p *Prog, r *Result) {
	n := 0
	for _, name := range []string{"bkl.normalizeMap", "bkl.normalizeList", "bkl.normalizeListMap"} {
		if !p.HasFunc(name) {
			continue
		}
		fn := p.Func(name)
		for _, b := range fn.Blocks {
			ret, ok := b.Instrs[len(b.Instrs)-1].(*ssa.Return)
			if !ok || failureReturn(ret) {
				continue
			}
			n++
			key := fmt.Sprintf("%s / the container returned is built here", name)
			bad := ""
			for _, d := range p.Derive(retValue(ret, 0), nil) {
				switch {
				case d.Fresh, d.Leaf:
				case d.Root != nil && !d.Strict:
					bad = "the argument's own container (" + d.Root.Name() + ") is handed back"
				case d.Root != nil:
					bad = "a container taken from inside the argument is handed back"
				case d.Unknown != "" && strings.Contains(d.Unknown, "recursive"):
					// the value comes back out of the normalize recursion itself (normalizeListMap -> normalizeList -> ...):
					// its own returns are judged where they are made
				case d.Unknown != "":
					bad = "cannot tell where the result comes from: " + d.Unknown
				}
			}
			r.Check(bad == "", "C04.fresh", key, p.InstrPos(ret), "a new map/list is built and filled with the normalised entries",
				bad+": what the decoder shares between positions (YAML anchors and aliases) stays shared in the document, and an in-place merge at one position then shows at the others — in the YAML spelling only")
		}
	}
	r.Floor("C04.fresh", "successful returns of the container normalisers", n, 2)
}
