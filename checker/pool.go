package main

// Pools and other process-wide mutable state (C09.global / C09.pool) and the sync.Pool type discipline
// used by the panic audit.

import (
	"fmt"
	"go/token"
	"go/types"
	"strings"

	"golang.org/x/tools/go/ssa"
)

// poolGlobals: package-level sync.Pool variables of the repository.
func (p *Prog) poolGlobals() []*ssa.Global {
	var out []*ssa.Global
	for _, sp := range p.SSAPkg {
		if sp.Pkg == nil || !isRepoPkgPath(sp.Pkg.Path()) {
			continue
		}
		for _, name := range sortedKeys(sp.Members) {
			if g, ok := sp.Members[name].(*ssa.Global); ok && isSyncPool(g.Type().(*types.Pointer).Elem()) {
				out = append(out, g)
			}
		}
	}
	return out
}

func isSyncPool(t types.Type) bool {
	nm, ok := t.(*types.Named)
	return ok && nm.Obj().Pkg() != nil && nm.Obj().Pkg().Path() == "sync" && nm.Obj().Name() == "Pool"
}

// poolElemType: the single dynamic type a pool holds — its New function boxes it on every return and
// every Put passes a value of that static type. nil if that cannot be established.
func (p *Prog) poolElemType(g *ssa.Global) types.Type {
	var t types.Type
	set := func(x types.Type) bool {
		if t == nil {
			t = x
			return true
		}
		return types.Identical(t, x)
	}
	found := false
	for _, fn := range p.allFuncsWithAnon() {
		for _, b := range fn.Blocks {
			for _, in := range b.Instrs {
				switch x := in.(type) {
				case *ssa.Store:
					fa, ok := x.Addr.(*ssa.FieldAddr)
					if !ok || fa.X != ssa.Value(g) {
						continue
					}
					// Pool.New = func() any { return new(T) }
					var nf *ssa.Function
					switch v := x.Val.(type) {
					case *ssa.Function:
						nf = v
					case *ssa.MakeClosure:
						nf = v.Fn.(*ssa.Function)
					}
					if nf == nil {
						return nil
					}
					for _, nb := range nf.Blocks {
						if ret, ok := nb.Instrs[len(nb.Instrs)-1].(*ssa.Return); ok {
							mi, ok := ret.Results[0].(*ssa.MakeInterface)
							if !ok || !set(mi.X.Type()) {
								return nil
							}
							found = true
						}
					}
				case ssa.CallInstruction:
					sc := x.Common().StaticCallee()
					if sc == nil || sc.String() != "(*sync.Pool).Put" || x.Common().Args[0] != ssa.Value(g) {
						continue
					}
					mi, ok := x.Common().Args[1].(*ssa.MakeInterface)
					if !ok || !set(mi.X.Type()) {
						return nil
					}
				}
			}
		}
	}
	if !found {
		return nil
	}
	return t
}

func (p *Prog) allFuncsWithAnon() []*ssa.Function {
	var out []*ssa.Function
	for _, fn := range p.Funcs {
		out = append(out, fn)
		out = append(out, allAnon(fn)...)
	}
	for _, sp := range p.SSAPkg {
		if sp.Pkg != nil && isRepoPkgPath(sp.Pkg.Path()) {
			if init := sp.Func("init"); init != nil {
				out = append(out, init)
				out = append(out, allAnon(init)...)
			}
		}
	}
	return out
}

// copying: external functions whose reference result shares no memory with their arguments.
var copyingExt = map[string]bool{
	"bytes.Clone": true, "slices.Clone": true, "strings.Clone": true, "maps.Clone": true,
	"(*bytes.Buffer).String": true, "(*strings.Builder).String": true, "(*bytes.Buffer).Len": true,
	"bytes.Equal": true, "bytes.Compare": true,
}

// rulePools (C09.pool): memory obtained from a process-wide pool is scratch space only — nothing that
// aliases it is returned, stored or handed to repository code, so what the next user of the pooled
// object does cannot change a result that was already produced.
func rulePools(p *Prog, r *Result) {
	for _, g := range p.poolGlobals() {
		gname := shortPkg(g.Pkg.Pkg.Path()) + "." + g.Name()
		uses := 0
		for _, fn := range p.allFuncsWithAnon() {
			for _, b := range fn.Blocks {
				for _, in := range b.Instrs {
					c, ok := in.(*ssa.Call)
					if !ok {
						continue
					}
					sc := c.Common().StaticCallee()
					if sc == nil || sc.String() != "(*sync.Pool).Get" || c.Common().Args[0] != ssa.Value(g) {
						continue
					}
					uses++
					key := fmt.Sprintf("%s / object taken from %s", p.FuncName(fn), gname)
					if esc, where := pooledEscapes(p, fn, c); esc != "" {
						r.Fail("C09.pool", key, where, "memory that belongs to the pool outlives the call: "+esc+". The next evaluation that takes the same object from the pool overwrites it, so a result already handed out changes afterwards (or under a concurrent evaluation)")
					} else {
						r.OK("C09.pool", key, p.InstrPos(c), "used as scratch space only: nothing aliasing the pooled object is returned, stored, captured or passed to repository code")
					}
				}
			}
		}
		if uses == 0 {
			r.OK("C09.pool", gname+" / unused pool", p.Pos(g.Pos()), "no Get on this pool")
		}
	}
}

// pooledEscapes: forward may-alias propagation from the pooled object inside fn.
func pooledEscapes(p *Prog, fn *ssa.Function, get *ssa.Call) (string, string) {
	taint := map[ssa.Value]bool{get: true}
	isRef := func(t types.Type) bool {
		if nnIsErrorType(t) {
			return false // error values describe a failure; they are not views of the scratch object
		}
		switch t.Underlying().(type) {
		case *types.Pointer, *types.Slice, *types.Map, *types.Interface, *types.Signature, *types.Chan:
			return true
		}
		return false
	}
	for changed := true; changed; {
		changed = false
		mark := func(v ssa.Value) {
			if !taint[v] {
				taint[v] = true
				changed = true
			}
		}
		for _, b := range fn.Blocks {
			for _, in := range b.Instrs {
				if st, ok := in.(*ssa.Store); ok && taint[st.Val] {
					if al, ok := st.Addr.(*ssa.Alloc); ok {
						mark(al) // a local variable (or result cell) now holds the alias
					}
					continue
				}
				v, isVal := in.(ssa.Value)
				if !isVal || taint[v] {
					continue
				}
				switch x := in.(type) {
				case *ssa.TypeAssert:
					if taint[x.X] {
						mark(v)
					}
				case *ssa.Extract:
					if taint[x.Tuple] && isRef(x.Type()) {
						mark(v)
					}
				case *ssa.ChangeType:
					if taint[x.X] {
						mark(v)
					}
				case *ssa.ChangeInterface:
					if taint[x.X] {
						mark(v)
					}
				case *ssa.MakeInterface:
					if taint[x.X] {
						mark(v)
					}
				case *ssa.Convert:
					// []byte <-> string conversions copy; pointer conversions alias
					if taint[x.X] && isRef(x.Type()) {
						if _, isSl := x.Type().Underlying().(*types.Slice); !isSl {
							mark(v)
						}
					}
				case *ssa.Phi:
					for _, e := range x.Edges {
						if taint[e] {
							mark(v)
						}
					}
				case *ssa.Slice:
					if taint[x.X] {
						mark(v)
					}
				case *ssa.FieldAddr:
					if taint[x.X] {
						mark(v)
					}
				case *ssa.IndexAddr:
					if taint[x.X] {
						mark(v)
					}
				case *ssa.Field:
					if taint[x.X] && isRef(x.Type()) {
						mark(v)
					}
				case *ssa.UnOp:
					if x.Op == token.MUL && taint[x.X] && isRef(x.Type()) {
						mark(v)
					}
				case *ssa.MakeClosure:
					for _, bd := range x.Bindings {
						if taint[bd] {
							mark(v)
						}
					}
				case *ssa.Call:
					if !isRef(x.Type()) {
						if tp, ok := x.Type().(*types.Tuple); !ok || tp.Len() == 0 {
							continue
						}
					}
					any := false
					for _, a := range x.Common().Args {
						if taint[a] {
							any = true
						}
					}
					if x.Common().IsInvoke() && taint[x.Common().Value] {
						any = true
					}
					if !any {
						continue
					}
					if bi, ok := x.Common().Value.(*ssa.Builtin); ok {
						if bi.Name() == "append" && taint[x.Common().Args[0]] {
							mark(v) // appending to pooled memory
						}
						continue // append(fresh, pooled...) copies the elements (bytes)
					}
					name, _ := calleeFullName(x.Common())
					if copyingExt[name] {
						continue
					}
					mark(v)
				}
			}
		}
	}
	// sinks
	for _, b := range fn.Blocks {
		for _, in := range b.Instrs {
			switch x := in.(type) {
			case *ssa.Return:
				for _, rv := range x.Results {
					if taint[rv] {
						return "a value that aliases the pooled object is returned: " + describeAlias(rv), p.InstrPos(x)
					}
				}
			case *ssa.Store:
				if taint[x.Val] {
					if _, ok := x.Addr.(*ssa.Alloc); ok {
						continue // local variable: followed by the propagation above
					}
					if taint[x.Addr] {
						continue // stored inside the pooled object itself
					}
					return "a value that aliases the pooled object is stored outside it", p.InstrPos(x)
				}
			case *ssa.MapUpdate:
				if taint[x.Value] || taint[x.Key] {
					return "a value that aliases the pooled object is stored in a map", p.InstrPos(x)
				}
			case *ssa.Send:
				if taint[x.X] {
					return "a value that aliases the pooled object is sent on a channel", p.InstrPos(x)
				}
			case *ssa.Go:
				for _, a := range x.Common().Args {
					if taint[a] {
						return "a value that aliases the pooled object is handed to a goroutine", p.InstrPos(x)
					}
				}
			case ssa.CallInstruction:
				sc := x.Common().StaticCallee()
				if sc != nil && sc.String() == "(*sync.Pool).Put" {
					continue
				}
				if sc != nil && !p.InRepo(sc) {
					continue // library code working on the scratch object (encoders, writers)
				}
				for _, a := range x.Common().Args {
					if taint[a] {
						return "a value that aliases the pooled object is passed to " + strings.TrimPrefix(fmt.Sprint(x.Common().Value), "github.com/gopatchy/") + ", which may keep it", p.InstrPos(x)
					}
				}
			}
		}
	}
	return "", ""
}

func describeAlias(v ssa.Value) string {
	if c, ok := v.(*ssa.Call); ok {
		name, _ := calleeFullName(c.Common())
		return "result of " + name
	}
	return valueLabel(v)
}
