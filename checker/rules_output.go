package main

// Output pipeline: C06 (escape / identity), C07 (validation gate), C11 ($output selection and hiding).

import (
	"fmt"
	"go/types"
	"strings"

	"golang.org/x/tools/go/ssa"
)

var outDocOpts = PSOpts{NoInline: map[string]bool{"bkl.(*Document).Process": true}}

// ---- C07.gate / C06.once / C11.root : outputDocument -------------------------------------------

func ruleOutputGate(rulePrefix string) func(p *Prog, r *Result) {
	return func(p *Prog, r *Result) {
		pr := newPSRule(p, r, rulePrefix+".gate", "bkl.(*Parser).outputDocument", outDocOpts)
		succ := selectPaths(pr.paths, isSuccess)
		pr.all("every emitted value was filtered, then validated, then finalised", succ, "result accumulator receives only finalizeOutput(v) with v = filterOutput(x) non-nil and validate(v) == nil", func(pa *Path) (bool, string) {
			res := pa.Results[0]
			if res.Op != "carried" {
				return false, "the result is not the accumulated list of outputs: " + res.String()
			}
			info := pr.carried[res.N]
			if info.Init == nil || !(info.Init.IsEmptyList() || info.Init.IsNil()) {
				return false, "the result list does not start empty"
			}
			n := 0
			for _, it := range pr.paths {
				v, ok := it.Carried[res.N]
				if !ok {
					continue
				}
				if v.Op == "carried" && v.N == res.N {
					continue
				}
				if v.Op != "append" || len(v.Args) != 2 || v.Args[0].String() != res.String() {
					return false, "unexpected update of the result list: " + v.String()
				}
				ap := v.Args[1]
				if ap.IsNil() || ap.IsEmptyList() {
					continue // nothing emitted on this iteration
				}
				if ap.Op != "lit" || len(ap.Args) != 1 {
					return false, "more than one value emitted per output: " + ap.String()
				}
				fin := ap.Args[0]
				if !mCall("bkl.finalizeOutput")(fin) {
					return false, "a value reaches the output without the final unescape: " + fin.String()
				}
				fc := fin
				if fc.Op == "res" {
					fc = fc.Args[0]
				}
				v2 := fc.Args[0]
				if !mResOf(0, mCall("bkl.filterOutput"))(v2) {
					return false, "the emitted value is not the result of the hiding pass: " + v2.String()
				}
				// on this path: validate(v2) called, error checked (negative), before finalize
				vi, fi := -1, -1
				for i, e := range it.Effects {
					if e.Callee == "bkl.validate" && len(e.Args) == 1 && e.Args[0].String() == v2.String() {
						vi = i
					}
					if e.Callee == "bkl.finalizeOutput" && len(e.Args) == 1 && e.Args[0].String() == v2.String() {
						fi = i
					}
				}
				if vi < 0 {
					return false, "an emitted value is not validated"
				}
				if fi >= 0 && fi < vi {
					return false, "the value is finalised (unescaped) before it is validated"
				}
				if guardPol(it, "err", mCall("bkl.validate", mIs(v2)), nil) != -1 {
					return false, "the validation error is not checked before emitting"
				}
				if guardPol(it, "kind", mIs(v2), "nil") != -1 {
					return false, "a hidden (nil) value is not skipped"
				}
				n++
			}
			if n == 0 {
				return false, "no iteration emits a value"
			}
			return true, ""
		})
		pr.some("a validation failure aborts the output", pr.paths, "err(validate(v)) is returned", "an error from validate no longer aborts the output", func(pa *Path) bool {
			return isFailure(pa) && strings.HasPrefix(errClass(lastResult(pa)), "from:bkl.validate")
		})
		pr.some("a hidden output is skipped, not emitted", pr.paths, "filterOutput(x) == nil -> nothing appended", "hidden outputs are no longer skipped", func(pa *Path) bool {
			if pa.End != "iter" || guardPol(pa, "kind", mResOf(0, mCall("bkl.filterOutput")), "nil") != 1 {
				return false
			}
			for _, v := range pa.Carried {
				if v.Op == "append" && len(v.Args) == 2 && !(v.Args[1].IsNil() || len(v.Args[1].Args) == 0) {
					return false
				}
			}
			return true
		})
		// the values fed to the gate: per processed document, its selected outputs or else its root
		pr.all("outputs are the $output selections of each processed document, or its root when there are none", succ, "outs += findOutputs(d.Data).outs if non-empty, else the rebuilt root; d ranges over Process(doc, p.docs) in order", func(pa *Path) (bool, string) {
			var outs *T
			for id, info := range pr.carried {
				_ = id
				for _, s := range info.Src {
					if s.Op == "append" && len(s.Args) == 2 && len(s.Find(func(x *T) bool { return mCall("bkl.findOutputs")(x) })) > 0 {
						outs = s.Args[0]
					}
				}
			}
			if outs == nil {
				return false, "the list of candidate outputs is not built from findOutputs"
			}
			fo := mCall("bkl.findOutputs", func(t *T) bool {
				return t.Op == "field" && t.Name == "Data" && t.Args[0].Op == "elem" && mResOf(0, mCall("bkl.(*Document).Process", mParam("doc")))(t.Args[0].Args[0])
			})
			nRoot, nSel := 0, 0
			for _, it := range pr.paths {
				v, ok := it.Carried[outs.N]
				if !ok || (v.Op == "carried" && v.N == outs.N) {
					continue
				}
				if v.Op != "append" || v.Args[0].String() != outs.String() {
					return false, "unexpected update of the candidate list: " + v.String()
				}
				empty := guardPol(it, "len", mResOf(1, fo), "==0")
				ap := v.Args[1]
				switch {
				case ap.Op == "lit" && len(ap.Args) == 1 && mResOf(0, fo)(ap.Args[0]):
					if empty != 1 {
						return false, "the document root is emitted although the document selects outputs"
					}
					nRoot++
				case mResOf(1, fo)(ap):
					if empty != -1 {
						return false, "the selected outputs are used without testing that there are any"
					}
					nSel++
				default:
					return false, "candidate outputs come from somewhere else: " + ap.String()
				}
			}
			if nRoot == 0 || nSel == 0 {
				return false, fmt.Sprintf("root fallback paths: %d, selection paths: %d", nRoot, nSel)
			}
			return true, ""
		})
	}
}

// ---- C07.cover / C06.validator / C07.pred : validate --------------------------------------------

func ruleValidate(rulePrefix string) func(p *Prog, r *Result) {
	return func(p *Prog, r *Result) {
		pr := newPSRule(p, r, rulePrefix+".validate", "bkl.validate", PSOpts{})
		obj := pT("obj")
		objP := mParam("obj")
		// a key is a string: handing it straight to the function validate dispatches strings to is the same check
		strValidators := stringCaseCallees(p, pr.fn)
		mapPaths := pr.paths
		if len(strValidators) > 0 {
			mapPaths = p.Paths(pr.fn, PSOpts{NoInline: strValidators})
		}
		mapIter := selectPaths(mapPaths, func(pa *Path) bool {
			return guardPol(pa, "kind", objP, "map") == 1 && guardPol(pa, "itermore", mOp("range", objP), nil) == 1
		})
		pr.all("map: every key and every value is validated", mapIter, "validate(k) and validate(v) for every entry; the loop is left only with an error", func(pa *Path) (bool, string) {
			hk := hasCallEffect(pa, "bkl.validate", mKeyOf(objP))
			kerr := guardPol(pa, "err", mCall("bkl.validate", mKeyOf(objP)), nil)
			for sv := range strValidators {
				if !hk && hasCallEffect(pa, sv, mKeyOf(objP)) {
					hk = true
					kerr = guardPol(pa, "err", mCall(sv, mKeyOf(objP)), nil)
				}
			}
			hv := hasCallEffect(pa, "bkl.validate", mElemOf(objP))
			if pa.End == "iter" {
				if !hk || !hv {
					return false, fmt.Sprintf("an entry passes with key validated=%v value validated=%v", hk, hv)
				}
				if kerr != -1 || guardPol(pa, "err", mCall("bkl.validate", mElemOf(objP)), nil) != -1 {
					return false, "the loop continues without checking both validation results"
				}
				return true, ""
			}
			if isFailure(pa) {
				return true, ""
			}
			return false, "the loop over the entries is left early with success"
		})
		listIter := selectPaths(pr.paths, func(pa *Path) bool {
			return guardPol(pa, "kind", objP, "list") == 1 && guardPol(pa, "itermore", mOp("range", objP), nil) == 1
		})
		pr.all("list: every element is validated", listIter, "validate(elem) for every element; the loop is left only with an error", func(pa *Path) (bool, string) {
			if pa.End == "iter" {
				if !hasCallEffect(pa, "bkl.validate", mElemOf(objP)) || guardPol(pa, "err", mCall("bkl.validate", mElemOf(objP)), nil) != -1 {
					return false, "an element passes without a checked validation"
				}
				return true, ""
			}
			if isFailure(pa) {
				return true, ""
			}
			return false, "the loop over the elements is left early with success"
		})
		// strings
		str := selectPaths(pr.paths, func(pa *Path) bool { return guardPol(pa, "kind", objP, "string") == 1 })
		// obj == "$required", spelled directly or as "$" + "required"
		isRequired := func(pa *Path) int {
			if v := guardPol(pa, "streq", objP, q("$required")); v != 0 {
				return v
			}
			pre := guardPol(pa, "prefix", objP, q("$"))
			if pre == -1 {
				return -1
			}
			rest := guardPol(pa, "streq", mCall("strings.TrimPrefix", objP, mStr("$")), q("required"))
			if pre == 1 && rest != 0 {
				return rest
			}
			return 0
		}
		pr.all(`string "$required" is a required-field error`, selectPaths(str, func(pa *Path) bool { return isRequired(pa) == 1 }),
			"returns ErrRequiredField", func(pa *Path) (bool, string) {
				if pa.End == "return" && wraps(lastResult(pa), "ErrRequiredField") {
					return true, ""
				}
				return false, "expected ErrRequiredField, got " + errClass(lastResult(pa))
			})
		isDollar := func(pa *Path) int {
			for _, g := range pa.Guards {
				if g.Kind == "eq" && g.B != nil && g.B.IsConst("36") && strings.Contains(g.A.String(), "At>") && strings.HasSuffix(g.A.String(), ", 0)") {
					if g.Neg {
						return -1
					}
					return 1
				}
			}
			return 0
		}
		// the other spelling: strings.HasPrefix/CutPrefix(obj, "$") and the first rune of the rest
		restOf := func(t *T) bool {
			if t == nil {
				return false
			}
			if t.Op == "call" && t.Name == "strings.TrimPrefix" && len(t.Args) == 2 && objP(t.Args[0]) && mStr("$")(t.Args[1]) {
				return true
			}
			return t.Op == "slice" && len(t.Args) >= 2 && objP(t.Args[0]) && t.Args[1].IsConst("1")
		}
		decode := mCall("unicode/utf8.DecodeRuneInString", restOf)
		isDollar0 := isDollar
		isDollar = func(pa *Path) int {
			if v := isDollar0(pa); v != 0 {
				return v
			}
			return guardPol(pa, "prefix", objP, q("$"))
		}
		secondRune := func(t *T) bool {
			if t == nil {
				return false
			}
			if strings.Contains(t.String(), "At>") && strings.HasSuffix(t.String(), ", 1)") {
				return true // utf8string.At(1)
			}
			return mResOf(0, decode)(t)
		}
		isLower := func(pa *Path) int {
			return guardPol(pa, "truth", mCall("unicode.IsLower", secondRune), nil)
		}
		longEnough := func(pa *Path) int {
			for _, g := range pa.Guards {
				if g.Kind == "cmp" && g.B != nil && strings.Contains(g.A.String(), "RuneCount") {
					if v, ok := cmpImpliesAtLeast(g, 2); ok {
						return v
					}
				}
				// size > 0 of the decoded rune
				if g.Kind == "cmp" && g.A != nil && mResOf(1, decode)(g.A) && g.B != nil {
					if v, ok := cmpImpliesAtLeast(g, 1); ok {
						return v
					}
				}
				if g.Kind == "streq" && g.A != nil && restOf(g.A) && g.Const == q("") {
					if g.Neg {
						return 1
					}
					return -1
				}
			}
			return 0
		}
		other := selectPaths(str, func(pa *Path) bool { return isRequired(pa) != 1 })
		pr.all("string beginning with $ and a lower-case letter is an invalid directive; nothing else is rejected (in particular not $$...)", other,
			"fails iff rune 0 is '$' and rune 1 is lower case, with ErrInvalidDirective", func(pa *Path) (bool, string) {
				if pa.End != "return" {
					return false, "unexpected end " + pa.End
				}
				le := longEnough(pa)
				if le == 0 && guardPol(pa, "truth", mCall("unicode.IsLower", mResOf(0, decode)), nil) == 1 {
					// the second rune was decoded from the rest of the string: an empty rest decodes to RuneError, which is
					// not lower case, so "lower case" already says there is a second rune
					le = 1
				}
				bad := le == 1 && isDollar(pa) == 1 && isLower(pa) == 1
				if bad {
					if wraps(lastResult(pa), "ErrInvalidDirective") {
						return true, ""
					}
					return false, "a $directive-shaped string must be rejected with ErrInvalidDirective, got " + errClass(lastResult(pa))
				}
				if longEnough(pa) == -1 || isDollar(pa) == -1 || isLower(pa) == -1 {
					if lastResult(pa).IsNil() {
						return true, ""
					}
					return false, "a string that is not $ + lower-case letter is rejected: " + errClass(lastResult(pa))
				}
				return false, "the reserved-word test ($ followed by a lower-case letter, at least two runes) is not what decides this path"
			})
		pr.all("other scalars are valid", consSel(pr, aKind(obj, "map", true), aKind(obj, "list", true), aKind(obj, "string", true)), "returns nil", func(pa *Path) (bool, string) {
			if pa.End == "return" && lastResult(pa).IsNil() && len(pa.Effects) == 0 {
				return true, ""
			}
			return false, "non-string scalars must pass validation"
		})
	}
}

// ---- C07.route -----------------------------------------------------------------------------------

// ruleMarshalRoute: who may call a MarshalStream function value, and with what.
func ruleMarshalRoute(p *Prog, r *Result) {
	n := 0
	for _, fn := range p.Funcs {
		pk := fnPkg(fn)
		if pk == nil || shortPkg(pk.Pkg.Path()) != "bkl" {
			continue
		}
		for _, b := range fn.Blocks {
			for _, in := range b.Instrs {
				c, ok := in.(*ssa.Call)
				if !ok || c.Common().IsInvoke() || c.Common().StaticCallee() != nil {
					continue
				}
				u, ok := c.Common().Value.(*ssa.UnOp)
				if !ok {
					continue
				}
				fa, ok := u.X.(*ssa.FieldAddr)
				if !ok || !strings.HasSuffix(fieldName(fa), "Format.MarshalStream") {
					continue
				}
				n++
				name := p.FuncName(fn)
				switch name {
				case "bkl.(*Parser).Output":
					// operand must be the result of OutputDocuments
					arg := c.Common().Args[0]
					ok := false
					if ex, isEx := arg.(*ssa.Extract); isEx {
						if cc, isC := ex.Tuple.(*ssa.Call); isC {
							if sc := cc.Common().StaticCallee(); sc != nil && p.FuncName(sc) == "bkl.(*Parser).OutputDocuments" {
								ok = true
							}
						}
					}
					r.Check(ok, "C07.route", name+" / MarshalStream operand", p.InstrPos(in), "encodes exactly the result of OutputDocuments (validated, finalised values)", "Output encodes something other than the validated outputs")
				case "bkl.process2EncodeString":
					r.OK("C07.route", name+" / MarshalStream operand", p.InstrPos(in), "$encode: operand validated by C07.encode")
				default:
					r.Fail("C07.route", name+" / MarshalStream call", p.InstrPos(in), "a new call site encodes values without passing the validation gate")
				}
			}
		}
	}
	r.Floor("C07.route", "MarshalStream call sites in package bkl", n, 2)
	// finalizeOutput is applied from nowhere else (exactly one unescape per emitted value)
	fin := p.Func("bkl.finalizeOutput")
	for _, e := range p.CG().In[fin] {
		caller := topFunc(e.Caller)
		name := p.FuncName(caller)
		if name == "bkl.(*Parser).outputDocument" || strings.HasPrefix(name, "bkl.finalize") {
			continue
		}
		if p.OnlyThrough(caller, p.Func("bkl.(*Parser).outputDocument")) {
			continue // a private helper of the gate: what it does is covered by the gate's path summary
		}
		r.Fail("C06.once", name+" / extra finalizeOutput call", p.InstrPos(e.Site), "the $$ unescape is applied a second time outside the output gate")
	}
	r.OK("C06.once", "bkl.finalizeOutput / callers", p.Pos(fin.Pos()), "called only from the output gate and its own family")
}

// ---- C06.finalize ----------------------------------------------------------------------------------

func ruleFinalize(p *Prog, r *Result) {
	pr := newPSRule(p, r, "C06.finalize", "bkl.finalizeOutput", PSOpts{})
	obj := pT("obj")
	objP := mParam("obj")
	isUnescape := func(of TM) TM {
		return func(t *T) bool {
			return t.Op == "call" && t.Name == "strings.ReplaceAll" && len(t.Args) == 3 && of(t.Args[0]) && mStr("$$")(t.Args[1]) && mStr("$")(t.Args[2])
		}
	}
	pr.all("string: every $$ becomes $", consSel(pr, aKind(obj, "string", false)), `returns strings.ReplaceAll(s, "$$", "$")`, returnsExactly(isUnescape(objP), "ReplaceAll(obj, \"$$\", \"$\")"))
	pr.all("other scalars unchanged", consSel(pr, aKind(obj, "map", true), aKind(obj, "list", true), aKind(obj, "string", true)), "returns obj", returnsExactly(objP, "obj"))
	mapIter := selectPaths(pr.paths, func(pa *Path) bool { return guardPol(pa, "kind", objP, "map") == 1 && pa.End == "iter" })
	pr.all("map: keys and values are unescaped, entry by entry in sorted key order", mapIter, "new[unescape(k)] = finalize(v)", func(pa *Path) (bool, string) {
		for _, e := range pa.Effects {
			if e.Kind == "mapset" {
				if e.Args[0].Op != "fresh" {
					return false, "the input map is modified in place"
				}
				if !isUnescape(mKeyOf(objP))(e.Args[1]) {
					return false, "the key is not unescaped: " + e.Args[1].String()
				}
				if !mCall("bkl.finalizeOutput", mElemOf(objP))(e.Args[2]) {
					return false, "the value is not finalised recursively: " + e.Args[2].String()
				}
				if _, sorted := sortedKeyOf(e.Args[1].Args[0]); !sorted {
					return false, "entries are not visited in sorted key order (colliding keys would make the result depend on map order)"
				}
				return true, ""
			}
		}
		return false, "an entry is dropped"
	})
	listIter := selectPaths(pr.paths, func(pa *Path) bool { return guardPol(pa, "kind", objP, "list") == 1 && pa.End == "iter" })
	pr.all("list: every element is finalised in place order", listIter, "new[i] = finalize(elem i)", func(pa *Path) (bool, string) {
		for _, e := range pa.Effects {
			if e.Kind == "elemset" {
				if e.Args[0].Op != "fresh" || e.Args[1].Op != "idx" || !mCall("bkl.finalizeOutput", mElemOf(objP))(e.Args[2]) {
					return false, "element not finalised into the same position of a new list: " + e.String()
				}
				return true, ""
			}
		}
		for _, v := range pa.Carried {
			if v.Op == "append" && len(v.Args) == 2 && v.Args[1].Op == "lit" && len(v.Args[1].Args) == 1 && mCall("bkl.finalizeOutput", mElemOf(objP))(v.Args[1].Args[0]) {
				return true, ""
			}
		}
		return false, "an element is dropped"
	})
}

// ---- C11 -------------------------------------------------------------------------------------------

func boolKeyPol(pa *Path, m TM, key string, want string) int {
	// (has(m,key) && kind(lookup)=bool && lookup == want)
	lv := mLookup(m, mStr(key))
	h := guardPol(pa, "has", m, TM(mStr(key)))
	k := guardPol(pa, "kind", lv, "bool")
	t := 0
	for _, g := range pa.Guards {
		if g.Kind == "eq" && lv(g.A) && g.B != nil && g.B.IsConst(want) {
			t = 1
			if g.Neg {
				t = -1
			}
		}
		if g.Kind == "truth" && lv(g.A) {
			t = 1
			if g.Neg != (want == "false") {
				t = -1
			}
		}
	}
	if h != -1 && k == 1 && t == 1 {
		return 1
	}
	if h == -1 || k == -1 || t == -1 {
		return -1
	}
	return 0
}

func ruleC11Hide(p *Prog, r *Result) {
	pr := newPSRule(p, r, "C11.hide", "bkl.filterOutput", PSOpts{})
	obj := pT("obj")
	objP := mParam("obj")
	mp := selectPaths(pr.paths, func(pa *Path) bool { return guardPol(pa, "kind", objP, "map") == 1 })
	pr.all("map with $output: false is hidden", selectPaths(mp, func(pa *Path) bool { return boolKeyPol(pa, objP, "$output", "false") == 1 }), "returns nil without looking inside", func(pa *Path) (bool, string) {
		if isSuccess(pa) && pa.Results[0].IsNil() && !hasCallEffect(pa, "bkl.filterOutput") {
			return true, ""
		}
		return false, "a subtree marked $output: false must yield nil"
	})
	rec := mCall("bkl.filterOutput", mElemOf(objP))
	pr.all("map: hidden children are dropped, others kept under their key", selectPaths(mp, func(pa *Path) bool {
		return boolKeyPol(pa, objP, "$output", "false") == -1 && guardPol(pa, "err", rec, nil) == -1
	}), "child nil -> no entry; else new[k] = filtered child", func(pa *Path) (bool, string) {
		isNil := guardPol(pa, "kind", mResOf(0, rec), "nil")
		kept := false
		for _, e := range pa.Effects {
			if e.Kind == "mapset" && mKeyOf(objP)(e.Args[1]) {
				if !mResOf(0, rec)(e.Args[2]) {
					return false, "the entry stored is not the filtered child"
				}
				kept = true
			}
		}
		if isNil == 1 && kept {
			return false, "a hidden child is kept"
		}
		if isNil == -1 && !kept {
			return false, "a visible child is dropped"
		}
		if isNil == 0 {
			return false, "the filtered child is not tested for nil"
		}
		return true, ""
	})
	ls := selectPaths(pr.paths, func(pa *Path) bool { return guardPol(pa, "kind", objP, "list") == 1 })
	pr.some("list with a {$output: false} marker entry is hidden", ls, "returns nil", "a list carrying the $output: false marker is no longer hidden", func(pa *Path) bool {
		return isSuccess(pa) && pa.Results[0].IsNil() && boolKeyPol(pa, mElemOf(objP), "$output", "false") == 1
	})
	pr.all("list: hidden elements are dropped, others kept in order", selectPaths(ls, func(pa *Path) bool {
		return pa.End == "iter" && guardPol(pa, "err", rec, nil) == -1
	}), "elem nil -> skipped; else appended", func(pa *Path) (bool, string) {
		isNil := guardPol(pa, "kind", mResOf(0, rec), "nil")
		kept := false
		for _, v := range pa.Carried {
			if v.Op == "append" && len(v.Args) == 2 && v.Args[1].Op == "lit" && len(v.Args[1].Args) == 1 {
				if !mResOf(0, rec)(v.Args[1].Args[0]) {
					return false, "the element appended is not the filtered element"
				}
				kept = true
			}
		}
		if isNil == 1 && kept {
			return false, "a hidden element is kept"
		}
		if isNil == -1 && !kept {
			return false, "a visible element is dropped"
		}
		return true, ""
	})
	pr.all("scalars pass", consSel(pr, aKind(obj, "map", true), aKind(obj, "list", true)), "returns obj", returnsExactly(objP, "obj"))
}

func ruleC11Select(p *Prog, r *Result) {
	pr := newPSRule(p, r, "C11.select", "bkl.findOutputs", PSOpts{})
	obj := pT("obj")
	objP := mParam("obj")
	pr.all("scalars select nothing", consSel(pr, aKind(obj, "map", true), aKind(obj, "list", true)), "returns (obj, [], nil)", func(pa *Path) (bool, string) {
		if isSuccess(pa) && objP(pa.Results[0]) && pa.Results[1].Op == "lit" && len(pa.Results[1].Args) == 0 {
			return true, ""
		}
		return false, "a scalar must be returned unchanged with no selections"
	})
	mp := selectPaths(pr.paths, func(pa *Path) bool { return guardPol(pa, "kind", objP, "map") == 1 })
	// order of the selections of a map: the map itself (when marked) comes before everything selected inside it.
	// The property only promises "a fixed order"; this pins the present one, because every consumer of a
	// multi-document output stream sees a change of it.
	markedTrue := func(pa *Path) int {
		h := guardPol(pa, "has", objP, TM(mStr("$output")))
		b := guardPol(pa, "kind", mLookup(objP, mStr("$output")), "bool")
		e := guardPol(pa, "eq", mLookup(objP, mStr("$output")), nil)
		if h != -1 && b == 1 && e == 1 {
			return 1
		}
		if h == -1 || b == -1 || e == -1 {
			return -1
		}
		return 0
	}
	pr.all("a marked map precedes the selections made inside it", selectPaths(mp, func(pa *Path) bool { return isSuccess(pa) && markedTrue(pa) != 0 }),
		"outs starts as [the map itself] when it is marked, as [] otherwise, and only grows by the children's selections", func(pa *Path) (bool, string) {
			outs := pa.Results[1]
			if outs.Op != "carried" {
				if outs.Op == "append" {
					return false, "something is added to the selections after the children were visited (" + truncate(outs.String(), 60) + "): a marked map now follows the documents selected inside it"
				}
				return false, "the selections are not the accumulated list: " + truncate(outs.String(), 60)
			}
			info := pr.carried[outs.N]
			if info.Init == nil {
				return false, "the selections have no initial value"
			}
			self := pa.Results[0]
			if markedTrue(pa) == 1 {
				in := info.Init
				if in.Op == "append" && len(in.Args) == 2 && (in.Args[0].IsEmptyList() || in.Args[0].IsNil()) && in.Args[1].Op == "lit" && len(in.Args[1].Args) == 1 && in.Args[1].Args[0].String() == self.String() {
					return true, ""
				}
				return false, "a marked map is not the first of its own selections (initial value " + truncate(in.String(), 60) + ")"
			}
			if info.Init.IsEmptyList() || info.Init.IsNil() {
				return true, ""
			}
			return false, "an unmarked map contributes a selection of its own: " + truncate(info.Init.String(), 60)
		})
	src := mOr(objP, mOp("clone", objP))
	rec := mCall("bkl.findOutputs", mElemOf(src))
	pr.all("map: children are visited in sorted key order; their selections follow, the rebuilt child is stored under its key", selectPaths(mp, func(pa *Path) bool { return pa.End == "iter" }),
		"outs += sub-outs; new[k] = rebuilt child", func(pa *Path) (bool, string) {
			okSet, okOuts := false, false
			for _, e := range pa.Effects {
				if e.Kind == "mapset" && e.Args[0].Op == "fresh" {
					if !mKeyOf(src)(e.Args[1]) || !mResOf(0, rec)(e.Args[2]) {
						return false, "the rebuilt child is not stored under its own key: " + e.String()
					}
					if _, sorted := sortedKeyOf(e.Args[1]); !sorted {
						return false, "children are not visited in sorted key order (the order of outputs would depend on map order)"
					}
					okSet = true
				}
				if e.Kind == "cellset" && len(e.Args) == 1 && e.Args[0].Op == "append" && mResOf(1, rec)(e.Args[0].Args[1]) {
					okOuts = true
				}
			}
			for _, v := range pa.Carried {
				if v.Op == "append" && len(v.Args) == 2 && mResOf(1, rec)(v.Args[1]) {
					okOuts = true
				}
			}
			if !okSet {
				return false, "a child is dropped from the rebuilt map"
			}
			if !okOuts {
				return false, "selections found below a child are lost"
			}
			return true, ""
		})
	pr.all("map marked $output: true is itself an output, before its children's, without the marker", selectPaths(mp, func(pa *Path) bool {
		return isSuccess(pa) && boolKeyPol(pa, objP, "$output", "true") == 1
	}), "outs starts with the rebuilt map; the children iterated are those of the map minus $output", func(pa *Path) (bool, string) {
		outs := pa.Results[1]
		for outs != nil && outs.Op == "carried" {
			outs = pr.carried[outs.N].Init
		}
		if outs == nil || outs.Op != "append" || len(outs.Args) != 2 || outs.Args[1].Op != "lit" || len(outs.Args[1].Args) != 1 || outs.Args[1].Args[0].String() != pa.Results[0].String() {
			return false, "the selected map is not the first of its outputs"
		}
		if !hasEffect(pa, "mapdel", mOp("clone", objP), mStr("$output")) {
			return false, "the $output marker is not removed"
		}
		for _, g := range pa.Guards {
			if g.Kind == "itermore" && len(g.A.Args) == 1 && strings.Contains(g.A.Args[0].String(), "maps.Keys") && !strings.Contains(g.A.Args[0].String(), "clone") {
				return false, "the children iterated include the $output marker itself"
			}
		}
		return true, ""
	})
	pr.all("map not marked true selects only what its children select", selectPaths(mp, func(pa *Path) bool {
		return isSuccess(pa) && boolKeyPol(pa, objP, "$output", "true") == -1
	}), "outs starts empty", func(pa *Path) (bool, string) {
		outs := pa.Results[1]
		for outs != nil && outs.Op == "carried" {
			outs = pr.carried[outs.N].Init
		}
		if outs.IsEmptyList() {
			return true, ""
		}
		return false, "an unmarked map is selected as an output"
	})
	ls := selectPaths(pr.paths, func(pa *Path) bool { return guardPol(pa, "kind", objP, "list") == 1 })
	pr.all("list with a {$output: true} marker entry is an output after its children's, without the marker", selectPaths(ls, func(pa *Path) bool {
		return isSuccess(pa) && boolKeyPol(pa, mElemOf(objP), "$output", "true") == 1
	}), "outs = children's outs + [rebuilt list]", func(pa *Path) (bool, string) {
		outs := pa.Results[1]
		if outs.Op == "append" && len(outs.Args) == 2 && outs.Args[1].Op == "lit" && len(outs.Args[1].Args) == 1 && outs.Args[1].Args[0].String() == pa.Results[0].String() &&
			pr.originsOf(pa.Results[0])["call:bkl.findOutputs"] {
			return true, ""
		}
		return false, "a list carrying the $output: true marker is not selected as an output (after its children's outputs)"
	})
	pr.some("unmarked list selects only what its elements select", ls, "outs = children's outs", "an unmarked list is selected as an output", func(pa *Path) bool {
		return isSuccess(pa) && pa.Results[1].Op == "carried"
	})
}

// ---- C06.identity (process1/process2 preserve non-directive structure) is in rules_process.go ----

// cmpImpliesAtLeast: does the integer comparison atom (x OP c) decide "x >= n"? +1 yes, -1 it decides x < n.
func cmpImpliesAtLeast(g Atom, n int64) (int, bool) {
	c, ok := constIdx(g.B)
	if !ok {
		return 0, false
	}
	pos := 0
	switch g.Const {
	case ">=":
		if c == n {
			pos = 1
		}
	case ">":
		if c == n-1 {
			pos = 1
		}
	case "<":
		if c == n {
			pos = -1
		}
	case "<=":
		if c == n-1 {
			pos = -1
		}
	}
	if pos == 0 {
		return 0, false
	}
	if g.Neg {
		pos = -pos
	}
	return pos, true
}

// ruleOutputFresh (C11.fresh): selection hands the same subtree out twice when selections nest (once inside
// its parent, once as a document of its own). Everything that runs after selection — filtering, validation,
// finalisation — therefore has to build new containers and must never write into the tree it is given.
func ruleOutputFresh(p *Prog, r *Result) {
	own := p.Own()
	n := 0
	for _, name := range []string{"bkl.findOutputs", "bkl.filterOutput", "bkl.validate", "bkl.finalizeOutput"} {
		if !p.HasFunc(name) {
			r.Undecided("C11.fresh", name, "", "function not found (renamed?)")
			continue
		}
		fn := p.Func(name)
		n++
		mut, why := own.Mut(fn, 0)
		r.Check(!mut, "C11.fresh", name+" / leaves its argument untouched", p.Pos(fn.Pos()), "no store, element assignment, delete or in-place append reachable from it targets the tree it was given",
			"the output pipeline writes into the tree it was handed ("+why+"): a selected subtree is also part of its selected parent, so filtering one rewrites the other (duplicated or missing entries in the output)")
	}
	r.Floor("C11.fresh", "output pipeline stages", n, 4)
}

// stringCaseCallees: the in-repo functions that fn (a type-dispatching function over a tree value) hands its
// parameter to once it is known to be a string: calling one of them on a string is what fn itself would do.
func stringCaseCallees(p *Prog, fn *ssa.Function) map[string]bool {
	out := map[string]bool{}
	if fn == nil || len(fn.Params) != 1 {
		return out
	}
	fromParam := func(v ssa.Value) bool {
		for i := 0; i < 4; i++ {
			switch x := v.(type) {
			case *ssa.Extract:
				v = x.Tuple
			case *ssa.TypeAssert:
				bt, ok := x.AssertedType.Underlying().(*types.Basic)
				return ok && bt.Kind() == types.String && x.X == ssa.Value(fn.Params[0])
			default:
				return false
			}
		}
		return false
	}
	for _, b := range fn.Blocks {
		for _, in := range b.Instrs {
			c, ok := in.(*ssa.Call)
			if !ok {
				continue
			}
			sc := c.Common().StaticCallee()
			if sc == nil || !p.InRepo(sc) || sc == fn || len(c.Common().Args) != 1 || !fromParam(c.Common().Args[0]) {
				continue
			}
			out[p.FuncName(sc)] = true
		}
	}
	return out
}
