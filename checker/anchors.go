package main

// Anchors: rules find their entry points by function name. A private function that is merely renamed
// keeps its package, receiver and signature; the table below (generated from the pinned tree with
// `bklcheck -dump anchors`) lets the loader recognise that case and keep addressing the function by the
// name the rules know. Only an unambiguous match is accepted: exactly one function that is not in the
// table has the signature of exactly one table entry that is missing from the tree.

import (
	_ "embed"
	"encoding/json"
	"go/types"
	"sort"
	"strings"

	"golang.org/x/tools/go/ssa"
)

//go:embed anchors.json
var anchorsJSON []byte

func sigKey(fn *ssa.Function) string {
	q := func(p *types.Package) string { return p.Path() }
	return types.TypeString(fn.Signature, q)
}

// anchorTable: name -> signature key, for top-level functions and methods of the pinned tree.
func anchorTable() map[string]string {
	out := map[string]string{}
	if len(anchorsJSON) > 0 {
		_ = json.Unmarshal(anchorsJSON, &out)
	}
	return out
}

func (p *Prog) dumpAnchors() map[string]string {
	out := map[string]string{}
	for _, fn := range p.Funcs {
		if fn.Parent() != nil || fn.Synthetic != "" && !strings.Contains(fn.Synthetic, "instance") {
			continue
		}
		out[p.FuncName(fn)] = sigKey(fn)
	}
	return out
}

// applyAliases gives a renamed function the name it had on the pinned tree.
func (p *Prog) applyAliases() {
	frozen := anchorTable()
	if len(frozen) == 0 {
		return
	}
	cur := map[string]*ssa.Function{}
	for _, fn := range p.Funcs {
		if fn.Parent() == nil {
			cur[p.FuncName(fn)] = fn
		}
	}
	scope := func(name string) string { // package and receiver part of a name
		if i := strings.LastIndex(name, "."); i >= 0 {
			return name[:i]
		}
		return name
	}
	type key struct{ scope, sig string }
	missing := map[key][]string{}
	for name, sig := range frozen {
		if cur[name] == nil {
			k := key{scope(name), sig}
			missing[k] = append(missing[k], name)
		}
	}
	newcomers := map[key][]*ssa.Function{}
	var names []string
	for name := range cur {
		names = append(names, name)
	}
	sort.Strings(names)
	for _, name := range names {
		if _, known := frozen[name]; known {
			continue
		}
		k := key{scope(name), sigKey(cur[name])}
		newcomers[k] = append(newcomers[k], cur[name])
	}
	for k, ms := range missing {
		ns := newcomers[k]
		if len(ms) == 1 && len(ns) == 1 {
			if p.alias == nil {
				p.alias = map[*ssa.Function]string{}
			}
			p.alias[ns[0]] = ms[0]
			p.Renamed = append(p.Renamed, ns[0].Name()+" is addressed as "+ms[0])
		}
	}
	sort.Strings(p.Renamed)
}
