package main

// Anchors: rules find their entry points by function name. A private function that is merely renamed
// keeps its package, receiver and signature; the table below (generated from the pinned tree with
// `bklcheck -dump anchors`) lets the loader recognise that case and keep addressing the function by the
// name the rules know. Only an unambiguous match is accepted: exactly one function that is not in the
// table has the signature of exactly one table entry that is missing from the tree.

import (
	_ "embed"
	"encoding/json"
	"go/types"
	"sort"
	"strings"

	"golang.org/x/tools/go/ssa"
)

//go:embed anchors.json
var anchorsJSON []byte

func sigKey(fn *ssa.Function) string {
	q := func(p *types.Package) string { return p.Path() }
	return types.TypeString(fn.Signature, q)
}

type anchorFile struct {
	Sig    map[string]string   `json:"sig"`    // function name -> signature
	Params map[string][]string `json:"params"` // function name -> parameter names (receiver first), as on the pinned tree
}

func loadAnchors() anchorFile {
	var af anchorFile
	if len(anchorsJSON) > 0 {
		_ = json.Unmarshal(anchorsJSON, &af)
	}
	if af.Sig == nil {
		af.Sig = map[string]string{}
	}
	if af.Params == nil {
		af.Params = map[string][]string{}
	}
	return af
}

// anchorTable: name -> signature key, for top-level functions and methods of the pinned tree.
func anchorTable() map[string]string { return loadAnchors().Sig }

func (p *Prog) dumpAnchors() anchorFile {
	af := anchorFile{Sig: map[string]string{}, Params: map[string][]string{}}
	for _, fn := range p.Funcs {
		if fn.Parent() != nil || fn.Synthetic != "" && !strings.Contains(fn.Synthetic, "instance") {
			continue
		}
		name := p.FuncName(fn)
		af.Sig[name] = sigKey(fn)
		var ps []string
		for _, q := range fn.Params {
			ps = append(ps, q.Name())
		}
		af.Params[name] = ps
	}
	return af
}

// ParamName: the name the rules know a parameter by — its name on the pinned tree when the function is in the
// anchor table (so that renaming a parameter does not detach the rules), its own name otherwise.
func (p *Prog) ParamName(par *ssa.Parameter) string {
	fn := par.Parent()
	if fn == nil || fn.Parent() != nil {
		return par.Name()
	}
	if p.frozenParams == nil {
		p.frozenParams = loadAnchors().Params
	}
	names, ok := p.frozenParams[p.FuncName(fn)]
	if !ok {
		return par.Name()
	}
	for i, q := range fn.Params {
		if q == par && i < len(names) && len(names) == len(fn.Params) {
			return names[i]
		}
	}
	return par.Name()
}

// applyAliases gives a renamed function the name it had on the pinned tree.
func (p *Prog) applyAliases() {
	frozen := anchorTable()
	if len(frozen) == 0 {
		return
	}
	cur := map[string]*ssa.Function{}
	for _, fn := range p.Funcs {
		if fn.Parent() == nil {
			cur[p.FuncName(fn)] = fn
		}
	}
	scope := func(name string) string { // package and receiver part of a name
		if i := strings.LastIndex(name, "."); i >= 0 {
			return name[:i]
		}
		return name
	}
	type key struct{ scope, sig string }
	missing := map[key][]string{}
	for name, sig := range frozen {
		if cur[name] == nil {
			k := key{scope(name), sig}
			missing[k] = append(missing[k], name)
		}
	}
	newcomers := map[key][]*ssa.Function{}
	var names []string
	for name := range cur {
		names = append(names, name)
	}
	sort.Strings(names)
	for _, name := range names {
		if _, known := frozen[name]; known {
			continue
		}
		k := key{scope(name), sigKey(cur[name])}
		newcomers[k] = append(newcomers[k], cur[name])
	}
	for k, ms := range missing {
		ns := newcomers[k]
		if len(ms) == 1 && len(ns) == 1 {
			if p.alias == nil {
				p.alias = map[*ssa.Function]string{}
			}
			p.alias[ns[0]] = ms[0]
			p.Renamed = append(p.Renamed, ns[0].Name()+" is addressed as "+ms[0])
		}
	}
	sort.Strings(p.Renamed)
}
