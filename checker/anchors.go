package main

// Anchors: rules find their entry points by function name and address parameters by name and call arguments by
// position. A private function that is renamed, turned into a method of its first parameter's type (or back),
// or whose parameters are renamed or reordered keeps the *types* it works on. The table below (generated from
// the pinned tree with `bklcheck -dump anchors`) records, per function, the parameter names and types
// (receiver first) and the results; the loader uses it
//   - to keep addressing a function that disappeared under its pinned name, when exactly one new function of the
//     same package has the same shape (three passes: same receiver and ordered parameter types; receiver counted
//     as first parameter; parameter types as a multiset with private defined non-struct types unfolded). When
//     several functions of one shape were renamed together they are paired by name similarity, mutual best only;
//   - to give every parameter the name the rules know it by (matched by type first, then by name, then by order);
//   - to present the arguments of a call to such a function in the pinned parameter order (frozenArgOrder), so
//     that positional matchers survive a reordering.
// Only unambiguous matches are accepted; anything else leaves the rule UNDECIDED, never silently passing.

import (
	_ "embed"
	"encoding/json"
	"go/types"
	"sort"
	"strings"

	"golang.org/x/tools/go/ssa"
)

//go:embed anchors.json
var anchorsJSON []byte

func typeQ(p *types.Package) string { return p.Path() }

// normType: private defined types of the repository whose underlying type is not a struct or interface are
// unfolded (type docSet []*Document is, for matching, []*Document).
func normType(t types.Type) string {
	switch tt := t.(type) {
	case *types.Named:
		if tt.Obj() != nil && tt.Obj().Pkg() != nil && isRepoPkgPath(tt.Obj().Pkg().Path()) && !tt.Obj().Exported() {
			switch tt.Underlying().(type) {
			case *types.Struct, *types.Interface:
			default:
				return types.TypeString(tt.Underlying(), typeQ)
			}
		}
	case *types.Pointer:
		if n, ok := tt.Elem().(*types.Named); ok {
			_ = n
		}
	}
	return types.TypeString(t, typeQ)
}

func tupleTypes(t *types.Tuple, variadic bool, norm bool) []string {
	var parts []string
	for i := 0; i < t.Len(); i++ {
		var ts string
		if norm {
			ts = normType(t.At(i).Type())
		} else {
			ts = types.TypeString(t.At(i).Type(), typeQ)
		}
		if variadic && i == t.Len()-1 {
			ts = "..." + strings.TrimPrefix(ts, "[]")
		}
		parts = append(parts, ts)
	}
	return parts
}

// paramTypes: the types of fn's parameters, receiver first.
func paramTypes(fn *ssa.Function, norm bool) []string {
	var out []string
	if r := fn.Signature.Recv(); r != nil {
		if norm {
			out = append(out, normType(r.Type()))
		} else {
			out = append(out, types.TypeString(r.Type(), typeQ))
		}
	}
	return append(out, tupleTypes(fn.Signature.Params(), fn.Signature.Variadic(), norm)...)
}

func resultTypes(fn *ssa.Function) string {
	return strings.Join(tupleTypes(fn.Signature.Results(), false, false), ", ")
}

type anchorFile struct {
	Params  map[string][]string `json:"params"`  // function name -> parameter names (receiver first), as on the pinned tree
	PTypes  map[string][]string `json:"ptypes"`  // function name -> parameter types (receiver first)
	Results map[string]string   `json:"results"` // function name -> result types
	Method  map[string]bool     `json:"method"`  // function name -> has a receiver
}

var anchorsCache *anchorFile

func loadAnchors() *anchorFile {
	if anchorsCache != nil {
		return anchorsCache
	}
	af := &anchorFile{}
	if len(anchorsJSON) > 0 {
		_ = json.Unmarshal(anchorsJSON, af)
	}
	if af.Params == nil {
		af.Params = map[string][]string{}
	}
	if af.PTypes == nil {
		af.PTypes = map[string][]string{}
	}
	if af.Results == nil {
		af.Results = map[string]string{}
	}
	if af.Method == nil {
		af.Method = map[string]bool{}
	}
	anchorsCache = af
	return af
}

func (p *Prog) dumpAnchors() anchorFile {
	af := anchorFile{Params: map[string][]string{}, PTypes: map[string][]string{}, Results: map[string]string{}, Method: map[string]bool{}}
	for _, fn := range p.Funcs {
		if fn.Parent() != nil || fn.Synthetic != "" && !strings.Contains(fn.Synthetic, "instance") {
			continue
		}
		name := p.FuncName(fn)
		var ps []string
		for _, q := range fn.Params {
			ps = append(ps, q.Name())
		}
		af.Params[name] = ps
		af.PTypes[name] = paramTypes(fn, false)
		af.Results[name] = resultTypes(fn)
		af.Method[name] = fn.Signature.Recv() != nil
	}
	return af
}

// paramPerm: for every parameter of fn (receiver first) the index of the pinned parameter it stands for, or -1.
func (p *Prog) paramPerm(fn *ssa.Function) []int {
	if perm, ok := p.permCache[fn]; ok {
		return perm
	}
	if p.permCache == nil {
		p.permCache = map[*ssa.Function][]int{}
	}
	af := loadAnchors()
	name := p.FuncName(fn)
	fnames, ftypes := af.Params[name], af.PTypes[name]
	perm := make([]int, len(fn.Params))
	for i := range perm {
		perm[i] = -1
	}
	if len(fnames) == 0 || len(fnames) != len(ftypes) || fn.Parent() != nil {
		p.permCache[fn] = nil
		return nil
	}
	ctypes := paramTypes(fn, false)
	cnorm := paramTypes(fn, true)
	if len(ctypes) != len(fn.Params) {
		p.permCache[fn] = nil
		return nil
	}
	same := func(i, j int) bool { return ctypes[i] == ftypes[j] || cnorm[i] == ftypes[j] }
	// unchanged order
	if len(ctypes) == len(ftypes) {
		all := true
		for i := range ctypes {
			if !same(i, i) {
				all = false
			}
		}
		if all {
			for i := range perm {
				perm[i] = i
			}
			p.permCache[fn] = perm
			return perm
		}
	}
	used := make([]bool, len(ftypes))
	// same type and same name first
	for i, q := range fn.Params {
		for j := range ftypes {
			if !used[j] && same(i, j) && q.Name() == fnames[j] {
				perm[i], used[j] = j, true
				break
			}
		}
	}
	// then same type, in order
	for i := range fn.Params {
		if perm[i] >= 0 {
			continue
		}
		for j := range ftypes {
			if !used[j] && same(i, j) {
				perm[i], used[j] = j, true
				break
			}
		}
	}
	p.permCache[fn] = perm
	return perm
}

// ParamName: the name the rules know a parameter by — its name on the pinned tree when the function is in the
// anchor table (so that renaming or reordering parameters does not detach the rules), its own name otherwise.
func (p *Prog) ParamName(par *ssa.Parameter) string {
	fn := par.Parent()
	if fn == nil || fn.Parent() != nil {
		return par.Name()
	}
	perm := p.paramPerm(fn)
	if perm == nil {
		return par.Name()
	}
	names := loadAnchors().Params[p.FuncName(fn)]
	for i, q := range fn.Params {
		if q == par && i < len(perm) && perm[i] >= 0 && perm[i] < len(names) {
			return names[perm[i]]
		}
	}
	return par.Name()
}

// frozenArgOrder: the arguments of a static call to callee, in the order of the pinned parameter list. A pinned
// parameter the function no longer has is represented by an "absent" term; arguments for new parameters follow.
func (p *Prog) frozenArgOrder(callee *ssa.Function, args []*T) []*T {
	perm := p.paramPerm(callee)
	if perm == nil || len(args) != len(perm) {
		return args
	}
	n := len(loadAnchors().Params[p.FuncName(callee)])
	identity := n == len(args)
	for i, j := range perm {
		if i != j {
			identity = false
		}
	}
	if identity {
		return args
	}
	out := make([]*T, n)
	var extra []*T
	for i, j := range perm {
		if j >= 0 && j < n {
			out[j] = args[i]
		} else {
			extra = append(extra, args[i])
		}
	}
	for j := range out {
		if out[j] == nil {
			out[j] = &T{Op: "absent"}
		}
	}
	return append(out, extra...)
}

// applyAliases gives a renamed function the name it had on the pinned tree.
func (p *Prog) applyAliases() {
	af := loadAnchors()
	if len(af.Params) == 0 {
		return
	}
	cur := map[string]*ssa.Function{}
	for _, fn := range p.Funcs {
		if fn.Parent() == nil {
			cur[p.FuncName(fn)] = fn
		}
	}
	scope := func(name string) string { // package and receiver part of a name
		if i := strings.LastIndex(name, "."); i >= 0 {
			return name[:i]
		}
		return name
	}
	alias := func(fn *ssa.Function, old string) {
		if p.alias == nil {
			p.alias = map[*ssa.Function]string{}
		}
		p.alias[fn] = old
		p.Renamed = append(p.Renamed, fn.Name()+" is addressed as "+old)
	}
	var names []string
	for name := range cur {
		names = append(names, name)
	}
	sort.Strings(names)
	sorted := func(xs []string) []string {
		ys := append([]string{}, xs...)
		sort.Strings(ys)
		return ys
	}
	for pass := 0; pass < 3; pass++ {
		keyOfOld := func(name string) string {
			pt := af.PTypes[name]
			switch pass {
			case 0:
				if af.Method[name] && len(pt) > 0 {
					pt = pt[1:]
				}
				return scope(name) + " | " + strings.Join(pt, ", ") + " | " + af.Results[name]
			case 1:
				return pkgOfName(name) + " | " + strings.Join(pt, ", ") + " | " + af.Results[name]
			}
			return pkgOfName(name) + " | " + strings.Join(sorted(pt), ", ") + " | " + af.Results[name]
		}
		keyOfNew := func(name string, fn *ssa.Function) string {
			switch pass {
			case 0:
				pt := paramTypes(fn, false)
				if fn.Signature.Recv() != nil {
					pt = pt[1:]
				}
				return scope(name) + " | " + strings.Join(pt, ", ") + " | " + resultTypes(fn)
			case 1:
				return pkgOfName(name) + " | " + strings.Join(paramTypes(fn, false), ", ") + " | " + resultTypes(fn)
			}
			return pkgOfName(name) + " | " + strings.Join(sorted(paramTypes(fn, true)), ", ") + " | " + resultTypes(fn)
		}
		taken := map[*ssa.Function]bool{}
		aliased := map[string]bool{}
		for fn, old := range p.alias {
			taken[fn] = true
			aliased[old] = true
		}
		missing := map[string][]string{}
		for name := range af.Params {
			if cur[name] == nil && !aliased[name] {
				k := keyOfOld(name)
				missing[k] = append(missing[k], name)
			}
		}
		newcomers := map[string][]*ssa.Function{}
		for _, name := range names {
			if _, known := af.Params[name]; known || taken[cur[name]] {
				continue
			}
			k := keyOfNew(name, cur[name])
			newcomers[k] = append(newcomers[k], cur[name])
		}
		var keys []string
		for k := range missing {
			keys = append(keys, k)
		}
		sort.Strings(keys)
		for _, k := range keys {
			ms, ns := missing[k], newcomers[k]
			sort.Strings(ms)
			if len(ms) == 1 && len(ns) == 1 {
				alias(ns[0], ms[0])
				continue
			}
			if len(ms) == 0 || len(ns) == 0 || len(ms) != len(ns) {
				continue
			}
			// several functions of one shape were renamed together: pair them by name, accepting only pairs that
			// are each other's clear best match
			bestNew := map[string]*ssa.Function{}
			ok := true
			for _, m := range ms {
				var best *ssa.Function
				bs, second := -1.0, -1.0
				for _, n := range ns {
					if sc := nameSimilarity(baseName(m), n.Name()); sc > bs {
						best, second, bs = n, bs, sc
					} else if sc > second {
						second = sc
					}
				}
				if best == nil || bs-second < 0.05 {
					ok = false
					break
				}
				bestNew[m] = best
			}
			used := map[*ssa.Function]bool{}
			for _, n := range bestNew {
				if used[n] {
					ok = false
				}
				used[n] = true
			}
			if !ok {
				continue
			}
			for _, m := range ms {
				alias(bestNew[m], m)
			}
		}
	}
	sort.Strings(p.Renamed)
	p.permCache = nil
}

// pkgOfName: "bkl.(*file).parents" -> "bkl"; "cmd/bkld.diffDoc" -> "cmd/bkld".
func pkgOfName(name string) string {
	if i := strings.Index(name, ".("); i >= 0 {
		return name[:i]
	}
	if i := strings.LastIndex(name, "."); i >= 0 {
		return name[:i]
	}
	return name
}

func baseName(name string) string {
	if i := strings.LastIndex(name, "."); i >= 0 {
		return name[i+1:]
	}
	return name
}

// nameSimilarity: 2*LCS/(len a + len b), case-insensitive.
func nameSimilarity(a, b string) float64 {
	a, b = strings.ToLower(a), strings.ToLower(b)
	if len(a) == 0 || len(b) == 0 {
		return 0
	}
	prev := make([]int, len(b)+1)
	curr := make([]int, len(b)+1)
	for i := 1; i <= len(a); i++ {
		for j := 1; j <= len(b); j++ {
			switch {
			case a[i-1] == b[j-1]:
				curr[j] = prev[j-1] + 1
			case prev[j] >= curr[j-1]:
				curr[j] = prev[j]
			default:
				curr[j] = curr[j-1]
			}
		}
		prev, curr = curr, prev
	}
	return 2 * float64(prev[len(b)]) / float64(len(a)+len(b))
}
