package main

// TERM — recursion audit: every recursive call site must be depth-guarded (G),
// visited-guarded (V), structural on acyclic data (S, including strict-by-key-removal P), or
// a constant-literal re-entry that cannot select itself again (C).

import (
	"fmt"
	"go/constant"
	"go/token"
	"go/types"
	"sort"
	"strings"

	"golang.org/x/tools/go/ssa"
)

type recSite struct {
	e      *Edge
	class  string // G V S P C or ""
	reason string
}

func siteKey(p *Prog, e *Edge) string {
	k := fmt.Sprintf("%s -> %s", p.FuncName(e.Caller), p.FuncName(e.Callee))
	if e.Kind == "funcarg" || e.Kind == "extcallback" {
		return k + " (as callback)"
	}
	var args []string
	for _, a := range e.Site.Common().Args {
		if isTreeType(a.Type()) {
			args = append(args, describeValue(p, a))
		}
	}
	return k + "(" + strings.Join(args, ", ") + ")"
}

// ruleRecursion implements C08.rec.
func ruleRecursion(p *Prog, r *Result) {
	g := p.CG()
	if len(g.Unresolved) > 0 {
		r.Undecided("C08.rec", "call graph", "", "unresolved dynamic calls make the cycle set incomplete: "+strings.Join(g.Unresolved, "; "))
		return
	}
	sccs := g.RecursiveSCCs()
	r.Count("recursive_sccs", len(sccs))
	nsites := 0
	for _, comp := range sccs {
		in := map[*ssa.Function]bool{}
		for _, f := range comp {
			in[f] = true
		}
		inSCC := func(f *ssa.Function) bool { return in[f] }
		var sites []*recSite
		seen := map[string]bool{}
		for _, f := range comp {
			for _, e := range g.Out[f] {
				if !in[e.Callee] {
					continue
				}
				k := fmt.Sprintf("%p|%p", e.Site, e.Callee)
				if seen[k] {
					continue
				}
				seen[k] = true
				sites = append(sites, &recSite{e: e})
			}
		}
		nsites += len(sites)
		// 1. cut edges: visited-guarded and constant-literal re-entries
		for _, s := range sites {
			if ok, why := visitedGuarded(p, s.e); ok {
				s.class, s.reason = "V", why
			} else if ok, why := constLiteralReentry(p, s.e); ok {
				s.class, s.reason = "C", why
			}
		}
		var rest []*recSite
		for _, s := range sites {
			if s.class == "" {
				rest = append(rest, s)
			}
		}
		// 2. what is left after the cuts: recompute the cycles and discharge each by G or S
		for _, sub := range subComponents(rest) {
			subIn := map[*ssa.Function]bool{}
			for _, s := range sub {
				subIn[s.e.Caller] = true
				subIn[s.e.Callee] = true
			}
			var subFns []*ssa.Function
			for _, f := range comp {
				if subIn[f] {
					subFns = append(subFns, f)
				}
			}
			gOK, gWhy, gBad := depthGuarded(p, subFns, sub)
			if gOK {
				for _, s := range sub {
					s.class, s.reason = "G", gWhy
				}
				continue
			}
			sOK, sWhy, sBad := structural(p, subFns, sub, inSCC)
			if sOK {
				for _, s := range sub {
					s.class, s.reason = "S", sWhy
				}
				continue
			}
			bad := map[*recSite]string{}
			for s, w := range sBad {
				bad[s] = "not structural: " + w
				if gw, ok := gBad[s]; ok {
					bad[s] += "; not depth-guarded: " + gw
				} else if gWhy != "" {
					bad[s] += "; not depth-guarded: " + gWhy
				}
			}
			if len(bad) == 0 { // global failure without a single culprit
				for _, s := range sub {
					bad[s] = "cycle without a strictly decreasing or guarded edge: " + sWhy + " / " + gWhy
				}
			}
			for _, s := range sub {
				if w, ok := bad[s]; ok {
					s.reason = w
				} else {
					s.class, s.reason = "S?", "individually a projection, but another call of the same cycle is not discharged"
				}
			}
		}
		for _, s := range rest {
			if s.class == "" && s.reason == "" {
				s.class, s.reason = "-", "not on a cycle once the visited-guarded / constant re-entry edges are cut"
			}
		}
		for _, s := range sites {
			key := siteKey(p, s.e)
			pos := p.InstrPos(s.e.Site)
			switch s.class {
			case "G", "V", "S", "C", "-":
				r.OK("C08.rec", key, pos, "class "+s.class+": "+s.reason)
			case "S?":
				r.OK("C08.rec", key, pos, s.reason)
			default:
				r.Fail("C08.rec", key, pos, "recursive call is neither depth-guarded, visited-guarded nor structural on acyclic data: "+s.reason)
			}
		}
	}
	r.Count("recursive_call_sites", nsites)
	r.Floor("C08.rec", "recursive call sites", nsites, 60)
}

// ---- G: depth guard ---------------------------------------------------------------------------

// intOrigin traces an int value back to a parameter (of fn or of an enclosing function) plus a
// non-negative constant increment.
func intOrigin(p *Prog, v ssa.Value, seen map[ssa.Value]bool) (par *ssa.Parameter, inc int64, ok bool) {
	if seen[v] {
		return nil, 0, false
	}
	seen[v] = true
	switch x := v.(type) {
	case *ssa.Parameter:
		return x, 0, true
	case *ssa.BinOp:
		if x.Op == token.ADD {
			if c, isC := x.Y.(*ssa.Const); isC && c.Value != nil && c.Value.Kind() == constant.Int && c.Int64() >= 0 {
				pr, i, ok := intOrigin(p, x.X, seen)
				return pr, i + c.Int64(), ok
			}
			if c, isC := x.X.(*ssa.Const); isC && c.Value != nil && c.Value.Kind() == constant.Int && c.Int64() >= 0 {
				pr, i, ok := intOrigin(p, x.Y, seen)
				return pr, i + c.Int64(), ok
			}
		}
	case *ssa.UnOp:
		if x.Op == token.MUL {
			al := cellRootOf(p, x.X)
			if al == nil {
				return nil, 0, false
			}
			stores := cellStores(al)
			var pr *ssa.Parameter
			var minInc int64 = -1
			for _, s := range stores {
				q, i, ok := intOrigin(p, s, seen)
				if !ok || (pr != nil && q != pr) {
					return nil, 0, false
				}
				pr = q
				if minInc < 0 || i < minInc {
					minInc = i
				}
			}
			if pr == nil {
				return nil, 0, false
			}
			return pr, minInc, true
		}
	case *ssa.Phi:
		var pr *ssa.Parameter
		var minInc int64 = -1
		for _, e := range x.Edges {
			q, i, ok := intOrigin(p, e, seen)
			if !ok || (pr != nil && q != pr) {
				return nil, 0, false
			}
			pr = q
			if minInc < 0 || i < minInc {
				minInc = i
			}
		}
		return pr, minInc, pr != nil
	}
	return nil, 0, false
}

// guardParam: does fn compare (parameter + k, k>=1) with a constant and return a non-nil error
// on the exceeding side? Returns the parameter index.
func guardParam(p *Prog, fn *ssa.Function) (int, string) {
	for _, b := range fn.Blocks {
		iff, ok := b.Instrs[len(b.Instrs)-1].(*ssa.If)
		if !ok {
			continue
		}
		bo, ok := iff.Cond.(*ssa.BinOp)
		if !ok || (bo.Op != token.GTR && bo.Op != token.GEQ) {
			continue
		}
		lim, ok := bo.Y.(*ssa.Const)
		if !ok || lim.Value == nil || lim.Value.Kind() != constant.Int {
			continue
		}
		par, inc, ok := intOrigin(p, bo.X, map[ssa.Value]bool{})
		if !ok || inc < 1 || par.Parent() != fn {
			continue
		}
		// the true successor must end in a return of a non-nil error
		if !blockReturnsError(b.Succs[0]) {
			continue
		}
		for i, q := range fn.Params {
			if q == par {
				return i, fmt.Sprintf("%s: %s+%d %s %s => error return", p.FuncName(fn), par.Name(), inc, bo.Op, lim.Value)
			}
		}
	}
	return -1, ""
}

func isErrorType(t types.Type) bool {
	return types.Identical(t, types.Universe.Lookup("error").Type())
}

// blockReturnsError: every path from b reaches (within straight-line code) a Return whose error
// result is not the nil constant.
func blockReturnsError(b *ssa.BasicBlock) bool {
	seen := map[*ssa.BasicBlock]bool{}
	for {
		if seen[b] {
			return false
		}
		seen[b] = true
		last := b.Instrs[len(b.Instrs)-1]
		switch t := last.(type) {
		case *ssa.Return:
			for ri := range t.Results {
				res := retValue(t, ri)
				if isErrorType(res.Type()) {
					if c, ok := res.(*ssa.Const); ok && c.IsNil() {
						return false
					}
					return true
				}
			}
			return false
		case *ssa.Jump:
			b = b.Succs[0]
		default:
			return false
		}
	}
}

func depthGuarded(p *Prog, comp []*ssa.Function, sites []*recSite) (bool, string, map[*recSite]string) {
	bad := map[*recSite]string{}
	if len(sites) == 0 {
		return true, "no remaining edges", bad
	}
	guards := map[*ssa.Function]int{}
	var gdesc []string
	for _, f := range comp {
		if i, d := guardParam(p, f); i >= 0 {
			guards[f] = i
			gdesc = append(gdesc, d)
		}
	}
	if len(guards) == 0 {
		return false, "no function of the cycle compares an incremented depth parameter with a limit", bad
	}
	// depth parameter of each function, propagated backwards from the guards
	depthPar := map[*ssa.Function]*ssa.Parameter{}
	for f, i := range guards {
		depthPar[f] = f.Params[i]
	}
	for iter := 0; iter < len(comp)+2; iter++ {
		for _, s := range sites {
			cp := depthPar[s.e.Callee]
			if cp == nil {
				continue
			}
			j := paramIndex(s.e.Callee, cp)
			args := s.e.Site.Common().Args
			if j < 0 || j >= len(args) {
				continue
			}
			q, _, ok := intOrigin(p, args[j], map[ssa.Value]bool{})
			if !ok {
				continue
			}
			owner := q.Parent()
			// the site is in Caller; the parameter may belong to Caller or (for closures) to an ancestor
			for f := s.e.Caller; f != nil; f = f.Parent() {
				if f == owner {
					if depthPar[f] == nil {
						depthPar[f] = q
					}
					// a closure inherits its ancestor's depth parameter
					if depthPar[s.e.Caller] == nil {
						depthPar[s.e.Caller] = q
					}
				}
			}
		}
	}
	ok := true
	for _, s := range sites {
		cp := depthPar[s.e.Callee]
		if cp == nil {
			// callee is a closure without own depth parameter: inherits; edge into a closure is a
			// funcarg edge and carries no arguments — accept if the closure's captured depth is the caller's
			if s.e.Callee.Parent() != nil && (s.e.Kind == "funcarg" || s.e.Kind == "extcallback") {
				continue
			}
			bad[s] = fmt.Sprintf("callee %s has no depth parameter", p.FuncName(s.e.Callee))
			ok = false
			continue
		}
		if s.e.Kind == "funcarg" || s.e.Kind == "extcallback" {
			continue
		}
		j := paramIndex(s.e.Callee, cp)
		args := s.e.Site.Common().Args
		if j < 0 || j >= len(args) {
			if s.e.Callee.Parent() != nil {
				continue
			}
			bad[s] = "depth argument missing"
			ok = false
			continue
		}
		q, _, qok := intOrigin(p, args[j], map[ssa.Value]bool{})
		if !qok {
			bad[s] = fmt.Sprintf("depth argument %s does not derive from the caller's depth parameter by non-negative increments", args[j])
			ok = false
			continue
		}
		want := depthPar[s.e.Caller]
		if want == nil || q != want {
			bad[s] = fmt.Sprintf("depth argument derives from %s, not from the caller's depth parameter", q.Name())
			ok = false
		}
	}
	if !ok {
		return false, "depth counter is not threaded through every call of the cycle", bad
	}
	// every cycle must contain a guarded edge: a call made by a guard function after its limit
	// check passed, handing on the incremented counter. Edges that are not guarded must be acyclic.
	adj := map[*ssa.Function][]*ssa.Function{}
	for _, s := range sites {
		if _, isG := guards[s.e.Caller]; isG && guardedEdge(p, s.e, depthPar[s.e.Callee]) {
			continue
		}
		adj[s.e.Caller] = append(adj[s.e.Caller], s.e.Callee)
	}
	if cyc := findCycle(adj); cyc != nil {
		var names []string
		for _, f := range cyc {
			names = append(names, p.FuncName(f))
		}
		return false, "cycle bypasses every depth guard: " + strings.Join(names, " -> "), bad
	}
	sort.Strings(gdesc)
	return true, "depth counter threaded through every call; guards: " + strings.Join(gdesc, "; "), bad
}

func paramIndex(fn *ssa.Function, par *ssa.Parameter) int {
	for i, q := range fn.Params {
		if q == par {
			return i
		}
	}
	return -1
}

func findCycle(adj map[*ssa.Function][]*ssa.Function) []*ssa.Function {
	state := map[*ssa.Function]int{}
	var stack []*ssa.Function
	var cyc []*ssa.Function
	var dfs func(f *ssa.Function) bool
	dfs = func(f *ssa.Function) bool {
		state[f] = 1
		stack = append(stack, f)
		for _, n := range adj[f] {
			if state[n] == 1 {
				for i, x := range stack {
					if x == n {
						cyc = append(append([]*ssa.Function{}, stack[i:]...), n)
						return true
					}
				}
			}
			if state[n] == 0 && dfs(n) {
				return true
			}
		}
		stack = stack[:len(stack)-1]
		state[f] = 2
		return false
	}
	var keys []*ssa.Function
	for f := range adj {
		keys = append(keys, f)
	}
	sort.Slice(keys, func(i, j int) bool { return keys[i].String() < keys[j].String() })
	for _, f := range keys {
		if state[f] == 0 && dfs(f) {
			return cyc
		}
	}
	return nil
}

// ---- S: structural descent --------------------------------------------------------------------

type rel int

const (
	relNone rel = iota
	relSame
	relStrict
)

// topFunc: the named function a (possibly anonymous) function belongs to.
func topFunc(f *ssa.Function) *ssa.Function {
	for f.Parent() != nil {
		f = f.Parent()
	}
	return f
}

func isTreeType(t types.Type) bool {
	switch u := t.Underlying().(type) {
	case *types.Interface, *types.Map, *types.Slice:
		return true
	case *types.Pointer:
		_, ok := u.Elem().Underlying().(*types.Struct)
		return ok
	}
	return false
}

// structural looks for one tree-typed parameter per named function such that every edge passes
// a projection of the caller's chosen parameter and every cycle contains a strict projection.
// Closures are folded into their top-level function (their parameters derive from it through
// the applicator contracts).
func structural(p *Prog, comp []*ssa.Function, sites []*recSite, inSCC func(*ssa.Function) bool) (bool, string, map[*recSite]string) {
	bad := map[*recSite]string{}
	tops := map[*ssa.Function]bool{}
	for _, f := range comp {
		tops[topFunc(f)] = true
	}
	// real call edges only (funcarg edges into closures carry no arguments; the closure's own calls are sites)
	type cedge struct {
		s        *recSite
		from, to *ssa.Function // top-level functions
		derivs   [][]Deriv     // per callee parameter index
	}
	var edges []*cedge
	for _, s := range sites {
		if s.e.Kind == "funcarg" || s.e.Kind == "extcallback" {
			if s.e.Kind == "extcallback" {
				// callback invoked by an external function with arguments we do not see — unless it is one of the
				// element-wise helpers of package slices, whose callback arguments are elements of the slice passed
				if _, ok := extElemSource(s.e.Site.Common()); !ok {
					bad[s] = "closure is invoked by an external function"
				}
			}
			continue
		}
		callee := s.e.Callee
		if callee.Parent() != nil {
			// direct call of a closure: treat like funcarg (its body sites are analysed themselves)
			continue
		}
		ce := &cedge{s: s, from: topFunc(s.e.Caller), to: callee}
		args := s.e.Site.Common().Args
		for j := range callee.Params {
			if j < len(args) {
				ce.derivs = append(ce.derivs, p.Derive(args[j], inSCC))
			} else {
				ce.derivs = append(ce.derivs, nil)
			}
		}
		edges = append(edges, ce)
	}
	if len(bad) > 0 {
		return false, "callback from external code", bad
	}
	relOf := func(ce *cedge, pi *ssa.Parameter, j int) (rel, string) {
		ds := ce.derivs[j]
		if len(ds) == 0 {
			return relNone, "no derivation"
		}
		out := relStrict
		for _, d := range ds {
			switch {
			case d.Unknown != "":
				return relNone, d.Unknown
			case d.Leaf:
				// a leaf is strictly smaller than any tree
			case d.Fresh:
				// a fresh container of strict projections of pi is no higher than pi
				if !d.ElemsOK {
					return relNone, "fresh container with untracked contents"
				}
				for _, e := range d.Elems {
					if e.Leaf || (e.Root == pi && e.Strict) {
						continue
					}
					return relNone, "fresh container holding " + e.String()
				}
				if out == relStrict {
					out = relSame
				}
			case d.Root == pi:
				if !d.Strict {
					out = relSame
				}
			default:
				return relNone, fmt.Sprintf("derives from %s, not %s", d.Root.Name(), pi.Name())
			}
		}
		return out, ""
	}
	// candidate parameters
	var fns []*ssa.Function
	for f := range tops {
		fns = append(fns, f)
	}
	sort.Slice(fns, func(i, j int) bool { return p.FuncName(fns[i]) < p.FuncName(fns[j]) })
	cands := map[*ssa.Function][]int{}
	for _, f := range fns {
		for i, q := range f.Params {
			if isTreeType(q.Type()) {
				cands[f] = append(cands[f], i)
			}
		}
		if len(cands[f]) == 0 {
			for _, ce := range edges {
				if ce.to == f || ce.from == f {
					bad[ce.s] = fmt.Sprintf("%s has no tree-typed parameter to descend on", p.FuncName(f))
				}
			}
		}
	}
	if len(bad) > 0 {
		return false, "no structural parameter", bad
	}
	assign := map[*ssa.Function]int{}
	var best map[*ssa.Function]int
	var try func(k int) bool
	consistent := func() bool {
		for _, ce := range edges {
			i, ok1 := assign[ce.from]
			j, ok2 := assign[ce.to]
			if !ok1 || !ok2 {
				continue
			}
			if rl, _ := relOf(ce, ce.from.Params[i], j); rl == relNone {
				return false
			}
		}
		return true
	}
	acyclicNonStrict := func() bool {
		adj := map[*ssa.Function][]*ssa.Function{}
		for _, ce := range edges {
			rl, _ := relOf(ce, ce.from.Params[assign[ce.from]], assign[ce.to])
			if rl == relSame {
				if ok, _ := strictByKeyRemoval(p, ce.s.e, ce.from.Params[assign[ce.from]], assign[ce.to]); ok {
					continue
				}
				adj[ce.from] = append(adj[ce.from], ce.to)
			}
		}
		return findCycle(adj) == nil
	}
	try = func(k int) bool {
		if k == len(fns) {
			if acyclicNonStrict() {
				best = map[*ssa.Function]int{}
				for f, i := range assign {
					best[f] = i
				}
				return true
			}
			return false
		}
		f := fns[k]
		for _, i := range cands[f] {
			assign[f] = i
			if consistent() && try(k+1) {
				return true
			}
		}
		delete(assign, f)
		return false
	}
	if try(0) {
		var parts []string
		for _, f := range fns {
			parts = append(parts, fmt.Sprintf("%s descends on %s", p.FuncName(f), f.Params[best[f]].Name()))
		}
		return true, "structural descent on acyclic data (" + strings.Join(parts, ", ") + "); every cycle contains a strict projection", bad
	}
	// diagnose: edges that have no relation under any parameter choice
	for _, ce := range edges {
		any := false
		why := ""
		for _, i := range cands[ce.from] {
			for _, j := range cands[ce.to] {
				if rl, w := relOf(ce, ce.from.Params[i], j); rl != relNone {
					any = true
				} else if why == "" {
					why = w
				}
			}
		}
		if !any {
			bad[ce.s] = "no argument is a projection of a parameter of the caller (" + why + ")"
		}
	}
	return false, "no assignment of structural parameters makes every cycle strictly decreasing", bad
}

// strictByKeyRemoval (P): the argument is result #k of a helper h(param, "key", ...) that returns
// its map argument with one key removed, and the call site is only reached when the helper's
// boolean result #0 is true (the key was present, so the map is strictly smaller).
func strictByKeyRemoval(p *Prog, e *Edge, callerPar *ssa.Parameter, j int) (bool, string) {
	args := e.Site.Common().Args
	if j >= len(args) {
		return false, ""
	}
	ex, ok := args[j].(*ssa.Extract)
	if !ok {
		return false, ""
	}
	call, ok := ex.Tuple.(*ssa.Call)
	if !ok {
		return false, ""
	}
	h := call.Common().StaticCallee()
	if h == nil || !p.InRepo(h) {
		return false, ""
	}
	if !helperRemovesKeyWhenTrue(p, h) && !helperRemovesPresentKey(p, h, ex.Index) {
		return false, ""
	}
	// site block dominated by the true branch of an If on extract #0 of the same call
	sb := e.Site.Block()
	for _, b := range e.Caller.Blocks {
		iff, ok := b.Instrs[len(b.Instrs)-1].(*ssa.If)
		if !ok {
			continue
		}
		c0, ok := iff.Cond.(*ssa.Extract)
		if !ok || c0.Tuple != call || c0.Index != 0 {
			continue
		}
		t := b.Succs[0]
		if t.Dominates(sb) && len(t.Preds) == 1 {
			return true, fmt.Sprintf("argument is %s's result with one present key removed", p.FuncName(h))
		}
	}
	return false, ""
}

// helperRemovesKeyWhenTrue: every return of h whose first result is not the constant false
// returns a map on which delete(clone, key) has been executed.
func helperRemovesKeyWhenTrue(p *Prog, h *ssa.Function) bool {
	hasDelete := false
	for _, b := range h.Blocks {
		for _, in := range b.Instrs {
			if c, ok := in.(*ssa.Call); ok {
				if bi, ok := c.Common().Value.(*ssa.Builtin); ok && bi.Name() == "delete" {
					// must dominate... the delete is on a clone of the parameter
					hasDelete = true
				}
			}
		}
	}
	if !hasDelete {
		return false
	}
	// the boolean result is true only on paths through the delete: check that the block with
	// delete is entered under the truth of the same value that is returned as result #0.
	for _, b := range h.Blocks {
		for _, in := range b.Instrs {
			c, ok := in.(*ssa.Call)
			if !ok {
				continue
			}
			bi, ok := c.Common().Value.(*ssa.Builtin)
			if !ok || bi.Name() != "delete" {
				continue
			}
			// find the If guarding this block
			if len(b.Preds) != 1 {
				return false
			}
			pb := b.Preds[0]
			iff, ok := pb.Instrs[len(pb.Instrs)-1].(*ssa.If)
			if !ok || pb.Succs[0] != b {
				return false
			}
			// every Return's result #0 must be that condition (or a phi false/true consistent with it)
			for _, rb := range h.Blocks {
				ret, ok := rb.Instrs[len(rb.Instrs)-1].(*ssa.Return)
				if !ok || len(ret.Results) == 0 {
					continue
				}
				r0 := retValue(ret, 0)
				if r0 == iff.Cond {
					continue
				}
				if cst, ok := r0.(*ssa.Const); ok && cst.Value != nil && cst.Value.Kind() == constant.Bool {
					if !constant.BoolVal(cst.Value) {
						continue // returns false: no claim
					}
					if b.Dominates(rb) {
						continue // returns true after the delete
					}
				}
				return false
			}
			return true
		}
	}
	return false
}

// helperRemovesPresentKey: the same fact read from the helper's path summaries (so that it does not depend on
// how the helper is written): on every return whose first result is not false, result #mapIdx is a copy of the
// map parameter from which a key that the map is known to hold has been deleted — a strictly smaller map.
func helperRemovesPresentKey(p *Prog, h *ssa.Function, mapIdx int) bool {
	if h.Blocks == nil || len(h.Params) == 0 {
		return false
	}
	defer func() { _ = recover() }()
	paths := p.Paths(h, PSOpts{})
	if len(paths) == 0 {
		return false
	}
	var mp *ssa.Parameter
	for _, q := range h.Params {
		if _, isMap := q.Type().Underlying().(*types.Map); isMap {
			mp = q
			break
		}
	}
	if mp == nil {
		return false
	}
	isM := func(t *T) bool { return t != nil && t.Op == "param" && t.V == ssa.Value(mp) }
	claims := 0
	for _, pa := range paths {
		if pa.End != "return" || len(pa.Results) <= mapIdx {
			return false
		}
		if pa.Results[0].IsConst("false") {
			continue
		}
		res := pa.Results[mapIdx]
		if !(res.Op == "clone" && len(res.Args) == 1 && isM(res.Args[0])) {
			return false
		}
		removed := false
		for _, e := range pa.Effects {
			if e.Kind == "mapdel" && len(e.Args) == 2 && e.Args[0].String() == res.String() {
				// the key is present in the original
				for _, g := range pa.Guards {
					if g.Kind == "has" && !g.Neg && isM(g.A) && g.B != nil && g.B.String() == e.Args[1].String() {
						removed = true
					}
				}
			}
		}
		if !removed {
			return false
		}
		claims++
	}
	return claims > 0
}

// ---- V: visited guard -------------------------------------------------------------------------

func wrapsSentinel(v ssa.Value, name string, seen map[ssa.Value]bool) bool {
	if v == nil || seen[v] {
		return false
	}
	seen[v] = true
	switch x := v.(type) {
	case *ssa.UnOp:
		if gl, ok := x.X.(*ssa.Global); ok && gl.Name() == name {
			return true
		}
		return wrapsSentinel(x.X, name, seen)
	case *ssa.Call:
		for _, a := range x.Common().Args {
			if wrapsSentinel(a, name, seen) {
				return true
			}
		}
	case *ssa.Extract:
		return wrapsSentinel(x.Tuple, name, seen)
	case *ssa.MakeInterface:
		return wrapsSentinel(x.X, name, seen)
	case *ssa.ChangeInterface:
		return wrapsSentinel(x.X, name, seen)
	case *ssa.Slice:
		// varargs array: look at the stores into it
		if al, ok := x.X.(*ssa.Alloc); ok {
			for _, ref := range *al.Referrers() {
				if ia, ok := ref.(*ssa.IndexAddr); ok {
					for _, r2 := range *ia.Referrers() {
						if st, ok := r2.(*ssa.Store); ok && wrapsSentinel(st.Val, name, seen) {
							return true
						}
					}
				}
			}
		}
	case *ssa.Phi:
		for _, e := range x.Edges {
			if wrapsSentinel(e, name, seen) {
				return true
			}
		}
	}
	return false
}

// dependsOnParam: is parameter par in the backward slice of v (within the function)?
func dependsOnParam(v ssa.Value, par *ssa.Parameter, seen map[ssa.Value]bool) bool {
	if v == nil || seen[v] {
		return false
	}
	seen[v] = true
	if v == par {
		return true
	}
	if in, ok := v.(ssa.Instruction); ok {
		for _, op := range in.Operands(nil) {
			if *op != nil && dependsOnParam(*op, par, seen) {
				return true
			}
		}
	}
	if u, ok := v.(*ssa.UnOp); ok && u.Op == token.MUL {
		if al, ok := u.X.(*ssa.Alloc); ok {
			for _, s := range cellStores(al) {
				if dependsOnParam(s, par, seen) {
					return true
				}
			}
		}
	}
	return false
}

func visitedGuarded(p *Prog, e *Edge) (bool, string) {
	if e.Kind == "funcarg" || e.Kind == "extcallback" {
		return false, ""
	}
	fn := e.Caller
	site := e.Site
	sb := site.Block()
	callee := e.Callee
	args := site.Common().Args
	for _, rb := range fn.Blocks {
		isCirc := false
		if ret, ok := rb.Instrs[len(rb.Instrs)-1].(*ssa.Return); ok {
			for ri := range ret.Results {
				res := retValue(ret, ri)
				if isErrorType(res.Type()) && wrapsSentinel(res, "ErrCircularRef", map[ssa.Value]bool{}) {
					isCirc = true
				}
			}
		}
		// functions that keep their results in cells (defer, range-over-func loops) return by storing into the
		// error cell and jumping to a shared exit
		for _, in := range rb.Instrs {
			if st, ok := in.(*ssa.Store); ok && isErrorType(st.Val.Type()) {
				if _, isCell := st.Addr.(*ssa.Alloc); isCell && wrapsSentinel(st.Val, "ErrCircularRef", map[ssa.Value]bool{}) {
					isCirc = true
				}
			}
		}
		if !isCirc {
			continue
		}
		// controlling If of rb
		for _, ib := range fn.Blocks {
			iff, ok := ib.Instrs[len(ib.Instrs)-1].(*ssa.If)
			if !ok {
				continue
			}
			controls := false
			for _, s := range ib.Succs {
				if s == rb || (len(s.Instrs) == 1 && len(s.Succs) == 1 && s.Succs[0] == rb) {
					controls = true
				}
			}
			if !controls {
				continue
			}
			for pi, par := range fn.Params {
				if !isTreeType(par.Type()) {
					continue
				}
				if !dependsOnParam(iff.Cond, par, map[ssa.Value]bool{}) {
					continue
				}
				// a membership test in a set handed down as another parameter is judged on that parameter (the set
				// must gain the key before the call and lose only that key afterwards), not on the value it is keyed by
				if sp := lookupSetParam(iff.Cond, map[ssa.Value]bool{}); sp != nil && sp != par {
					continue
				}
				// the test precedes the site
				precedes := ib.Dominates(sb) && ib != sb
				if !precedes {
					// loop form: the test sits in a loop that is left before the site is reached
					if hdr := loopHeaderOf(ib); hdr != nil && hdr.Dominates(sb) && !inLoop(hdr, sb) {
						precedes = true
					}
				}
				if !precedes {
					continue
				}
				// the recursive call must extend the structure at the corresponding position
				cj := -1
				if callee == fn {
					cj = pi
				} else {
					for j, cp := range callee.Params {
						if cp.Name() == par.Name() && types.Identical(cp.Type(), par.Type()) {
							cj = j
						}
					}
				}
				if cj < 0 || cj >= len(args) {
					continue
				}
				arg := args[cj]
				if arg == ssa.Value(par) {
					// same set: must have been extended before the call
					if mapUpdateDominates(fn, par, sb, site) {
						if why := foreignRemoval(fn, par); why != "" {
							continue // the set can lose the marks of callers that are still open: no guard (seed C08-m)
						}
						return true, fmt.Sprintf("membership test on %s returns ErrCircularRef before the call; the set receives the key before the call", par.Name())
					}
					continue
				}
				if c, ok := arg.(*ssa.Const); ok && c.IsNil() {
					continue
				}
				if dependsOnParam(arg, par, map[ssa.Value]bool{}) {
					return true, fmt.Sprintf("membership test on the chain %s returns ErrCircularRef before the call; the call passes a new node built from %s", par.Name(), par.Name())
				}
			}
		}
	}
	return false, ""
}

// lookupSetParam: the map-typed parameter whose element lookup v is computed from, if any.
func lookupSetParam(v ssa.Value, seen map[ssa.Value]bool) *ssa.Parameter {
	if v == nil || seen[v] {
		return nil
	}
	seen[v] = true
	if lk, ok := v.(*ssa.Lookup); ok {
		if par, ok := lk.X.(*ssa.Parameter); ok {
			if _, isMap := par.Type().Underlying().(*types.Map); isMap {
				return par
			}
		}
	}
	if in, ok := v.(ssa.Instruction); ok {
		for _, op := range in.Operands(nil) {
			if *op != nil {
				if par := lookupSetParam(*op, seen); par != nil {
					return par
				}
			}
		}
	}
	return nil
}

// foreignRemoval: the function removes from the visited set something other than the key it added itself
// (clear(set), or delete(set, k) for a k it never stored): an enclosing activation's mark can then disappear
// while that activation is still open, and the membership test no longer sees the cycle.
func foreignRemoval(fn *ssa.Function, par *ssa.Parameter) string {
	added := map[string]bool{}
	for _, b := range fn.Blocks {
		for _, in := range b.Instrs {
			if mu, ok := in.(*ssa.MapUpdate); ok && mu.Map == ssa.Value(par) {
				if ap := accessPath(mu.Key); ap != "" {
					added[ap] = true
				}
			}
		}
	}
	for _, f := range append([]*ssa.Function{fn}, allAnon(fn)...) {
		for _, b := range f.Blocks {
			for _, in := range b.Instrs {
				var cc *ssa.CallCommon
				switch x := in.(type) {
				case *ssa.Call:
					cc = x.Common()
				case *ssa.Defer:
					cc = x.Common()
				case *ssa.Go:
					cc = x.Common()
				}
				if cc == nil {
					continue
				}
				bi, ok := cc.Value.(*ssa.Builtin)
				if !ok || len(cc.Args) == 0 {
					continue
				}
				isSet := cc.Args[0] == ssa.Value(par)
				if !isSet && f != fn {
					// a literal of fn reaching the set through a captured variable
					if u, ok := cc.Args[0].(*ssa.UnOp); ok {
						if fv, ok := u.X.(*ssa.FreeVar); ok && fv.Name() == par.Name() {
							isSet = true
						}
					}
					if fv, ok := cc.Args[0].(*ssa.FreeVar); ok && fv.Name() == par.Name() {
						isSet = true
					}
				}
				if !isSet {
					continue
				}
				switch bi.Name() {
				case "clear":
					return "clear(" + par.Name() + ")"
				case "delete":
					if len(cc.Args) < 2 || !added[accessPath(cc.Args[1])] {
						return "delete of a key this activation did not add"
					}
				}
			}
		}
	}
	return ""
}

func mapUpdateDominates(fn *ssa.Function, par *ssa.Parameter, sb *ssa.BasicBlock, site ssa.CallInstruction) bool {
	for _, b := range fn.Blocks {
		for _, in := range b.Instrs {
			mu, ok := in.(*ssa.MapUpdate)
			if !ok || mu.Map != ssa.Value(par) {
				continue
			}
			if b == sb {
				for _, x := range b.Instrs {
					if x == in {
						return true
					}
					if x == site.(ssa.Instruction) {
						break
					}
				}
			} else if b.Dominates(sb) {
				return true
			}
		}
	}
	return false
}

// natural loop helpers (back edge t->h where h dominates t)
func loopHeaderOf(b *ssa.BasicBlock) *ssa.BasicBlock {
	fn := b.Parent()
	var best *ssa.BasicBlock
	for _, h := range fn.Blocks {
		if inLoop(h, b) {
			if best == nil || best.Dominates(h) {
				best = h
			}
		}
	}
	return best
}

// inLoop: is b in the natural loop headed by h?
func inLoop(h, b *ssa.BasicBlock) bool {
	if !h.Dominates(b) {
		return false
	}
	// collect loop body: nodes that can reach a back-edge source without passing h
	body := map[*ssa.BasicBlock]bool{h: true}
	var stack []*ssa.BasicBlock
	for _, t := range h.Preds {
		if h.Dominates(t) {
			if !body[t] {
				body[t] = true
				stack = append(stack, t)
			}
		}
	}
	if len(body) == 1 {
		selfLoop := false
		for _, t := range h.Preds {
			if t == h {
				selfLoop = true
			}
		}
		if !selfLoop {
			return false
		}
	}
	for len(stack) > 0 {
		x := stack[len(stack)-1]
		stack = stack[:len(stack)-1]
		for _, pr := range x.Preds {
			if !body[pr] {
				body[pr] = true
				stack = append(stack, pr)
			}
		}
	}
	return body[b]
}

// ---- C: constant-literal re-entry -------------------------------------------------------------

// constLiteralReentry: the call passes a freshly built literal of string constants to the
// callee's dispatch parameter, and the caller is reached from the callee only by dispatching on
// a constant (switch case) that none of the literal's elements can select.
func constLiteralReentry(p *Prog, e *Edge) (bool, string) {
	if e.Kind != "static" {
		return false, ""
	}
	// the case constant under which the site executes: walk up dominating Ifs comparing a string with a constant
	sb := e.Site.Block()
	var caseConsts []string
	for _, b := range e.Caller.Blocks {
		iff, ok := b.Instrs[len(b.Instrs)-1].(*ssa.If)
		if !ok {
			continue
		}
		bo, ok := iff.Cond.(*ssa.BinOp)
		if !ok || bo.Op != token.EQL {
			continue
		}
		c, ok := bo.Y.(*ssa.Const)
		if !ok || c.Value == nil || c.Value.Kind() != constant.String {
			continue
		}
		if b.Succs[0].Dominates(sb) && len(b.Succs[0].Preds) == 1 {
			caseConsts = append(caseConsts, constant.StringVal(c.Value))
		}
	}
	if len(caseConsts) == 0 {
		return false, ""
	}
	// a constant string passed directly as the dispatch parameter of a self-call: the case constants must be
	// compared against something computed from that very parameter
	if e.Callee == e.Caller {
		for i, a := range e.Site.Common().Args {
			c, ok := a.(*ssa.Const)
			if !ok || c.Value == nil || c.Value.Kind() != constant.String || i >= len(e.Caller.Params) {
				continue
			}
			el := constant.StringVal(c.Value)
			head := el
			if j := strings.IndexAny(el, ":"); j >= 0 {
				head = el[:j]
			}
			par := e.Caller.Params[i]
			selects, dispatchOnParam := false, true
			for _, b := range e.Caller.Blocks {
				iff, ok := b.Instrs[len(b.Instrs)-1].(*ssa.If)
				if !ok {
					continue
				}
				bo, ok := iff.Cond.(*ssa.BinOp)
				if !ok || bo.Op != token.EQL {
					continue
				}
				cc, ok := bo.Y.(*ssa.Const)
				if !ok || cc.Value == nil || cc.Value.Kind() != constant.String {
					continue
				}
				if !(b.Succs[0].Dominates(sb) && len(b.Succs[0].Preds) == 1) {
					continue
				}
				if !computedFromParam(bo.X, par, 0) {
					dispatchOnParam = false
				}
				if s := constant.StringVal(cc.Value); s == head || s == el {
					selects = true
				}
			}
			if dispatchOnParam && !selects {
				return true, fmt.Sprintf("self-call with the constant %q for parameter %s under case %q, which that constant does not select", el, par.Name(), caseConsts)
			}
		}
	}
	for _, a := range e.Site.Common().Args {
		var sl *ssa.Slice
		switch x := a.(type) {
		case *ssa.Slice:
			sl = x
		case *ssa.MakeInterface:
			if s, ok := x.X.(*ssa.Slice); ok {
				sl = s
			}
		}
		if sl == nil {
			continue
		}
		al, ok := sl.X.(*ssa.Alloc)
		if !ok {
			continue
		}
		var elems []string
		allConst := true
		for _, ref := range *al.Referrers() {
			ia, ok := ref.(*ssa.IndexAddr)
			if !ok {
				continue
			}
			for _, r2 := range *ia.Referrers() {
				st, ok := r2.(*ssa.Store)
				if !ok {
					continue
				}
				v := st.Val
				if mi, ok := v.(*ssa.MakeInterface); ok {
					v = mi.X
				}
				c, ok := v.(*ssa.Const)
				if !ok || c.Value == nil || c.Value.Kind() != constant.String {
					allConst = false
					continue
				}
				elems = append(elems, constant.StringVal(c.Value))
			}
		}
		if !allConst || len(elems) == 0 {
			continue
		}
		selects := false
		for _, el := range elems {
			head := el
			if i := strings.IndexAny(el, ":"); i >= 0 {
				head = el[:i]
			}
			for _, cc := range caseConsts {
				if head == cc || el == cc {
					selects = true
				}
			}
		}
		if !selects {
			sort.Strings(elems)
			return true, fmt.Sprintf("re-entry with the constant literal %q under case %q, which no element of the literal selects", elems, caseConsts)
		}
	}
	return false, ""
}

// computedFromParam: v is computed from the parameter only (loads, indexing, strings.Split/SplitN/Cut/TrimPrefix of it).
func computedFromParam(v ssa.Value, par *ssa.Parameter, depth int) bool {
	if depth > 8 {
		return false
	}
	switch x := v.(type) {
	case *ssa.Parameter:
		return x == par
	case *ssa.UnOp:
		return computedFromParam(x.X, par, depth+1)
	case *ssa.IndexAddr:
		return computedFromParam(x.X, par, depth+1)
	case *ssa.Index:
		return computedFromParam(x.X, par, depth+1)
	case *ssa.Slice:
		return computedFromParam(x.X, par, depth+1)
	case *ssa.Extract:
		return computedFromParam(x.Tuple, par, depth+1)
	case *ssa.Call:
		if f := x.Call.StaticCallee(); f != nil && f.Pkg != nil && f.Pkg.Pkg.Path() == "strings" {
			switch f.Name() {
			case "Split", "SplitN", "Cut", "TrimPrefix", "TrimSuffix":
				return computedFromParam(x.Call.Args[0], par, depth+1)
			}
		}
	}
	return false
}

// subComponents groups the remaining edges by the cycles they lie on (SCCs of the graph they
// span); edges that are on no cycle are dropped.
func subComponents(sites []*recSite) [][]*recSite {
	adj := map[*ssa.Function][]*ssa.Function{}
	nodes := map[*ssa.Function]bool{}
	for _, s := range sites {
		adj[s.e.Caller] = append(adj[s.e.Caller], s.e.Callee)
		nodes[s.e.Caller] = true
		nodes[s.e.Callee] = true
	}
	var order []*ssa.Function
	for f := range nodes {
		order = append(order, f)
	}
	sort.Slice(order, func(i, j int) bool { return order[i].String() < order[j].String() })
	index := map[*ssa.Function]int{}
	low := map[*ssa.Function]int{}
	on := map[*ssa.Function]bool{}
	comp := map[*ssa.Function]int{}
	var stack []*ssa.Function
	n, nc := 0, 0
	var strong func(v *ssa.Function)
	strong = func(v *ssa.Function) {
		index[v], low[v] = n, n
		n++
		stack = append(stack, v)
		on[v] = true
		for _, w := range adj[v] {
			if _, ok := index[w]; !ok {
				strong(w)
				if low[w] < low[v] {
					low[v] = low[w]
				}
			} else if on[w] && index[w] < low[v] {
				low[v] = index[w]
			}
		}
		if low[v] == index[v] {
			for {
				w := stack[len(stack)-1]
				stack = stack[:len(stack)-1]
				on[w] = false
				comp[w] = nc
				if w == v {
					break
				}
			}
			nc++
		}
	}
	for _, f := range order {
		if _, ok := index[f]; !ok {
			strong(f)
		}
	}
	groups := map[int][]*recSite{}
	for _, s := range sites {
		if comp[s.e.Caller] == comp[s.e.Callee] {
			groups[comp[s.e.Caller]] = append(groups[comp[s.e.Caller]], s)
		}
	}
	var out [][]*recSite
	for i := 0; i < nc; i++ {
		if len(groups[i]) > 0 {
			out = append(out, groups[i])
		}
	}
	return out
}

// guardedEdge: the call is made by a guard function, only after its "counter+k > limit" test
// failed (i.e. the limit is not exceeded), and passes the incremented counter on.
func guardedEdge(p *Prog, e *Edge, calleeDepth *ssa.Parameter) bool {
	fn := e.Caller
	if e.Kind == "funcarg" || e.Kind == "extcallback" {
		return false
	}
	sb := e.Site.Block()
	for _, b := range fn.Blocks {
		iff, ok := b.Instrs[len(b.Instrs)-1].(*ssa.If)
		if !ok {
			continue
		}
		bo, ok := iff.Cond.(*ssa.BinOp)
		if !ok || (bo.Op != token.GTR && bo.Op != token.GEQ) {
			continue
		}
		if _, isC := bo.Y.(*ssa.Const); !isC {
			continue
		}
		par, inc, ok := intOrigin(p, bo.X, map[ssa.Value]bool{})
		if !ok || inc < 1 || par.Parent() != fn || !blockReturnsError(b.Succs[0]) {
			continue
		}
		pass := b.Succs[1]
		if !(pass == sb || pass.Dominates(sb)) {
			continue
		}
		// the counter handed on is at least the tested (incremented) value
		if calleeDepth == nil {
			continue
		}
		j := paramIndex(e.Callee, calleeDepth)
		args := e.Site.Common().Args
		if j < 0 || j >= len(args) {
			continue
		}
		q, ainc, ok := intOrigin(p, args[j], map[ssa.Value]bool{})
		if ok && q == par && ainc >= inc {
			return true
		}
	}
	return false
}
