package main

// CEN — whole-program censuses with expected sets.

import (
	"fmt"
	"go/constant"
	"go/token"
	"go/types"
	"sort"
	"strings"

	"golang.org/x/tools/go/ssa"
)

type callSite struct {
	Fn     *ssa.Function
	Instr  ssa.CallInstruction
	Callee *ssa.Function // static callee (nil for dynamic/invoke)
	Name   string        // qualified callee name (origin name for generic instances)
}

func calleeFullName(c *ssa.CallCommon) (string, *ssa.Function) {
	if c.IsInvoke() {
		return "invoke " + c.Method.FullName(), nil
	}
	sc := c.StaticCallee()
	if sc == nil {
		if b, ok := c.Value.(*ssa.Builtin); ok {
			return "builtin " + b.Name(), nil
		}
		return "dynamic", nil
	}
	if o := sc.Origin(); o != nil {
		return o.String(), sc
	}
	return sc.String(), sc
}

// allCalls lists every call instruction of the given functions.
func allCalls(fns []*ssa.Function) []callSite {
	var out []callSite
	for _, fn := range fns {
		for _, b := range fn.Blocks {
			for _, in := range b.Instrs {
				if ci, ok := in.(ssa.CallInstruction); ok {
					name, sc := calleeFullName(ci.Common())
					out = append(out, callSite{fn, ci, sc, name})
				}
			}
		}
	}
	return out
}

// samePkgClosure: fn and the functions of its own package that it reaches through static calls (a main whose
// body has been moved into run(), a step split into helpers): the unit a rule about "what main does" looks at.
func samePkgClosure(fn *ssa.Function) []*ssa.Function {
	seen := map[*ssa.Function]bool{fn: true}
	out := []*ssa.Function{fn}
	for i := 0; i < len(out); i++ {
		for _, cs := range allCalls([]*ssa.Function{out[i]}) {
			sc := cs.Callee
			if sc == nil || seen[sc] || sc.Blocks == nil || fnPkg(sc) == nil || fnPkg(sc) != fnPkg(fn) {
				continue
			}
			seen[sc] = true
			out = append(out, sc)
		}
		for _, an := range out[i].AnonFuncs {
			if !seen[an] {
				seen[an] = true
				out = append(out, an)
			}
		}
	}
	return out
}

// evaluationFuncs: repo functions reachable from the library's evaluation API (package bkl
// exported functions and methods), i.e. everything an evaluation can execute.
func (p *Prog) evaluationFuncs() []*ssa.Function {
	var roots []*ssa.Function
	for _, fn := range p.Entries() {
		pk := fnPkg(fn)
		if pk != nil && shortPkg(pk.Pkg.Path()) == "bkl" {
			roots = append(roots, fn)
		}
	}
	for _, fn := range p.Funcs {
		if fn.Signature.Recv() != nil && (fn.Name() == "String" || fn.Name() == "Error") {
			roots = append(roots, fn)
		}
	}
	reach := p.CG().Reachable(roots...)
	var out []*ssa.Function
	for _, fn := range p.Funcs {
		if reach[fn] {
			out = append(out, fn)
		}
	}
	return out
}

// ---- C09.global -------------------------------------------------------------------------------

func isInitFunc(fn *ssa.Function) bool {
	t := topFunc(fn)
	return t.Name() == "init" || strings.HasPrefix(t.Name(), "init#")
}

// globalOf: the package-level variable a value is loaded from (directly), if any.
func globalOf(v ssa.Value) *ssa.Global {
	switch x := v.(type) {
	case *ssa.Global:
		return x
	case *ssa.UnOp:
		if x.Op == token.MUL {
			return globalOf(x.X)
		}
	case *ssa.FieldAddr:
		return globalOf(x.X)
	case *ssa.IndexAddr:
		return globalOf(x.X)
	case *ssa.TypeAssert:
		return globalOf(x.X)
	case *ssa.ChangeType:
		return globalOf(x.X)
	case *ssa.Slice:
		return globalOf(x.X)
	}
	return nil
}

func (p *Prog) isRepoGlobal(g *ssa.Global) bool {
	return g != nil && g.Pkg != nil && isRepoPkgPath(g.Pkg.Pkg.Path())
}

func ruleGlobals(p *Prog, r *Result) {
	nGlobals := 0
	for _, sp := range p.SSAPkg {
		for _, m := range sp.Members {
			if _, ok := m.(*ssa.Global); ok {
				nGlobals++
			}
		}
	}
	r.Count("package_level_variables", nGlobals)
	nwrites := 0
	for _, fn := range p.Funcs {
		if isInitFunc(fn) {
			continue
		}
		for _, b := range fn.Blocks {
			for _, in := range b.Instrs {
				var g *ssa.Global
				what := ""
				switch x := in.(type) {
				case *ssa.Store:
					g = globalOf(x.Addr)
					what = "store to"
				case *ssa.MapUpdate:
					g = globalOf(x.Map)
					what = "map assignment on"
				case *ssa.Call:
					if bi, ok := x.Common().Value.(*ssa.Builtin); ok && (bi.Name() == "delete" || bi.Name() == "copy") {
						g = globalOf(x.Common().Args[0])
						what = bi.Name() + " on"
					}
				}
				if g == nil {
					continue
				}
				if !p.isRepoGlobal(g) {
					// writes to another package's variable (os.Args, flag.CommandLine, ...) are equally global state
					if g.Pkg != nil && g.Pkg.Pkg.Path() == "os" && topFunc(fn).Name() == "main" {
						continue
					}
				}
				nwrites++
				r.Fail("C09.global", fmt.Sprintf("%s / %s package variable %s", p.FuncName(fn), what, g.Name()), p.InstrPos(in),
					"package-level state is written outside package initialisation: two evaluations in one process (or two successive ones) can influence each other")
			}
		}
	}
	// package-level variables whose type is shared mutable state by construction (pools, concurrent maps,
	// atomics, channels): whatever is cached or queued there outlives one evaluation
	for _, sp := range p.SSAPkg {
		if sp.Pkg == nil || !isRepoPkgPath(sp.Pkg.Path()) {
			continue
		}
		for _, name := range sortedKeys(sp.Members) {
			g, ok := sp.Members[name].(*ssa.Global)
			if !ok {
				continue
			}
			if isSyncPool(g.Type().(*types.Pointer).Elem()) {
				continue // decided by C09.pool: what is taken from the pool must not outlive the call
			}
			if why := sharedStateType(g.Type().(*types.Pointer).Elem(), 0); why != "" {
				nwrites++
				r.Fail("C09.global", fmt.Sprintf("%s / package variable %s holds %s", shortPkg(sp.Pkg.Path()), g.Name(), why), p.Pos(g.Pos()),
					"process-wide mutable state: what one evaluation leaves there (a recycled buffer, a cached value) is visible to the next or to a concurrent one, so results depend on what else ran in the process")
			}
		}
	}
	// package-level objects of library types built by a constructor (a hasher, a buffer, a random source, an
	// encoder): they carry state from one use to the next. Immutable ones are listed.
	immutableCtor := map[string]bool{"regexp.MustCompile": true, "regexp.Compile": true, "errors.New": true, "fmt.Errorf": true}
	for _, sp := range p.SSAPkg {
		if sp.Pkg == nil || !isRepoPkgPath(sp.Pkg.Path()) {
			continue
		}
		init := sp.Func("init")
		if init == nil {
			continue
		}
		for _, fn := range append([]*ssa.Function{init}, allAnon(init)...) {
			for _, b := range fn.Blocks {
				for _, in := range b.Instrs {
					st, ok := in.(*ssa.Store)
					if !ok {
						continue
					}
					g, ok := st.Addr.(*ssa.Global)
					if !ok {
						continue
					}
					v := st.Val
					if mi, ok := v.(*ssa.MakeInterface); ok {
						v = mi.X
					}
					call, ok := v.(*ssa.Call)
					if !ok {
						continue
					}
					sc := call.Call.StaticCallee()
					if sc == nil || p.InRepo(sc) {
						continue
					}
					name, _ := calleeFullName(&call.Call)
					if immutableCtor[name] || (sc.Pkg != nil && sc.Pkg.Pkg.Path() == "sync") {
						continue // sync.Once* wrappers are C09.memo's business
					}
					switch call.Type().Underlying().(type) {
					case *types.Pointer, *types.Interface, *types.Map, *types.Slice, *types.Chan, *types.Signature:
						nwrites++
						r.Fail("C09.global", fmt.Sprintf("%s / package variable %s holds an object made by %s", shortPkg(sp.Pkg.Path()), g.Name(), name), p.InstrPos(in),
							"a library object shared by the whole process keeps the state one evaluation leaves in it (a hasher keeps hashing, a buffer keeps its bytes): later results depend on earlier evaluations")
					}
				}
			}
		}
	}
	// the address of a repo variable handed to code outside the repository (pointer-receiver methods of library types)
	for _, cs := range allCalls(p.Funcs) {
		if isInitFunc(cs.Fn) || cs.Callee == nil || p.InRepo(cs.Callee) {
			continue
		}
		for _, a := range cs.Instr.Common().Args {
			if g := addressOfGlobal(a); p.isRepoGlobal(g) {
				if isSyncPool(g.Type().(*types.Pointer).Elem()) {
					continue // C09.pool
				}
				nwrites++
				r.Fail("C09.global", fmt.Sprintf("%s / address of package variable %s passed to %s", p.FuncName(cs.Fn), g.Name(), cs.Name), p.InstrPos(cs.Instr),
					"code outside the repository receives a pointer to package-level state and may change it at any call")
			}
		}
	}
	// address of a repo global escaping to a callee that may write it
	own := p.Own()
	for _, cs := range allCalls(p.Funcs) {
		if isInitFunc(cs.Fn) || cs.Callee == nil {
			continue
		}
		for j, a := range cs.Instr.Common().Args {
			g := globalOf(a)
			if !p.isRepoGlobal(g) || !isRefType(a.Type()) {
				continue
			}
			if own.CalleeMutates(cs.Callee, j) {
				nwrites++
				r.Fail("C09.global", fmt.Sprintf("%s / package variable %s passed to %s", p.FuncName(cs.Fn), g.Name(), cs.Name), p.InstrPos(cs.Instr),
					"a package-level container is handed to a function that writes into its argument")
			}
		}
	}
	if nwrites == 0 {
		r.OK("C09.global", "no write to package-level state outside init", "", fmt.Sprintf("%d package-level variables; every Store/MapUpdate/delete/copy in %d functions inspected, none targets one outside package initialisation", nGlobals, len(p.Funcs)))
	}
	r.Floor("C09.global", "package-level variables seen", nGlobals, 25)
}

// ---- C09.source -------------------------------------------------------------------------------

var nondetCallees = []struct{ prefix, why string }{
	{"time.Now", "wall clock"},
	{"time.Since", "wall clock"},
	{"time.Until", "wall clock"},
	{"time.After", "timer"},
	{"time.Tick", "timer"},
	{"time.NewTimer", "timer"},
	{"time.NewTicker", "timer"},
	{"math/rand.", "pseudo-random numbers"},
	{"math/rand/v2.", "pseudo-random numbers"},
	{"crypto/rand.", "random numbers"},
	{"os.Getpid", "process identity"},
	{"os.Getppid", "process identity"},
	{"os.Hostname", "host identity"},
	{"os.Getwd", "working directory"},
	{"os.CreateTemp", "random file name"},
	{"os.MkdirTemp", "random file name"},
	{"os.TempDir", "environment-dependent path"},
	{"runtime.NumGoroutine", "scheduler state"},
	{"runtime.Caller", "build-dependent"},
	{"runtime.Stack", "scheduler state"},
	{"maps.Keys", "map iteration order"},
	{"maps.Values", "map iteration order"},
	{"maps.All", "map iteration order"},
	{"maps.Collect", "map iteration order"},
	{"golang.org/x/exp/maps.Keys", "map iteration order"},
	{"golang.org/x/exp/maps.Values", "map iteration order"},
	{"github.com/samber/lo.Keys", "map iteration order"},
	{"github.com/samber/lo.Values", "map iteration order"},
	{"(reflect.Value).MapKeys", "map iteration order"},
	{"(reflect.Value).MapRange", "map iteration order"},
	{"(*sync.Map).Range", "map iteration order"},
}

func ruleNondetSources(p *Prog, r *Result) {
	fns := p.evaluationFuncs()
	r.Count("evaluation_functions", len(fns))
	calls := allCalls(fns)
	r.Count("evaluation_call_sites", len(calls))
	bad := 0
	sortedKeys := 0
	for _, cs := range calls {
		for _, nd := range nondetCallees {
			if !(cs.Name == nd.prefix || (strings.HasSuffix(nd.prefix, ".") && strings.HasPrefix(cs.Name, nd.prefix))) {
				continue
			}
			if nd.why == "map iteration order" && feedsSorted(cs.Instr) {
				sortedKeys++
				r.OK("C09.source", fmt.Sprintf("%s / %s", p.FuncName(cs.Fn), cs.Name), p.InstrPos(cs.Instr), "the key sequence is consumed only by slices.Sorted")
				continue
			}
			bad++
			r.Fail("C09.source", fmt.Sprintf("%s / call of %s", p.FuncName(cs.Fn), cs.Name), p.InstrPos(cs.Instr), "nondeterminism source reachable from evaluation: "+nd.why)
		}
	}
	for _, fn := range fns {
		for _, b := range fn.Blocks {
			for _, in := range b.Instrs {
				switch x := in.(type) {
				case *ssa.Go:
					bad++
					r.Fail("C09.source", p.FuncName(fn)+" / go statement", p.InstrPos(in), "goroutine started during evaluation")
				case *ssa.Send, *ssa.Select, *ssa.MakeChan:
					bad++
					r.Fail("C09.source", p.FuncName(fn)+" / channel operation", p.InstrPos(in), "channel operation during evaluation")
				case *ssa.UnOp:
					if x.Op == token.ARROW {
						bad++
						r.Fail("C09.source", p.FuncName(fn)+" / channel receive", p.InstrPos(in), "channel operation during evaluation")
					}
				}
			}
		}
	}
	// %p in constant format strings
	for _, cs := range calls {
		if !strings.HasPrefix(cs.Name, "fmt.") && !strings.HasPrefix(cs.Name, "log.") {
			continue
		}
		for _, a := range cs.Instr.Common().Args {
			if c, ok := a.(*ssa.Const); ok && c.Value != nil && c.Value.Kind() == constant.String {
				if strings.Contains(constant.StringVal(c.Value), "%p") {
					bad++
					r.Fail("C09.source", p.FuncName(cs.Fn)+" / %p format", p.InstrPos(cs.Instr), "pointer values are formatted into text")
				}
			}
		}
	}
	if bad == 0 {
		r.OK("C09.source", "no nondeterminism source reachable from evaluation", "", fmt.Sprintf("%d call sites in %d functions reachable from the package bkl API checked against %d forbidden callees; no go statement, channel operation or %%p format", len(calls), len(fns), len(nondetCallees)))
	}
	r.Floor("C09.source", "call sites examined", len(calls), 400)
	// the other spelling of a sorted enumeration: a native range that only collects the keys, which are sorted
	// before anything reads them (ORD shape S5)
	for _, fn := range fns {
		for _, l := range findMapLoops(p, fn) {
			for _, in := range l.header.Instrs {
				if phi, ok := in.(*ssa.Phi); ok && collectsKeysThenSorts(l, phi) {
					sortedKeys++
				}
			}
		}
	}
	r.Floor("C09.source", "sorted key enumerations (sortedMap)", sortedKeys, 1)
}

// feedsSorted: the call's result is used only as the argument of slices.Sorted.
func feedsSorted(ci ssa.CallInstruction) bool {
	v := ci.Value()
	if v == nil || v.Referrers() == nil {
		return false
	}
	n := 0
	for _, ref := range *v.Referrers() {
		switch x := ref.(type) {
		case *ssa.DebugRef:
		case *ssa.Call:
			name, _ := calleeFullName(x.Common())
			switch name {
			case "slices.Sorted":
				n++
			case "slices.Collect":
				// keys := slices.Collect(maps.Keys(m)); slices.Sort(keys) before anything else reads keys
				if !sortedBeforeUse(x) {
					return false
				}
				n++
			default:
				return false
			}
		default:
			return false
		}
	}
	return n > 0
}

// sortedBeforeUse: the slice value is handed to slices.Sort / sort.Strings, and that call dominates every other use.
func sortedBeforeUse(v *ssa.Call) bool {
	if v.Referrers() == nil {
		return false
	}
	var sortCall ssa.Instruction
	var others []ssa.Instruction
	for _, ref := range *v.Referrers() {
		if _, isDbg := ref.(*ssa.DebugRef); isDbg {
			continue
		}
		if c, ok := ref.(*ssa.Call); ok {
			name, _ := calleeFullName(c.Common())
			if (name == "slices.Sort" || name == "sort.Strings") && sortCall == nil {
				sortCall = c
				continue
			}
		}
		others = append(others, ref)
	}
	if sortCall == nil {
		return false
	}
	for _, o := range others {
		sb, ob := sortCall.Block(), o.Block()
		if sb == ob {
			if instrIndex(sortCall) > instrIndex(o) {
				return false
			}
			continue
		}
		if !sb.Dominates(ob) {
			return false
		}
	}
	return true
}

// ---- C09.sorted: the sortedMap primitive ------------------------------------------------------

func ruleSortedMap(p *Prog, r *Result) {
	var inner *ssa.Function
	for _, fn := range p.Funcs {
		if fn.Parent() != nil && p.FuncName(fn.Parent()) == "bkl.sortedMap" {
			inner = fn
		}
	}
	if inner == nil {
		r.Undecided("C09.sorted", "bkl.sortedMap", "", "iterator closure of sortedMap not found")
		return
	}
	outer := inner.Parent()
	pos := p.Pos(outer.Pos())
	// the map the closure enumerates is the function's parameter
	mapFree := ""
	for _, fv := range inner.FreeVars {
		if fv.Referrers() == nil {
			continue
		}
		for _, ref := range *fv.Referrers() {
			ld, ok := ref.(*ssa.UnOp)
			if !ok || ld.Op != token.MUL {
				continue
			}
			for _, d := range p.Derive(ld, nil) {
				if d.Root != nil && d.Root.Parent() == outer && !d.Strict {
					mapFree = fv.Name()
				}
			}
		}
	}
	if mapFree == "" {
		r.Fail("C09.sorted", "bkl.sortedMap / key set", pos, "the iterator does not enumerate the map parameter")
		return
	}
	// path summaries of the iterator body, after the usual normalisation (keys collected and then sorted are
	// slices.Sorted(maps.Keys(m)))
	pr := newPSRule(p, r, "C09.sorted", p.FuncName(inner), PSOpts{})
	isM := func(t *T) bool { return t != nil && t.Op == "freeval" && t.Name == mapFree }
	sortedKeys := func(t *T) bool {
		return t != nil && t.Op == "call" && t.Name == "slices.Sorted" && len(t.Args) == 1 && t.Args[0].Op == "call" && t.Args[0].Name == "maps.Keys" && len(t.Args[0].Args) == 1 && isM(t.Args[0].Args[0])
	}
	theLoop := func(pa *Path) int { // polarity of "more keys" in the range over the sorted keys
		for i := len(pa.Guards) - 1; i >= 0; i-- {
			g := pa.Guards[i]
			if g.Kind == "itermore" && g.A != nil && g.A.Op == "range" && len(g.A.Args) == 1 {
				if !sortedKeys(g.A.Args[0]) {
					if isM(g.A.Args[0]) && g.Neg {
						continue // the finished key-collecting loop
					}
					return -2
				}
				if g.Neg {
					return -1
				}
				return 1
			}
		}
		return 0
	}
	yieldOf := func(pa *Path) (n int, ok bool) {
		ok = true
		for _, e := range pa.Effects {
			if e.Kind != "dyncall" {
				continue
			}
			n++
			// dyncall args: the function value, then k, v
			if len(e.Args) != 3 || e.Args[0].Op != "param" {
				ok = false
				continue
			}
			k, v := e.Args[1], e.Args[2]
			if !(k.Op == "elem" && len(k.Args) == 1 && sortedKeys(k.Args[0])) {
				ok = false
			}
			if !(v.Op == "lookup" && len(v.Args) == 2 && isM(v.Args[0]) && v.Args[1].String() == k.String()) {
				ok = false
			}
		}
		return
	}
	yielded := func(pa *Path) int {
		for _, g := range pa.Guards {
			if g.Kind == "truth" && g.A != nil && g.A.Op == "call" && strings.HasPrefix(g.A.Name, "dyn:") {
				if g.Neg {
					return -1
				}
				return 1
			}
		}
		return 0
	}
	pr.all("key order", pr.paths, "the entries are enumerated by a range over slices.Sorted(maps.Keys(m))", func(pa *Path) (bool, string) {
		if theLoop(pa) == -2 {
			return false, "sortedMap ranges over something other than the sorted keys of its map"
		}
		if theLoop(pa) == 0 && pa.End != "return" {
			return false, "sortedMap no longer enumerates the sorted keys of its map"
		}
		return true, ""
	})
	pr.some("key set", pr.paths, "some path ranges over the sorted keys", "sortedMap no longer sorts its keys (slices.Sorted(maps.Keys(m)) or an equivalent collect-then-sort)", func(pa *Path) bool { return theLoop(pa) == 1 })
	pr.all("yields every entry once in key order", selectPaths(pr.paths, func(pa *Path) bool { return theLoop(pa) == 1 }), "exactly one yield(k, m[k]) per key, k the current sorted key", func(pa *Path) (bool, string) {
		n, ok := yieldOf(pa)
		if n != 1 || !ok {
			return false, "sortedMap does not yield (k, m[k]) for every sorted key exactly once"
		}
		return true, ""
	})
	pr.all("stops when the consumer stops", pr.paths, "continues exactly while yield reports true; returns when the keys are exhausted or yield reports false", func(pa *Path) (bool, string) {
		switch {
		case pa.End == "iter":
			if yielded(pa) != 1 {
				return false, "sortedMap keeps iterating after yield returned false"
			}
		case pa.End == "return" && theLoop(pa) == 1:
			if yielded(pa) != -1 {
				return false, "sortedMap stops early although the consumer asked for more"
			}
		case pa.End == "return":
		default:
			return false, "unexpected end of the iterator: " + pa.End
		}
		return true, ""
	})
}

func blockOnlyReturns(b *ssa.BasicBlock) bool {
	for i := 0; i < 4; i++ {
		switch b.Instrs[len(b.Instrs)-1].(type) {
		case *ssa.Return:
			return true
		case *ssa.Jump:
			b = b.Succs[0]
		default:
			return false
		}
	}
	return false
}

// fullIndexRange: ia indexes its slice with the induction variable of a loop 0 <= i < len(slice), step 1.
func fullIndexRange(ia *ssa.IndexAddr) bool {
	idx := ia.Index
	bo, ok := idx.(*ssa.BinOp) // rangeindex: i = phi(-1, i+1) + 1
	if ok && bo.Op == token.ADD {
		if c, ok := constInt(bo.Y); ok && c == 1 {
			if phi, ok := bo.X.(*ssa.Phi); ok {
				okInit, okStep := false, false
				for _, e := range phi.Edges {
					if k, ok := constInt(e); ok && k == -1 {
						okInit = true
					} else if e == idx {
						okStep = true
					}
				}
				if !(okInit && okStep) {
					return false
				}
				// loop condition idx < len(slice)
				for _, ref := range *bo.Referrers() {
					if cmp, ok := ref.(*ssa.BinOp); ok && cmp.Op == token.LSS && cmp.X == idx {
						if lc, ok := cmp.Y.(*ssa.Call); ok {
							if bi, ok := lc.Common().Value.(*ssa.Builtin); ok && bi.Name() == "len" && lc.Common().Args[0] == ia.X {
								return true
							}
						}
					}
				}
			}
		}
	}
	return false
}

// ---- generic census helpers -------------------------------------------------------------------

// fieldWriters returns, per qualified field name, the functions that store to it.
func fieldWriters(p *Prog) map[string][]Write {
	out := map[string][]Write{}
	for _, ws := range p.Own().Writes {
		for _, w := range ws {
			if w.Kind == "fieldset" {
				out[w.Field] = append(out[w.Field], w)
			}
		}
	}
	// fields initialised in composite literals (stores into a fresh Alloc) are not "writers"
	return out
}

func sortedKeys[M ~map[string]V, V any](m M) []string {
	var ks []string
	for k := range m {
		ks = append(ks, k)
	}
	sort.Strings(ks)
	return ks
}

var _ = types.Typ

// addressOfGlobal: v is &global or the address of a part of it (not a value loaded from it).
func addressOfGlobal(v ssa.Value) *ssa.Global {
	switch x := v.(type) {
	case *ssa.Global:
		return x
	case *ssa.FieldAddr:
		return addressOfGlobal(x.X)
	case *ssa.IndexAddr:
		return addressOfGlobal(x.X)
	}
	return nil
}

// sharedStateType: t is, or contains by value, a type that exists to be mutated by several users.
func sharedStateType(t types.Type, depth int) string {
	if depth > 4 {
		return ""
	}
	if nm, ok := t.(*types.Named); ok && nm.Obj().Pkg() != nil {
		switch nm.Obj().Pkg().Path() {
		case "sync":
			switch nm.Obj().Name() {
			case "Pool", "Map":
				return "a sync." + nm.Obj().Name()
			}
		case "sync/atomic":
			return "an atomic." + nm.Obj().Name()
		}
	}
	switch u := t.Underlying().(type) {
	case *types.Chan:
		return "a channel"
	case *types.Struct:
		for i := 0; i < u.NumFields(); i++ {
			if why := sharedStateType(u.Field(i).Type(), depth+1); why != "" {
				return why + " (field " + u.Field(i).Name() + ")"
			}
		}
	case *types.Array:
		return sharedStateType(u.Elem(), depth+1)
	case *types.Pointer:
		if depth == 0 {
			return sharedStateType(u.Elem(), depth+1)
		}
	}
	return ""
}

// ruleMemoised(rule): no package-level value is a memoising wrapper (sync.OnceFunc / OnceValue / OnceValues):
// what such a wrapper computed at its first call — the environment, a directory listing — is what every later
// evaluation in the process gets, whatever the world looks like by then.
func ruleMemoised(rule string) func(p *Prog, r *Result) {
	return func(p *Prog, r *Result) {
		n := 0
		for _, sp := range p.SSAPkg {
			if sp.Pkg == nil || !isRepoPkgPath(sp.Pkg.Path()) {
				continue
			}
			init := sp.Func("init")
			if init == nil {
				continue
			}
			fns := append([]*ssa.Function{init}, allAnon(init)...)
			for _, cs := range allCalls(fns) {
				n++
				if cs.Callee == nil {
					continue
				}
				o := cs.Callee.Origin()
				if o == nil {
					o = cs.Callee
				}
				if o.Pkg == nil || o.Pkg.Pkg.Path() != "sync" || !strings.HasPrefix(o.Name(), "Once") {
					continue
				}
				// which variable receives it
				target := "a package variable"
				if v, ok := cs.Instr.(ssa.Value); ok && v.Referrers() != nil {
					for _, ref := range *v.Referrers() {
						if st, ok := ref.(*ssa.Store); ok {
							if g, ok := st.Addr.(*ssa.Global); ok {
								target = g.Name()
							}
						}
					}
				}
				r.Fail(rule, fmt.Sprintf("%s / %s is a sync.%s wrapper", shortPkg(sp.Pkg.Path()), target, o.Name()), p.InstrPos(cs.Instr),
					"a value computed once per process is reused by every later evaluation: the result no longer depends only on the inputs and the environment at the time of the evaluation (a changed or unset variable keeps its first value)")
			}
		}
		r.Count("package_init_calls", n)
		r.OK(rule, "no memoising wrapper at package level", "", fmt.Sprintf("%d calls in package initialisers inspected", n))
	}
}
