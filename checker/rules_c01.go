package main

// C01 — layer merge follows the documented rules: per-node decision tables of merge and match,
// frame conditions, list order, and every documented rejection with its sentinel.

import (
	"fmt"
	"sort"
	"strings"
)

var mergeOpts = PSOpts{NoInline: map[string]bool{"bkl.deepClone": true}}

// origins: where the content of a term may come from, looking through loop-carried accumulators.
func origins(ci map[int]carriedInfo, t *T, seen map[int]bool, out map[string]bool) {
	if t == nil {
		return
	}
	switch t.Op {
	case "param":
		out["param:"+t.Name] = true
		return
	case "const":
		return
	case "carried":
		if seen[t.N] {
			return
		}
		seen[t.N] = true
		info, ok := ci[t.N]
		if !ok {
			out["carried?"] = true
			return
		}
		origins(ci, info.Init, seen, out)
		for _, s := range info.Src {
			origins(ci, s, seen, out)
		}
		return
	case "call", "rec":
		out["call:"+t.Name] = true
		for _, a := range t.Args {
			origins(ci, a, seen, out)
		}
		return
	case "global":
		out["global:"+t.Name] = true
		return
	case "free", "freeval":
		out["free:"+t.Name] = true
		return
	}
	for _, a := range t.Args {
		origins(ci, a, seen, out)
	}
}

func (pr *psRule) originsOf(t *T) map[string]bool {
	out := map[string]bool{}
	origins(pr.carried, t, map[int]bool{}, out)
	return out
}

func originParamsOnly(o map[string]bool, allowed ...string) (bool, string) {
	for k := range o {
		if !strings.HasPrefix(k, "param:") {
			continue
		}
		ok := false
		for _, a := range allowed {
			if k == "param:"+a {
				ok = true
			}
		}
		if !ok {
			return false, k
		}
	}
	return true, ""
}

func setString(m map[string]bool) string {
	var ks []string
	for k := range m {
		ks = append(ks, k)
	}
	sort.Strings(ks)
	return strings.Join(ks, ",")
}

// fromCollectionOf: t is an element (possibly through filtered/cloned accumulators) of a
// collection whose contents originate only from parameter name.
func (pr *psRule) elemOfParam(t *T, name string) bool {
	if t == nil || t.Op != "elem" || len(t.Args) != 1 {
		return false
	}
	o := pr.originsOf(t.Args[0])
	if !o["param:"+name] {
		return false
	}
	ok, _ := originParamsOnly(o, name)
	return ok
}

func ruleC01Kind(p *Prog, r *Result) {
	pr := newPSRule(p, r, "C01.kind", "bkl.merge", mergeOpts)
	dst, src := pT("dst"), pT("src")
	noWrites := func(pa *Path) (bool, string) {
		for _, e := range pa.Effects {
			if isWriteEffect(e) {
				return false, "the case must not modify anything but performs " + e.String()
			}
		}
		return true, ""
	}
	returns := func(want *T) func(*Path) (bool, string) {
		return func(pa *Path) (bool, string) {
			if pa.End != "return" || len(pa.Results) != 2 {
				return false, "expected a return of (value, error)"
			}
			if !pa.Results[1].IsNil() {
				return false, "expected success, got error " + errClass(pa.Results[1])
			}
			if pa.Results[0].String() != want.String() {
				return false, fmt.Sprintf("expected the result to be %s itself, got %s", want, pa.Results[0])
			}
			return noWrites(pa)
		}
	}
	fails := func(sentinel string) func(*Path) (bool, string) {
		return func(pa *Path) (bool, string) {
			if pa.End != "return" || len(pa.Results) != 2 {
				return false, "expected a return of (value, error)"
			}
			if !wraps(pa.Results[1], sentinel) {
				return false, fmt.Sprintf("expected an error wrapping %s, got %s", sentinel, errClass(pa.Results[1]))
			}
			return noWrites(pa)
		}
	}
	cons := func(as ...Atom) []*Path {
		return selectPaths(pr.paths, func(pa *Path) bool { return consistent(pa, as) })
	}
	notK := func(t *T, ks ...string) []Atom {
		var out []Atom
		for _, k := range ks {
			out = append(out, aKind(t, k, true))
		}
		return out
	}
	// (nil, any) -> src
	pr.all("parent absent (nil): child value is taken", cons(aKind(dst, "nil", false)), "returns src unchanged, no effects", returns(src))
	// (scalar, any): equal -> useless override; else src
	scalarDst := notK(dst, "map", "list", "nil")
	eq := Atom{Kind: "eq", A: dst, B: src}
	pr.all("scalar parent, equal child: rejected as useless override", cons(append(scalarDst, eq)...), "error wraps ErrUselessOverride", fails("ErrUselessOverride"))
	neq := eq
	neq.Neg = true
	pr.all("scalar parent, different child: child replaces parent", cons(append(scalarDst, neq)...), "returns src", returns(src))
	// the scalar case must actually compare the two values
	pr.some("scalar parent: useless-override test compares child with parent", cons(scalarDst...), "guard src == dst present", "no path of the scalar case compares the child value with the parent value",
		func(pa *Path) bool {
			return guardPol(pa, "eq", mOr(mIs(dst), mIs(src)), TM(mOr(mIs(dst), mIs(src)))) != 0
		})
	// (map, nil) -> dst ; (map, scalar|list): empty map -> src, else ErrInvalidType
	pr.all("map parent, null child: parent kept", cons(aKind(dst, "map", false), aKind(src, "nil", false)), "returns dst, no effects", returns(dst))
	mapOther := []Atom{aKind(dst, "map", false), aKind(src, "map", true), aKind(src, "nil", true)}
	empty := Atom{Kind: "len", A: dst, Const: "==0"}
	pr.all("empty map parent, scalar or list child: child replaces it", cons(append(mapOther, empty)...), "returns src", returns(src))
	nonEmpty := empty
	nonEmpty.Neg = true
	pr.all("non-empty map parent, scalar or list child: rejected", cons(append(mapOther, nonEmpty)...), "error wraps ErrInvalidType", fails("ErrInvalidType"))
	// (list, nil) -> dst ; (list, scalar|map) -> ErrInvalidType
	pr.all("list parent, null child: parent kept", cons(aKind(dst, "list", false), aKind(src, "nil", false)), "returns dst, no effects", returns(dst))
	pr.all("list parent, scalar or map child: rejected", cons(aKind(dst, "list", false), aKind(src, "list", true), aKind(src, "nil", true)), "error wraps ErrInvalidType on every path", fails("ErrInvalidType"))
}

func ruleC01Map(p *Prog, r *Result) {
	pr := newPSRule(p, r, "C01.map", "bkl.merge", mergeOpts)
	mm := selectPaths(pr.paths, func(pa *Path) bool {
		return consistent(pa, []Atom{aKind(pT("dst"), "map", false), aKind(pT("src"), "map", false)}) &&
			guardPol(pa, "kind", mParam("dst"), "map") == 1 && guardPol(pa, "kind", mParam("src"), "map") == 1
	})
	srcP, dstP := mParam("src"), mParam("dst")
	replaceVal := mLookup(srcP, mStr("$replace"))
	isReplace := func(pa *Path) int {
		// $replace present, boolean, true
		h := guardPol(pa, "has", srcP, TM(mStr("$replace")))
		k := guardPol(pa, "kind", replaceVal, "bool")
		t := guardPol(pa, "truth", replaceVal, nil)
		if t == 0 {
			t = guardPol(pa, "eq", replaceVal, nil)
		}
		if h != -1 && k == 1 && t == 1 {
			return 1
		}
		if h == -1 || k == -1 || t == -1 {
			return -1
		}
		return 0
	}
	// --- $replace: true
	pr.all("child map with $replace: true replaces the parent map wholesale", selectPaths(mm, func(pa *Path) bool { return isReplace(pa) == 1 }),
		"result is the child map without the $replace key; the parent is neither read into the result nor written", func(pa *Path) (bool, string) {
			if !isSuccess(pa) {
				return false, "expected success"
			}
			if ok, bad := originParamsOnly(pr.originsOf(pa.Results[0]), "src"); !ok || !pr.originsOf(pa.Results[0])["param:src"] {
				return false, "the result must derive from the child only, but involves " + bad + setString(pr.originsOf(pa.Results[0]))
			}
			del := false
			for _, e := range pa.Effects {
				if e.Kind == "mapdel" && mStr("$replace")(e.Args[1]) && originParamsIs(pr, e.Args[0], "src") {
					del = true
				}
				if writesInto(e, "dst") {
					return false, "the parent map is modified: " + e.String()
				}
			}
			if !del {
				return false, "the $replace marker is not removed from the result"
			}
			return true, ""
		})
	// --- per-entry behaviour: paths inside the range over the child
	inLoop := selectPaths(mm, func(pa *Path) bool {
		return isReplace(pa) != 1 && guardPol(pa, "itermore", mOp("range", srcP), nil) == 1
	})
	key, val := mKeyOf(srcP), mElemOf(srcP)
	isDel := func(pa *Path) int { return guardPol(pa, "streq", val, q("$delete")) }
	found := func(pa *Path) int { return guardPol(pa, "has", dstP, TM(key)) }
	dstWrites := func(pa *Path) []Effect {
		return effectsWhere(pa, func(e Effect) bool { return writesInto(e, "dst") })
	}
	pr.all("entry $delete for a key the parent lacks: rejected as useless override",
		selectPaths(inLoop, func(pa *Path) bool { return isDel(pa) == 1 && found(pa) != 1 }),
		"error wraps ErrUselessOverride, parent untouched", func(pa *Path) (bool, string) {
			if pa.End != "return" || !wraps(lastResult(pa), "ErrUselessOverride") {
				return false, "expected an error wrapping ErrUselessOverride, got " + pa.End + " " + errClass(lastResult(pa))
			}
			if ws := dstWrites(pa); len(ws) > 0 {
				return false, "parent modified before rejecting: " + ws[0].String()
			}
			return true, ""
		})
	pr.all("entry $delete for a key the parent has: exactly that key is removed",
		selectPaths(inLoop, func(pa *Path) bool { return isDel(pa) == 1 && found(pa) != -1 }),
		"one delete(dst, k) with k the child's key, nothing else written, loop continues", func(pa *Path) (bool, string) {
			if pa.End != "iter" {
				return false, "the loop must continue with the next entry, but the path ends with " + pa.End
			}
			ws := dstWrites(pa)
			if len(ws) != 1 || ws[0].Kind != "mapdel" || !dstP(ws[0].Args[0]) || !key(ws[0].Args[1]) {
				return false, fmt.Sprintf("expected exactly delete(dst, key), got %v", ws)
			}
			return true, ""
		})
	recMerge := mCall("bkl.merge", mLookup(dstP, key), val)
	pr.all("entry present in both: merged recursively, parent value as destination",
		selectPaths(inLoop, func(pa *Path) bool { return isDel(pa) != 1 && found(pa) == 1 }),
		"dst[k] = merge(dst[k], v) with that argument order; an error from the recursion is returned", func(pa *Path) (bool, string) {
			if !hasCallEffect(pa, "bkl.merge", mLookup(dstP, key), val) {
				return false, "no recursive merge(dst[k], v) with the parent's value as destination and the child's as source"
			}
			ws := dstWrites(pa)
			switch pa.End {
			case "iter":
				if len(ws) != 1 || ws[0].Kind != "mapset" || !dstP(ws[0].Args[0]) || !key(ws[0].Args[1]) || !mResOf(0, recMerge)(ws[0].Args[2]) {
					return false, fmt.Sprintf("expected exactly dst[k] = <result of the recursive merge>, got %v", ws)
				}
				if guardPol(pa, "err", recMerge, nil) != -1 {
					return false, "the result of the recursive merge is stored without checking its error"
				}
			case "return":
				if guardPol(pa, "err", recMerge, nil) != 1 || !strings.HasPrefix(errClass(lastResult(pa)), "from:bkl.merge") {
					return false, "an early return in this case must propagate the recursive merge's error, got " + errClass(lastResult(pa))
				}
				if len(ws) > 0 {
					return false, "parent written although the recursion failed"
				}
			default:
				return false, "unexpected path end " + pa.End
			}
			return true, ""
		})
	pr.all("entry only in the child: a copy of the child's value is added under its key",
		selectPaths(inLoop, func(pa *Path) bool { return isDel(pa) != 1 && found(pa) == -1 }),
		"dst[k] = deepClone(v)", func(pa *Path) (bool, string) {
			cl := mCall("bkl.deepClone", val)
			ws := dstWrites(pa)
			switch pa.End {
			case "iter":
				if len(ws) != 1 || ws[0].Kind != "mapset" || !dstP(ws[0].Args[0]) || !key(ws[0].Args[1]) {
					return false, fmt.Sprintf("expected exactly one dst[k] = ..., got %v", ws)
				}
				v := ws[0].Args[2]
				if !mResOf(0, cl)(v) {
					return false, "the value stored is " + v.String() + ", not a deep copy of the child's value (the parent would share structure with the layer)"
				}
			case "return":
				if !isFailure(pa) {
					return false, "early success return inside the loop"
				}
			default:
				return false, "unexpected path end " + pa.End
			}
			return true, ""
		})
	// --- frame: every write into the parent map is keyed by the child's current key; success returns dst
	pr.all("frame: what the child does not mention is untouched", selectPaths(mm, func(pa *Path) bool { return isReplace(pa) != 1 }),
		"every write into dst is keyed by the key of the child entry being visited; success returns dst itself", func(pa *Path) (bool, string) {
			for _, e := range dstWrites(pa) {
				if !dstP(e.Args[0]) {
					return false, "write below the parent map other than through the recursive merge: " + e.String()
				}
				if !key(e.Args[1]) {
					return false, "write into the parent keyed by something other than the child's key: " + e.String()
				}
			}
			if isSuccess(pa) && !dstP(pa.Results[0]) {
				return false, "success must return the parent map itself, got " + pa.Results[0].String()
			}
			if isSuccess(pa) && guardPol(pa, "itermore", mOp("range", srcP), nil) != -1 {
				return false, "returns success before every entry of the child was visited"
			}
			return true, ""
		})
}

func originParamsIs(pr *psRule, t *T, name string) bool {
	o := pr.originsOf(t)
	ok, _ := originParamsOnly(o, name)
	return ok && o["param:"+name]
}

// ---- lists ------------------------------------------------------------------------------------

func ruleC01List(p *Prog, r *Result) {
	pr := newPSRule(p, r, "C01.list", "bkl.merge", mergeOpts)
	ll := selectPaths(pr.paths, func(pa *Path) bool {
		return guardPol(pa, "kind", mParam("dst"), "list") == 1 && guardPol(pa, "kind", mParam("src"), "list") == 1
	})
	fromSrc := func(t *T) bool { return pr.elemOfParam(t, "src") }
	fromDst := func(t *T) bool { return pr.elemOfParam(t, "dst") }
	// --- "$replace" string marker: some iteration recognises it, and when found the result derives from src only
	pr.some(`a "$replace" string entry in the child is recognised`, ll, `an iteration over the child's entries tests entry == "$replace"`, `no path tests a child entry against "$replace"`,
		func(pa *Path) bool { return guardPol(pa, "streq", TM(fromSrc), q("$replace")) == 1 })
	isSuccessLL := selectPaths(ll, isSuccess)
	replaced := selectPaths(isSuccessLL, func(pa *Path) bool {
		o := pr.originsOf(pa.Results[0])
		return !o["param:dst"]
	})
	pr.all("child list carrying a $replace marker replaces the parent list", replaced, "result derives from the child only and no marker entry survives", func(pa *Path) (bool, string) {
		o := pr.originsOf(pa.Results[0])
		if !o["param:src"] {
			return false, "result derives from neither list: " + setString(o)
		}
		// the path must have decided that a marker was present
		marker := false
		for _, g := range pa.Guards {
			if g.Kind == "truth" && !g.Neg && g.A.Op == "carried" {
				marker = true // found flag of popListString
			}
			if !g.Neg && (g.Kind == "eq" || g.Kind == "truth") && len(g.A.Find(func(x *T) bool { return x.Op == "lookup" && mStr("$replace")(x.Args[1]) })) > 0 {
				marker = true
			}
		}
		if !marker {
			return false, "the parent list is dropped although no $replace marker was found on this path"
		}
		for _, e := range pa.Effects {
			if writesInto(e, "dst") {
				return false, "parent list modified: " + e.String()
			}
		}
		return true, ""
	})
	pr.some(`a "$replace" string entry makes the child list replace the parent's`, replaced, "a replaced result is returned on the path where the marker-found flag is set", `a "$replace" string entry is recognised but no longer makes the child list replace the parent's`,
		func(pa *Path) bool {
			for _, g := range pa.Guards {
				if g.Kind == "truth" && !g.Neg && g.A.Op == "carried" && pr.flagSetOnlyWhen(g.A, func(p2 *Path) bool {
					return guardPol(p2, "streq", TM(fromSrc), q("$replace")) == 1
				}) {
					return true
				}
			}
			return false
		})
	pr.some("a {$replace: true} entry makes the child list replace the parent's", replaced, "a replaced result is returned on the path where a child entry holds $replace: true", "a {$replace: true} list entry no longer makes the child list replace the parent's",
		func(pa *Path) bool {
			for _, g := range pa.Guards {
				if !g.Neg && (g.Kind == "eq" || g.Kind == "truth") && len(g.A.Find(func(x *T) bool { return x.Op == "lookup" && mStr("$replace")(x.Args[1]) && fromSrc(x.Args[0]) })) > 0 {
					return true
				}
			}
			return false
		})
	// --- concatenation: success results that involve the parent
	merged := selectPaths(isSuccessLL, func(pa *Path) bool { return pr.originsOf(pa.Results[0])["param:dst"] })
	pr.all("lists concatenate parent-then-child", merged, "the result is an accumulator that starts from the parent's entries and to which child entries are appended in iteration order", func(pa *Path) (bool, string) {
		res := pa.Results[0]
		if res.Op != "carried" {
			return false, "the merged list is not the loop accumulator: " + res.String()
		}
		// the loop over the child's entries ran to completion
		done := false
		for _, g := range pa.Guards {
			if g.Kind == "itermore" && g.Neg && len(g.A.Args) == 1 && pr.originsOf(g.A.Args[0])["param:src"] {
				done = true
			}
		}
		if !done {
			return false, "success is returned before every child entry was visited"
		}
		info := pr.carried[res.N]
		io := pr.originsOf(info.Init)
		if ok, bad := originParamsOnly(io, "dst"); !ok || !io["param:dst"] {
			return false, "the accumulator does not start from the parent's entries only (" + bad + setString(io) + ")"
		}
		// every back-edge value: the accumulator itself, append(acc, child entry), or the outcome of $delete/$match on acc
		for _, s := range info.Src {
			switch {
			case s.Op == "carried":
				so := pr.originsOf(s)
				if so["param:src"] && s.N != res.N {
					// result of an inner filter over the accumulator (delete/match): fine, checked by their rules
				}
			case s.Op == "append":
				if len(s.Args) != 2 || s.Args[0].String() != res.String() {
					return false, "a child entry is not appended after the accumulated parent entries: " + s.String()
				}
				ap := s.Args[1]
				if ap.Op != "lit" || len(ap.Args) != 1 || !fromSrc(ap.Args[0]) {
					return false, "what is appended is not the single child entry being visited: " + ap.String()
				}
			default:
				return false, "unexpected update of the merged list: " + s.String()
			}
		}
		return true, ""
	})
	// plain entries are appended: iteration paths of the main loop for non-directive entries
	mainIter := selectPaths(ll, func(pa *Path) bool {
		if pa.End != "iter" {
			return false
		}
		for id, v := range pa.Carried {
			_ = id
			if v.Op == "append" && len(v.Args) == 2 && v.Args[0].Op == "carried" && pr.originsOf(pr.carried[v.Args[0].N].Init)["param:dst"] {
				return true
			}
		}
		return false
	})
	pr.some("plain child entries are appended", mainIter, "an iteration appends a non-map entry and another a map entry without $delete/$match", "no iteration appends plain child entries to the parent's",
		func(pa *Path) bool { return guardPol(pa, "kind", TM(fromSrc), "map") == -1 })
	pr.some("map entries without directives are appended", mainIter, "a map entry lacking $delete and $match is appended as a whole", "map entries without $delete/$match are no longer appended",
		func(pa *Path) bool {
			return guardPol(pa, "has", TM(fromSrc), TM(mStr("$delete"))) == -1 && guardPol(pa, "has", TM(fromSrc), TM(mStr("$match"))) == -1
		})
	// --- $required stripped from the parent only
	pr.some(`"$required" entries of the parent are dropped when the child supplies a list`, ll, `an iteration over the parent tests entry == "$required"`, `no path strips "$required" from the parent list`,
		func(pa *Path) bool { return guardPol(pa, "streq", TM(fromDst), q("$required")) == 1 })
	// --- $delete entries
	delVal := func(t *T) bool {
		return t.Op == "lookup" && fromSrc(t.Args[0]) && mStr("$delete")(t.Args[1])
	}
	hasDelete := func(pa *Path) int { return guardPol(pa, "has", TM(fromSrc), TM(mStr("$delete"))) }
	extraKeys := func(pa *Path) int {
		// len(entry minus directive) == 0 ?
		for _, g := range pa.Guards {
			if g.Kind == "len" && g.Const == "==0" && g.A.Op == "clone" {
				if g.Neg {
					return 1
				}
				return -1
			}
			// the entry minus $match still holds $value: alone (one key) or with extra keys
			if g.Kind == "len" && g.A != nil && g.A.Op == "clone" && (g.Const == "==1" || g.Const == "!=1" || g.Const == ">1") {
				v := -1
				if g.Const != "==1" {
					v = 1
				}
				if g.Neg {
					v = -v
				}
				return v
			}
			// or counted on the entry itself, which still holds the directive: more than one key
			if g.Kind == "len" && g.A != nil && fromSrc(g.A) {
				v := 0
				switch g.Const {
				case ">1", ">=2", "!=1":
					v = 1
				case "==1", "<=1", "<2":
					v = -1
				}
				if g.Neg {
					v = -v
				}
				if v != 0 {
					return v
				}
			}
		}
		return 0
	}
	delPaths := selectPaths(ll, func(pa *Path) bool { return hasDelete(pa) == 1 })
	pr.all("list $delete entry with extra keys: rejected", selectPaths(delPaths, func(pa *Path) bool { return extraKeys(pa) == 1 }), "error wraps ErrExtraKeys", func(pa *Path) (bool, string) {
		if pa.End == "return" && wraps(lastResult(pa), "ErrExtraKeys") {
			return true, ""
		}
		return false, "expected an error wrapping ErrExtraKeys, got " + pa.End + " " + errClass(lastResult(pa))
	})
	matchDel := mCall("bkl.match", TM(func(t *T) bool { return t.Op == "elem" }), TM(delVal))
	pr.all("list $delete: matching parent entries are dropped, others kept in order",
		selectPaths(delPaths, func(pa *Path) bool {
			return extraKeys(pa) == -1 && guardPol(pa, "truth", matchDel, nil) != 0 && pa.End == "iter"
		}),
		"an entry is dropped iff match(entry, pattern); otherwise it is kept unchanged", func(pa *Path) (bool, string) {
			m := guardPol(pa, "truth", matchDel, nil)
			var kept *T
			for _, v := range pa.Carried {
				if v.Op == "append" && len(v.Args) == 2 {
					kept = v.Args[1]
				}
			}
			if m == 1 {
				if kept != nil && !(kept.IsNil() || kept.IsEmptyList()) {
					return false, "a matching entry is kept: " + kept.String()
				}
			} else {
				if kept == nil || kept.Op != "lit" || len(kept.Args) != 1 || kept.Args[0].Op != "elem" {
					return false, "a non-matching entry is not kept unchanged"
				}
			}
			return true, ""
		})
	pr.some("list $delete that removes nothing: rejected as useless override", delPaths, "error wraps ErrUselessOverride when no entry matched", "a $delete entry that matches nothing is no longer rejected with ErrUselessOverride",
		func(pa *Path) bool { return pa.End == "return" && wraps(lastResult(pa), "ErrUselessOverride") })
	pr.all("list $delete: success only if something was deleted", selectPaths(delPaths, func(pa *Path) bool {
		return extraKeys(pa) == -1 && pa.End == "iter" && guardPol(pa, "truth", matchDel, nil) == 0
	}), "the iteration continues only on the path where the deleted flag is set", func(pa *Path) (bool, string) {
		for _, g := range pa.Guards {
			if g.Kind == "truth" && g.A.Op == "carried" && g.A.Name == "deleted" {
				if g.Neg {
					return false, "continues although nothing was deleted"
				}
				return true, ""
			}
		}
		// flag may have another name: require some positive carried flag guard
		for _, g := range pa.Guards {
			if g.Kind == "truth" && g.A.Op == "carried" && !g.Neg && pr.flagSetOnlyOnMatch(g.A) {
				return true, ""
			}
		}
		// or a counter of dropped entries that only grows on a match, tested against zero
		for _, g := range pa.Guards {
			if g.A == nil || g.A.Op != "carried" || !pr.counterGrowsOnlyOnMatch(g.A) {
				continue
			}
			positive := (g.Kind == "eq" && g.B != nil && g.B.IsConst("0") && g.Neg) ||
				(g.Kind == "cmp" && g.B != nil && g.B.IsConst("0") && ((g.Const == ">" && !g.Neg) || (g.Const == "<=" && g.Neg))) ||
				(g.Kind == "cmp" && g.B != nil && g.B.IsConst("1") && ((g.Const == ">=" && !g.Neg) || (g.Const == "<" && g.Neg)))
			if positive {
				return true, ""
			}
			if g.Kind == "eq" && g.B != nil && g.B.IsConst("0") && !g.Neg {
				return false, "continues although nothing was deleted"
			}
		}
		// or the kept entries are compared by length with the list they were taken from
		for _, g := range pa.Guards {
			if g.Kind != "eq" || g.A == nil || g.B == nil || g.A.Op != "len" || g.B.Op != "len" {
				continue
			}
			for _, pair := range [][2]*T{{g.A.Args[0], g.B.Args[0]}, {g.B.Args[0], g.A.Args[0]}} {
				if pair[0].Op == "carried" && pr.keepsExactlyNonMatching(pair[0], pair[1]) {
					if g.Neg {
						return true, ""
					}
					return false, "continues although nothing was deleted"
				}
			}
		}
		return false, "no guard on a 'something was deleted' flag before continuing"
	})
	// --- $match entries
	matchVal := func(t *T) bool {
		return t.Op == "lookup" && fromSrc(t.Args[0]) && mStr("$match")(t.Args[1])
	}
	hasMatch := func(pa *Path) int { return guardPol(pa, "has", TM(fromSrc), TM(mStr("$match"))) }
	matchPaths := selectPaths(ll, func(pa *Path) bool { return hasDelete(pa) == -1 && hasMatch(pa) == 1 })
	hasValue := func(pa *Path) int {
		for _, g := range pa.Guards {
			if g.Kind == "has" && mStr("$value")(g.B) {
				if g.Neg {
					return -1
				}
				return 1
			}
		}
		return 0
	}
	pr.all("list $match entry with $value and extra keys: rejected", selectPaths(matchPaths, func(pa *Path) bool { return hasValue(pa) == 1 && extraKeys(pa) == 1 }), "error wraps ErrExtraKeys", func(pa *Path) (bool, string) {
		if pa.End == "return" && wraps(lastResult(pa), "ErrExtraKeys") {
			return true, ""
		}
		return false, "expected an error wrapping ErrExtraKeys, got " + pa.End + " " + errClass(lastResult(pa))
	})
	matchM := mCall("bkl.match", TM(func(t *T) bool { return t.Op == "elem" }), TM(matchVal))
	pr.all("list $match: matching parent entries are merged with the entry's body, others kept",
		selectPaths(matchPaths, func(pa *Path) bool { return guardPol(pa, "truth", matchM, nil) != 0 }),
		"matching: entry := merge(entry, $value or rest of the child entry) with the parent entry as destination; error propagates; non-matching: kept unchanged", func(pa *Path) (bool, string) {
			m := guardPol(pa, "truth", matchM, nil)
			var kept *T
			for _, v := range pa.Carried {
				if v.Op == "append" && len(v.Args) == 2 {
					kept = v.Args[1]
				}
			}
			if m == -1 {
				if pa.End != "iter" || kept == nil || kept.Op != "lit" || len(kept.Args) != 1 || kept.Args[0].Op != "elem" {
					return false, "a non-matching entry is not kept unchanged"
				}
				if hasCallEffect(pa, "bkl.merge") {
					return false, "a non-matching entry is merged"
				}
				return true, ""
			}
			// matching
			var rec *Effect
			for i, e := range pa.Effects {
				if e.Kind == "rec" && e.Callee == "bkl.merge" {
					rec = &pa.Effects[i]
				}
			}
			if rec == nil {
				if isFailure(pa) && strings.HasPrefix(errClass(lastResult(pa)), "from:bkl.deepClone") {
					return true, "" // copying the entry body failed before the merge
				}
				return false, "a matching entry is not merged"
			}
			if rec.Args[0].Op != "elem" || !pr.originsOf(rec.Args[0])["param:dst"] {
				return false, "the destination of the merge is not the matching parent entry: " + rec.Args[0].String()
			}
			body := rec.Args[1]
			if mResOf(0, mCall("bkl.deepClone"))(body) {
				body = body.Args[0].Args[0] // a private copy of the body (C02.indep) — look at what is copied
			}
			bo := pr.originsOf(body)
			if ok, bad := originParamsOnly(bo, "src"); !ok || !bo["param:src"] {
				return false, "the source of the merge does not come from the child entry (" + bad + ")"
			}
			if hasValue(pa) == 1 {
				if !(body.Op == "lookup" && mStr("$value")(body.Args[1])) {
					return false, "with $value present the merged value must be the $value, got " + body.String()
				}
			} else if hasValue(pa) == -1 {
				if body.Op != "clone" {
					return false, "without $value the merged value must be the entry without its $match key, got " + body.String()
				}
			}
			switch pa.End {
			case "iter":
				if kept == nil || kept.Op != "lit" || len(kept.Args) != 1 || !mResOf(0, mCall("bkl.merge"))(kept.Args[0]) {
					return false, "the merged entry does not replace the matching entry"
				}
			case "return":
				if !strings.HasPrefix(errClass(lastResult(pa)), "from:bkl.merge") {
					return false, "early return that is not the merge's error"
				}
			}
			return true, ""
		})
	pr.some("list $match that matches nothing: rejected", matchPaths, "error wraps ErrNoMatchFound when no entry matched", "a $match entry that matches nothing is no longer rejected with ErrNoMatchFound",
		func(pa *Path) bool { return pa.End == "return" && wraps(lastResult(pa), "ErrNoMatchFound") })
	pr.all("list $match: success only if something matched", selectPaths(matchPaths, func(pa *Path) bool {
		return pa.End == "iter" && guardPol(pa, "truth", matchM, nil) == 0 && !(hasValue(pa) == 1 && extraKeys(pa) == 1)
	}), "the iteration continues only on the path where the found flag is set", func(pa *Path) (bool, string) {
		for _, g := range pa.Guards {
			if g.Kind == "truth" && g.A.Op == "carried" && !g.Neg && pr.flagSetOnlyOnMatch(g.A) {
				return true, ""
			}
		}
		if pr.positiveCounterGuard(pa) == 1 {
			return true, ""
		}
		return false, "continues to the next child entry although no parent entry matched"
	})
}

// flagSetOnlyWhen: the carried boolean starts false and every iteration that stores true into it
// satisfies cond (and at least one does).
func (pr *psRule) flagSetOnlyWhen(flag *T, cond func(*Path) bool) bool {
	info, ok := pr.carried[flag.N]
	if !ok {
		return false
	}
	init := info.Init
	for init != nil && init.Op == "carried" {
		init = pr.carried[init.N].Init
	}
	if init == nil || !init.IsConst("false") {
		return false
	}
	n := 0
	for _, pa := range pr.paths {
		v, ok := pa.Carried[flag.N]
		if !ok || !v.IsConst("true") {
			continue
		}
		n++
		if !cond(pa) {
			return false
		}
	}
	return n > 0
}

// flagSetOnlyOnMatch: the carried boolean starts false and is set to true only on paths where a
// match(...) call returned true.
func (pr *psRule) flagSetOnlyOnMatch(flag *T) bool {
	info, ok := pr.carried[flag.N]
	if !ok {
		return false
	}
	init := info.Init
	for init != nil && init.Op == "carried" {
		init = pr.carried[init.N].Init
	}
	if init == nil || !init.IsConst("false") {
		return false
	}
	// every path that stores true into this flag's cell has a positive match guard
	for _, pa := range pr.paths {
		v, ok := pa.Carried[flag.N]
		if !ok || !v.IsConst("true") {
			continue
		}
		if guardPol(pa, "truth", mCall("bkl.match"), nil) != 1 {
			return false
		}
	}
	return true
}

// keepsExactlyNonMatching: the carried list kept starts empty and, in a loop ranging over from, receives exactly the
// current element on every path where match(...) was false and nothing where it was true: len(kept) == len(from)
// holds iff no element matched.
func (pr *psRule) keepsExactlyNonMatching(kept, from *T) bool {
	info, ok := pr.carried[kept.N]
	if !ok {
		return false
	}
	init := info.Init
	for init != nil && init.Op == "carried" {
		init = pr.carried[init.N].Init
	}
	if init == nil || !(init.IsEmptyList() || init.IsNil()) {
		return false
	}
	grows := false
	for _, pa := range pr.paths {
		v, ok := pa.Carried[kept.N]
		m := guardPol(pa, "truth", mCall("bkl.match"), nil)
		if !ok {
			continue
		}
		if v.Op == "carried" && v.N == kept.N {
			// unchanged: fine unless this is an iteration over from where the element did not match
			if m != 1 && pa.End == "iter" && rangesOver(pa, from) {
				return false
			}
			continue
		}
		if !(v.Op == "append" && len(v.Args) == 2 && v.Args[0].Op == "carried" && v.Args[0].N == kept.N && v.Args[1].Op == "lit" && len(v.Args[1].Args) == 1 && v.Args[1].Args[0].Op == "elem") {
			return false
		}
		el := v.Args[1].Args[0]
		if m != -1 || len(el.Args) == 0 || el.Args[0].String() != from.String() {
			return false
		}
		grows = true
	}
	return grows
}

// rangesOver: the path is inside an iteration of a range over x (its last positive itermore guard is on x).
func rangesOver(pa *Path, x *T) bool {
	for i := len(pa.Guards) - 1; i >= 0; i-- {
		g := pa.Guards[i]
		if g.Kind == "itermore" && !g.Neg {
			return g.A != nil && len(g.A.Args) > 0 && g.A.Args[0].String() == x.String()
		}
	}
	return false
}

// positiveCounterGuard: the path tests a counter that only grows on a match against zero: 1 = known positive,
// -1 = known zero, 0 = no such test.
func (pr *psRule) positiveCounterGuard(pa *Path) int {
	for _, g := range pa.Guards {
		if g.A == nil || g.A.Op != "carried" || g.B == nil || !pr.counterGrowsOnlyOnMatch(g.A) {
			continue
		}
		v := 0
		switch {
		case g.Kind == "eq" && g.B.IsConst("0"):
			v = -1
		case g.Kind == "cmp" && g.B.IsConst("0") && g.Const == ">", g.Kind == "cmp" && g.B.IsConst("1") && g.Const == ">=":
			v = 1
		case g.Kind == "cmp" && g.B.IsConst("0") && g.Const == "<=", g.Kind == "cmp" && g.B.IsConst("1") && g.Const == "<":
			v = -1
		}
		if g.Neg {
			v = -v
		}
		if v != 0 {
			return v
		}
	}
	return 0
}

// counterGrowsOnlyOnMatch: a loop-carried integer that starts at 0 and is incremented only on paths where the
// match test succeeded.
func (pr *psRule) counterGrowsOnlyOnMatch(c *T) bool {
	info, ok := pr.carried[c.N]
	if !ok {
		return false
	}
	init := info.Init
	for init != nil && init.Op == "carried" {
		init = pr.carried[init.N].Init
	}
	if init == nil || !init.IsConst("0") {
		return false
	}
	grows := false
	for _, pa := range pr.paths {
		v, ok := pa.Carried[c.N]
		if !ok || (v.Op == "carried" && v.N == c.N) {
			continue
		}
		if !(v.Op == "binop" && v.Name == "+" && len(v.Args) == 2 && v.Args[0].Op == "carried" && v.Args[0].N == c.N && v.Args[1].IsConst("1")) {
			return false
		}
		if guardPol(pa, "truth", mCall("bkl.match"), nil) != 1 {
			return false
		}
		grows = true
	}
	return grows
}

// ---- match ------------------------------------------------------------------------------------

func ruleC01Match(p *Prog, r *Result) {
	pr := newPSRule(p, r, "C01.match", "bkl.match", PSOpts{})
	obj, pat := pT("obj"), pT("pat")
	objP, patP := mParam("obj"), mParam("pat")
	cons := func(as ...Atom) []*Path {
		return selectPaths(pr.paths, func(pa *Path) bool { return consistent(pa, as) })
	}
	retBool := func(pa *Path, want string) bool {
		return pa.End == "return" && len(pa.Results) == 1 && pa.Results[0].IsConst(want)
	}
	// scalar pattern: obj == pat
	pr.all("scalar pattern: equality", cons(aKind(pat, "map", true), aKind(pat, "list", true)), "returns obj == pat", func(pa *Path) (bool, string) {
		if pa.End != "return" || len(pa.Results) != 1 {
			return false, "expected a boolean return"
		}
		res := pa.Results[0]
		if res.Op == "binop" && res.Name == "==" && ((objP(res.Args[0]) && patP(res.Args[1])) || (objP(res.Args[1]) && patP(res.Args[0]))) {
			return true, ""
		}
		// or branched on the comparison and returned constants
		if g := guardPol(pa, "eq", mOr(objP, patP), nil); g != 0 && (res.IsConst("true") || res.IsConst("false")) {
			if (g == 1) == res.IsConst("true") {
				return true, ""
			}
		}
		return false, "a scalar pattern must match exactly the equal value, got " + res.String()
	})
	// map pattern
	mapPat := selectPaths(pr.paths, func(pa *Path) bool { return guardPol(pa, "kind", patP, "map") == 1 })
	invertVal := mLookup(patP, mStr("$invert"))
	isInvert := func(pa *Path) int {
		h := guardPol(pa, "has", patP, TM(mStr("$invert")))
		k := guardPol(pa, "kind", invertVal, "bool")
		t := guardPol(pa, "eq", invertVal, nil)
		if t == 0 {
			t = guardPol(pa, "truth", invertVal, nil)
		}
		if h != -1 && k == 1 && t == 1 {
			return 1
		}
		if h == -1 || k == -1 || t == -1 {
			return -1
		}
		return 0
	}
	pr.all("map pattern with $invert: true negates the match of the remaining pattern", selectPaths(mapPat, func(pa *Path) bool { return isInvert(pa) == 1 }),
		"returns !match(obj, pattern without $invert)", func(pa *Path) (bool, string) {
			var rec *Effect
			for i, e := range pa.Effects {
				if e.Kind == "rec" && (e.Callee == "bkl.matchMap" || e.Callee == "bkl.match") {
					rec = &pa.Effects[i]
				}
			}
			if rec == nil {
				return false, "no recursive match of the remaining pattern"
			}
			if !objP(rec.Args[0]) || rec.Args[1].Op != "clone" || !patP(rec.Args[1].Args[0]) {
				return false, "the recursive match is not on (obj, pattern without $invert): " + rec.String()
			}
			if !hasEffect(pa, "mapdel", mOp("clone", patP), mStr("$invert")) {
				return false, "the $invert key is not removed from the pattern copy before re-matching"
			}
			if pa.End != "return" || len(pa.Results) != 1 {
				return false, "expected a boolean return"
			}
			res := pa.Results[0]
			if res.Op == "not" && res.Args[0].Contains(rec.Res) {
				return true, ""
			}
			if g := guardPol(pa, "truth", mCall(rec.Callee), nil); g != 0 && (g == -1) == res.IsConst("true") {
				return true, ""
			}
			return false, "the result is not the negation of the recursive match: " + res.String()
		})
	plainMap := selectPaths(mapPat, func(pa *Path) bool { return isInvert(pa) != 1 })
	pr.all("map pattern against a non-map value: no match", selectPaths(plainMap, func(pa *Path) bool { return guardPol(pa, "kind", objP, "map") == -1 }), "returns false",
		func(pa *Path) (bool, string) {
			if retBool(pa, "false") {
				return true, ""
			}
			return false, "a map pattern must not match a non-map value"
		})
	// subset semantics: the loop ranges over the pattern's keys and compares obj[k] with the pattern value
	patClone := mOr(patP, mOp("clone", patP))
	pk, pv := mKeyOf(patClone), mElemOf(patClone)
	recEntry := mCall("bkl.match", mLookup(objP, pk), pv)
	entryPaths := selectPaths(plainMap, func(pa *Path) bool { return guardPol(pa, "itermore", mOp("range", patClone), nil) == 1 })
	pr.all("map pattern: every key of the pattern must match the value's entry (subset semantics)", entryPaths,
		"for each pattern entry (k, v): match(obj[k], v); false as soon as one fails, continue otherwise", func(pa *Path) (bool, string) {
			// skip the placeholder loop (range over obj) paths: they do not range over the pattern
			g := guardPol(pa, "truth", recEntry, nil)
			if g == 0 {
				return false, "an iteration over the pattern does not test match(obj[key], patternValue)"
			}
			if g == -1 && !retBool(pa, "false") {
				return false, "a failing entry does not make the whole match false"
			}
			if g == 1 && pa.End != "iter" {
				return false, "a matching entry must continue with the next pattern entry, got " + pa.End
			}
			return true, ""
		})
	pr.all("map pattern: all entries matched means match", selectPaths(plainMap, func(pa *Path) bool {
		return guardPol(pa, "itermore", mOp("range", patClone), nil) == -1 && pa.End == "return"
	}), "returns true after the last pattern entry", func(pa *Path) (bool, string) {
		if retBool(pa, "true") {
			return true, ""
		}
		return false, "after all pattern entries matched the result must be true"
	})
	// placeholder rule (C10.placeholder lives here too): single-key $merge/$replace/$encode maps never match
	placeholders := []string{"$merge", "$replace", "$encode"}
	for _, d := range placeholders {
		d := d
		pr.some("a map holding only "+d+" never matches a pattern", plainMap, "single-key check for "+d+" returns false", "the placeholder rule for "+d+" is gone: an unevaluated "+d+" reference could match (and be deleted or merged into) by pattern",
			func(pa *Path) bool {
				return keyIsOrIsIn(pa, mKeyOf(objP), d, placeholders) && retBool(pa, "false") && guardPol(pa, "len", objP, "==1") == 1
			})
	}
	// list pattern
	listPat := selectPaths(pr.paths, func(pa *Path) bool { return guardPol(pa, "kind", patP, "list") == 1 })
	pr.all("list pattern against a non-list value: no match", selectPaths(listPat, func(pa *Path) bool { return guardPol(pa, "kind", objP, "list") == -1 }), "returns false",
		func(pa *Path) (bool, string) {
			if retBool(pa, "false") {
				return true, ""
			}
			return false, "a list pattern must not match a non-list value"
		})
	ov, lpv := mElemOf(objP), mElemOf(patP)
	recL := mCall("bkl.match", ov, lpv)
	pr.some("list pattern: each pattern entry must match some entry of the value", listPat, "for each pattern entry, some obj entry with match(entry, patternEntry)", "list patterns no longer test match(valueEntry, patternEntry)",
		func(pa *Path) bool { return guardPol(pa, "truth", recL, nil) == 1 })
	pr.all("list pattern: a pattern entry without any matching value entry fails the match", selectPaths(listPat, func(pa *Path) bool {
		// inner loop over obj exhausted for some pattern entry
		return guardPol(pa, "kind", objP, "list") == 1 && guardPol(pa, "itermore", mOp("range", objP), nil) == -1 && guardPol(pa, "itermore", mOp("range", patP), nil) == 1
	}), "returns false", func(pa *Path) (bool, string) {
		if retBool(pa, "false") {
			return true, ""
		}
		return false, "when no value entry matches a pattern entry the result must be false, got " + pa.End
	})
	pr.all("list pattern: all pattern entries matched means match", selectPaths(listPat, func(pa *Path) bool {
		return guardPol(pa, "kind", objP, "list") == 1 && guardPol(pa, "itermore", mOp("range", patP), nil) == -1 && pa.End == "return"
	}), "returns true", func(pa *Path) (bool, string) {
		if retBool(pa, "true") {
			return true, ""
		}
		return false, "after every pattern entry found a match the result must be true"
	})
	// only-if directions: no verdict without the evidence for it (a shortcut such as "a longer pattern cannot
	// match" answers false although every pattern entry has a matching value entry)
	pr.all("list pattern: no match only when some pattern entry has no matching value entry", selectPaths(listPat, func(pa *Path) bool {
		return guardPol(pa, "kind", objP, "list") == 1 && retBool(pa, "false")
	}), "false is returned only after the search through the value for one pattern entry is exhausted", func(pa *Path) (bool, string) {
		if guardPol(pa, "itermore", mOp("range", objP), nil) == -1 && guardPol(pa, "itermore", mOp("range", patP), nil) == 1 {
			return true, ""
		}
		return false, "a list pattern is rejected without any pattern entry having been searched for in vain"
	})
	pr.all("list pattern: match only when every pattern entry was found", selectPaths(listPat, func(pa *Path) bool {
		return guardPol(pa, "kind", objP, "list") == 1 && retBool(pa, "true")
	}), "true is returned only after the last pattern entry", func(pa *Path) (bool, string) {
		if guardPol(pa, "itermore", mOp("range", patP), nil) == -1 {
			return true, ""
		}
		return false, "a list pattern is accepted before all of its entries were looked for"
	})
	// $invert is looked at before any verdict: a "false" for a value that is not a map (or an early "true")
	// returned before the pattern's $invert has been examined is not negated (seed C01-k)
	pr.all("map pattern: $invert is examined before any verdict", selectPaths(mapPat, func(pa *Path) bool {
		return pa.End == "return" && len(pa.Results) == 1 && (pa.Results[0].IsConst("true") || pa.Results[0].IsConst("false"))
	}), "every constant verdict is returned on a path that has decided whether $invert: true is present", func(pa *Path) (bool, string) {
		if isInvert(pa) != 0 {
			return true, ""
		}
		return false, "a verdict is returned before the pattern's $invert was looked at: with $invert: true it is not negated"
	})
	pr.all("map pattern: no match only when an entry fails (or the value is an unevaluated reference)", selectPaths(plainMap, func(pa *Path) bool {
		return guardPol(pa, "kind", objP, "map") == 1 && retBool(pa, "false")
	}), "false is returned only after match(obj[k], v) failed for a pattern entry, or by the placeholder rule", func(pa *Path) (bool, string) {
		if guardPol(pa, "truth", recEntry, nil) == -1 {
			return true, ""
		}
		if guardPol(pa, "len", objP, "==1") == 1 {
			for _, d := range placeholders {
				if keyIsOrIsIn(pa, mKeyOf(objP), d, placeholders) {
					return true, ""
				}
			}
		}
		return false, "a map pattern is rejected although no pattern entry failed"
	})
	pr.all("map pattern: match only when every pattern entry was compared", selectPaths(plainMap, func(pa *Path) bool {
		return guardPol(pa, "kind", objP, "map") == 1 && retBool(pa, "true")
	}), "true is returned only after the last pattern entry", func(pa *Path) (bool, string) {
		if guardPol(pa, "itermore", mOp("range", patClone), nil) == -1 {
			return true, ""
		}
		return false, "a map pattern is accepted before all of its entries were compared"
	})
	_ = obj
}

// ---- deepClone contract -----------------------------------------------------------------------

func ruleDeepClone(p *Prog, r *Result) {
	pr := newPSRule(p, r, "C01.clone", "bkl.deepClone", PSOpts{})
	pr.all("deepClone returns a structurally independent copy", selectPaths(pr.paths, isSuccess), "the result is decoded from an encoding of the argument into a fresh variable (no sharing with the argument)", func(pa *Path) (bool, string) {
		res := pa.Results[0]
		if rootParams(res)["v"] && res.Op != "out" {
			return false, "the result is (part of) the argument itself: " + res.String()
		}
		if res.Op != "out" {
			return false, "the result is not produced by a decoder: " + res.String()
		}
		enc := res.Find(func(x *T) bool {
			return x.Op == "call" && strings.HasSuffix(x.Name, ".Marshal") && len(x.Args) > 0 && x.Args[0].IsParam("v")
		})
		if len(enc) == 0 {
			return false, "what is decoded is not an encoding of the argument"
		}
		return true, ""
	})
}

// ruleC07Required (C07.required): a "$required" entry in a parent list is satisfied — removed — only
// when the child actually supplies a list. Every path of merge on which the parent's entries are tested
// against "$required" is a path where the child is a list.
func ruleC07Required(p *Prog, r *Result) {
	pr := newPSRule(p, r, "C07.required", "bkl.merge", mergeOpts)
	fromDst := func(t *T) bool { return pr.elemOfParam(t, "dst") }
	strip := selectPaths(pr.paths, func(pa *Path) bool { return guardPol(pa, "streq", TM(fromDst), q("$required")) != 0 })
	pr.all(`the parent's "$required" list marker is removed only by a child list`, strip, "every path that looks for the marker in the parent has kind(child) = list", func(pa *Path) (bool, string) {
		if guardPol(pa, "kind", mParam("src"), "list") == 1 {
			return true, ""
		}
		return false, `the parent list's "$required" marker is stripped although the child is not a list (null or absent child: nothing overrides the requirement, yet evaluation succeeds)`
	})
}

// keyIsOrIsIn: on this path the key is known to equal name — by a direct comparison, or by having been found in
// a constant list that holds name and nothing outside allowed (slices.Contains([]string{...}, k)).
func keyIsOrIsIn(pa *Path, key TM, name string, allowed []string) bool {
	if guardPol(pa, "streq", key, q(name)) == 1 {
		return true
	}
	for _, g := range pa.Guards {
		if g.Kind != "eq" || g.Neg || g.A == nil || g.B == nil {
			continue
		}
		for _, pair := range [][2]*T{{g.A, g.B}, {g.B, g.A}} {
			k, el := pair[0], pair[1]
			if !key(k) || el.Op != "elem" || len(el.Args) != 1 || el.Args[0].Op != "lit" {
				continue
			}
			has, onlyAllowed := false, true
			for _, c := range el.Args[0].Args {
				s, ok := c.StrConst()
				if !ok {
					onlyAllowed = false
					continue
				}
				if s == name {
					has = true
				}
				inAllowed := false
				for _, a := range allowed {
					if a == s {
						inAllowed = true
					}
				}
				if !inAllowed {
					onlyAllowed = false
				}
			}
			if has && onlyAllowed {
				return true
			}
		}
	}
	return false
}
