package main

// Ownership rules: C02.indep / C09.alias (merge sources are private copies), C10.owned (what a
// reference resolves to is read-only), C19.pure (output methods do not write parser state),
// C02.order / C02.frame (who may write Parser.docs and Document fields).

import (
	"fmt"
	"go/types"
	"sort"
	"strings"

	"golang.org/x/tools/go/ssa"
)

var mergeEntries = map[string]int{"bkl.merge": 1, "bkl.mergeMap": 1, "bkl.mergeList": 1, "bkl.mergeMapMap": 1, "bkl.mergeListList": 1}

func describeDerivs(ds []Deriv) string {
	var ss []string
	for _, d := range ds {
		ss = append(ss, d.String())
	}
	sort.Strings(ss)
	return strings.Join(dedupStrings(ss), ", ")
}

// privateCopy: every derivation is a constant or a fresh deep copy (result of deepClone, i.e. a
// value decoded by an external decoder), never a projection of a parameter or of live data.
func privateCopy(ds []Deriv) (bool, string) {
	if len(ds) == 0 {
		return false, "no derivation"
	}
	for _, d := range ds {
		switch {
		case d.Leaf:
		case d.Fresh && d.ExtOut:
		case d.Fresh && d.ElemsOK:
			if ok, why := privateCopy(d.Elems); !ok && len(d.Elems) > 0 {
				return false, "fresh container holding " + why
			}
		default:
			return false, d.String()
		}
	}
	return true, ""
}

// ruleMergeSourcesPrivate: every call into the merge family from outside it, and every re-entry
// from a closure that is run once per element with a captured (loop-invariant) source, hands merge a
// private deep copy as its source. merge keeps, returns and mutates its source (scalar/replace
// results are the source itself, list entries are appended un-cloned, $replace is deleted from
// it), so a source that is shared — with another target, with the layer, with the destination — couples
// documents or makes the result depend on evaluation order.
func ruleMergeSourcesPrivate(rule string) func(p *Prog, r *Result) {
	return func(p *Prog, r *Result) {
		g := p.CG()
		merge := p.Func("bkl.merge")
		inFamily := func(f *ssa.Function) bool { return g.SameSCC(merge, f) || f == merge }
		n := 0
		sources := map[string]bool{"bkl.get": true, "bkl.getWithVar": true}
		live := map[*ssa.Function]bool{}
		for _, f := range p.reachableRepoFuncs() {
			live[f] = true
		}
		for _, fn := range p.Funcs {
			if !live[topFunc(fn)] {
				continue // dead code (a helper left behind after inlining) cannot hand anything to merge
			}
			for _, e := range g.Out[fn] {
				if e.Kind == "funcarg" || e.Kind == "extcallback" || !p.InRepo(e.Callee) {
					continue
				}
				idx, isEntry := mergeEntries[p.FuncName(e.Callee)]
				if !isEntry {
					continue
				}
				args := e.Site.Common().Args
				if idx >= len(args) {
					continue
				}
				outside := !inFamily(topFunc(fn))
				perElement := false
				if fn.Parent() != nil && inFamily(topFunc(fn)) {
					// closure inside the family: is the source one of the closure's own parameters (the element)? then it is per-element data
					own := false
					for _, d := range p.Derive(args[idx], nil) {
						if d.Root != nil && d.Root.Parent() == fn {
							own = true
						}
					}
					perElement = !own
				}
				// a call inside the family that sits in a loop and hands merge something that is not a piece of the
				// function's own source parameter: one source for many targets, unless it is made afresh per iteration
				if !outside && !perElement && fn.Parent() == nil {
					inLoop := false
					for _, h := range loopHeaders(fn) {
						if loopBody(h)[e.Site.Block()] {
							inLoop = true
						}
					}
					if inLoop {
						own := true
						for _, d := range p.Derive(args[idx], nil) {
							if d.Root == nil || d.Root.Parent() != fn || !d.Strict {
								own = false
							}
						}
						perElement = !own
					}
				}
				if !outside && !perElement {
					continue
				}
				// a merge entry point that merely forwards its own source parameter: the obligation lies with its callers
				if outside && fn.Parent() == nil {
					if myIdx, isEntryFn := mergeEntries[p.FuncName(fn)]; isEntryFn && myIdx < len(fn.Params) {
						fwd := true
						for _, d := range p.Derive(args[idx], nil) {
							if d.Root != fn.Params[myIdx] || d.Strict {
								fwd = false
							}
						}
						if fwd {
							continue
						}
					}
				}
				n++
				key := fmt.Sprintf("%s -> %s / source argument", p.FuncName(fn), p.FuncName(e.Callee))
				ds := p.DeriveWithSources(args[idx], sources)
				if ok, why := privateCopy(ds); ok {
					// a private copy per call: when the call is repeated (a loop, a callback invoked per element) the copy
					// has to be made in the same repetition, or all targets of one layer share it
					if perElement {
						if where := madeOutsideRepetition(args[idx], e.Site); where != "" {
							r.Fail(rule, key, p.InstrPos(e.Site), "the source is copied once ("+where+") and handed to merge for every matching element: merge keeps and modifies its source, so the merged entries share one value and a later change of one of them changes the others")
							continue
						}
					}
					r.OK(rule, key, p.InstrPos(e.Site), "source is a private deep copy ("+describeDerivs(ds)+")")
				} else {
					what := "called from outside the merge family"
					if perElement {
						what = "re-entered once per matching element with the same captured source"
					}
					r.Fail(rule, key, p.InstrPos(e.Site), fmt.Sprintf("merge is %s with a source that is not a private copy (%s): merge keeps, returns and modifies its source, so this value is shared between targets / with live document data", what, why))
				}
			}
		}
		r.Count("merge_entry_call_sites", n)
		r.Floor(rule, "merge call sites from outside the family or per element", n, 4)
	}
}

// ruleReferencesReadOnly (C10.owned): a value obtained from get (an alias into a live document)
// never flows into a mutating position.
func ruleReferencesReadOnly(p *Prog, r *Result) {
	own := p.Own()
	g := p.CG()
	sources := map[string]bool{"bkl.get": true, "bkl.getWithVar": true}
	nsites := 0
	bad := 0
	for _, fn := range p.Funcs {
		if sources[p.FuncName(fn)] || p.FuncName(fn) == "bkl.getCross" {
			continue // the lookup functions themselves only read
		}
		for _, e := range g.Out[fn] {
			if p.InRepo(e.Callee) && (sources[p.FuncName(e.Callee)] || p.FuncName(e.Callee) == "bkl.getCopy") {
				nsites++
				break
			}
		}
		// writes whose target derives from a get result
		for _, w := range own.Writes[topFunc(fn)] {
			if w.Fn != fn {
				continue
			}
			for _, d := range p.DeriveWithSources(w.Target, sources) {
				if d.Source != nil {
					bad++
					r.Fail("C10.owned", fmt.Sprintf("%s / %s into a referenced subtree", p.FuncName(fn), w.Kind), p.InstrPos(w.Instr), "writes into the value a reference resolved to; the referenced subtree of the live document changes")
				}
			}
		}
		for _, e := range g.Out[fn] {
			if e.Kind == "funcarg" || e.Kind == "extcallback" {
				continue
			}
			for j, a := range e.Site.Common().Args {
				if !isRefType(a.Type()) || !own.CalleeMutates(e.Callee, j) {
					continue
				}
				for _, d := range p.DeriveWithSources(a, sources) {
					if d.Source != nil {
						bad++
						why, _ := "", ""
						if p.InRepo(e.Callee) {
							_, why = own.Mut(e.Callee, j)
						}
						r.Fail("C10.owned", fmt.Sprintf("%s / result of %s passed to %s", p.FuncName(fn), d.Source.Common().StaticCallee().Name(), g.name(e.Callee)), p.InstrPos(e.Site),
							fmt.Sprintf("the subtree a reference resolved to (an alias into a live document) is handed to %s, which writes its argument (%s): the referenced subtree is modified, and evaluated in the referencing document's context", g.name(e.Callee), why))
					}
				}
			}
		}
	}
	if bad == 0 {
		r.OK("C10.owned", "reference results never reach a mutating position", "", fmt.Sprintf("%d functions that resolve references inspected: every write target and every argument of a mutating callee is free of get() results", nsites))
	}
	r.Floor("C10.owned", "functions that resolve references", nsites, 6)
}

// ruleOutputPure (C19.pure): output methods do not write anything reachable from the parser.
func ruleOutputPure(p *Prog, r *Result) {
	own := p.Own()
	for _, name := range []string{"bkl.(*Parser).Output", "bkl.(*Parser).OutputDocuments", "bkl.(*Parser).OutputToWriter", "bkl.(*Parser).OutputToFile", "bkl.(*Parser).Documents"} {
		fn := p.Func(name)
		mut, why := own.Mut(fn, 0)
		r.Check(!mut, "C19.pure", name+" / parser state", p.Pos(fn.Pos()), "no write (field store, map/slice element store, delete) reachable from this method targets anything derived from the parser",
			"an output method may modify the parser's merged documents: "+why)
	}
	// Process itself must not write its receiver when called on a parser document: after the
	// repair, outputDocument is only called with private clones; check the call site.
	od := p.Func("bkl.(*Parser).OutputDocuments")
	g := p.CG()
	n := 0
	for _, fn := range p.Funcs {
		if topFunc(fn) != od {
			continue
		}
		for _, e := range g.Out[fn] {
			if e.Kind == "funcarg" || !p.InRepo(e.Callee) || p.FuncName(e.Callee) != "bkl.(*Parser).outputDocument" {
				continue
			}
			n++
			for j, a := range e.Site.Common().Args {
				if j == 0 || !isRefType(a.Type()) || !own.CalleeMutates(e.Callee, j) {
					continue
				}
				ds := p.DeriveWithSources(a, map[string]bool{"bkl.(*Document).Clone": true})
				if ok, why := clonesOnly(ds); ok {
					r.OK("C19.pure", fmt.Sprintf("bkl.(*Parser).OutputDocuments / argument %d of outputDocument", j), p.InstrPos(e.Site), "evaluation works on (*Document).Clone results only: "+describeDerivs(ds))
				} else {
					r.Fail("C19.pure", fmt.Sprintf("bkl.(*Parser).OutputDocuments / argument %d of outputDocument", j), p.InstrPos(e.Site), "evaluation (which rewrites its document in place) is applied to "+why+" instead of a private clone of the parser's documents")
				}
			}
		}
	}
	r.Floor("C19.pure", "outputDocument call sites", n, 1)
}

// ruleFieldWriterCensus (C02.order, C02.frame, C08.parents): who writes Parser.docs, Document.Data,
// Document.Parents, Document.ID, Parser.root.
func ruleFieldWriterCensus(rule string) func(p *Prog, r *Result) {
	return func(p *Prog, r *Result) {
		fw := fieldWriters(p)
		expect := map[string][]string{
			modPath + ".Parser.docs":      {"bkl.(*Parser).MergeDocument", "bkl.(*Parser).mergePatchMatch"},
			modPath + ".Document.Parents": {"bkl.(*Document).AddParents", "bkl.(*Document).Clone", "bkl.mergeDocs"},
			modPath + ".Document.ID":      {},
		}
		for _, field := range sortedKeys(expect) {
			allowed := expect[field]
			seen := map[string]bool{}
			for _, w := range fw[field] {
				name := p.FuncName(topFunc(w.Fn))
				seen[name] = true
				ok := false
				for _, a := range allowed {
					if a == name {
						ok = true
					}
					// a private helper of an expected writer (reached only through it)
					if !ok && p.HasFunc(a) && p.OnlyThrough(w.Fn, p.Func(a)) {
						ok = true
					}
				}
				short := field[strings.LastIndex(field, "/")+1:]
				if !ok {
					r.Fail(rule, fmt.Sprintf("%s / writes %s", name, short), p.InstrPos(w.Instr), "a new writer of "+short+" (document order and parent identity are decided by a fixed set of writers)")
					continue
				}
				// Parser.docs: append-only
				if strings.HasSuffix(field, "Parser.docs") {
					st := w.Instr.(*ssa.Store)
					appendOnly := false
					if c, isCall := st.Val.(*ssa.Call); isCall {
						if bi, isB := c.Common().Value.(*ssa.Builtin); isB && bi.Name() == "append" {
							if u, isU := c.Common().Args[0].(*ssa.UnOp); isU {
								if fa, isFA := u.X.(*ssa.FieldAddr); isFA && fieldName(fa) == field {
									appendOnly = true
								}
							}
						}
					}
					r.Check(appendOnly, rule, fmt.Sprintf("%s / %s is only appended to", name, short), p.InstrPos(w.Instr), "p.docs = append(p.docs, x): document order is never disturbed", "Parser.docs is assigned something other than append(p.docs, x): document order can change")
				} else if strings.HasSuffix(field, "Document.Parents") {
					// the list of parents belongs to the document: it is grown (append onto itself), built afresh, or nil —
					// never a slice the caller still holds (a later append would then write into memory the caller, or a
					// sibling document that was handed the same slice, also sees)
					st, _ := w.Instr.(*ssa.Store)
					owned := st != nil && ownedSliceValue(st.Val, field, 0)
					r.Check(owned, rule, fmt.Sprintf("%s / %s stays the document's own slice", name, short), p.InstrPos(w.Instr), "append(d.Parents, ...), a fresh slice or nil",
						"Document.Parents is assigned a slice that came from outside (a parameter, another document's list): documents then share one backing array, and recording a merge target in one of them overwrites what a sibling recorded")
				} else {
					r.OK(rule, fmt.Sprintf("%s / writes %s", name, short), p.InstrPos(w.Instr), "expected writer")
				}
			}
			// (an expected writer that no longer stores the field itself — because it builds the value in a literal, or
			// delegates to a helper — is fine: the table bounds who may write, it does not oblige anyone to)
			nw := 0
			for _, a := range allowed {
				if seen[a] {
					nw++
				}
			}
			r.Count("expected_field_writers_seen", nw)
		}
		// no sort / reslice of Parser.docs: calls receiving p.docs that mutate it
		own := p.Own()
		for _, cs := range allCalls(p.Funcs) {
			if cs.Callee == nil {
				continue
			}
			for j, a := range cs.Instr.Common().Args {
				if mi, isMI := a.(*ssa.MakeInterface); isMI {
					a = mi.X
				}
				if ap := accessPath(a); strings.HasSuffix(ap, "Parser.docs") && own.CalleeMutates(cs.Callee, j) && !p.InRepo(cs.Callee) {
					r.Fail(rule, fmt.Sprintf("%s / Parser.docs passed to %s", p.FuncName(cs.Fn), cs.Name), p.InstrPos(cs.Instr), "the document list is reordered in place")
				}
			}
		}
	}
}

// clonesOnly: every derivation is the result of (*Document).Clone, or a fresh container of such.
func clonesOnly(ds []Deriv) (bool, string) {
	if len(ds) == 0 {
		return false, "nothing"
	}
	for _, d := range ds {
		switch {
		case d.Source != nil:
		case d.Leaf:
		case d.Fresh && d.ElemsOK && len(d.Elems) > 0:
			if ok, why := clonesOnly(d.Elems); !ok {
				return false, why
			}
		case d.Fresh && d.ElemsOK:
		default:
			return false, d.String()
		}
	}
	return true, ""
}

// ruleCloneContract: (*Document).Clone deep-copies the data.
func ruleCloneContract(rule string) func(p *Prog, r *Result) {
	return func(p *Prog, r *Result) {
		pr := newPSRule(p, r, rule, "bkl.(*Document).Clone", PSOpts{NoInline: map[string]bool{"bkl.deepClone": true}})
		pr.all("Clone returns a new document holding a deep copy of the data", selectPaths(pr.paths, isSuccess), "result is a fresh Document whose Data is deepClone(d.Data)", func(pa *Path) (bool, string) {
			res := pa.Results[0]
			if res.Op != "fresh" {
				return false, "the result is not a newly allocated Document: " + res.String()
			}
			for _, e := range pa.Effects {
				if e.Kind == "fieldset" && e.Args[0].String() != res.String() {
					return false, "Clone writes to another document: " + e.String()
				}
			}
			// what the clone's Data holds in the end (the last assignment counts: an explicit zero value may precede it)
			var last *T
			for _, e := range pa.Effects {
				if e.Kind == "fieldinit" && strings.HasSuffix(e.Callee, "Document.Data") && e.Args[0].String() == res.String() {
					last = e.Args[1]
				}
			}
			if last == nil {
				return false, "the clone's Data is not set"
			}
			if !mResOf(0, mCall("bkl.deepClone", mOp("field", mParam("d"))))(last) {
				return false, "the clone's Data is " + last.String() + ", not a deep copy of the original's Data"
			}
			return true, ""
		})
	}
}

// queryMethods: methods that answer a question about their receiver. Confirmed by reading: none of them
// stores into the receiver today. A cache added to one of them (memoised ancestors, a lazily built index)
// is hidden state that every writer of the underlying fields would have to invalidate — mergeDocs, for one,
// appends to Document.Parents directly.
var queryMethods = []string{
	"bkl.(*Document).AllParents", "bkl.(*Document).Clone", "bkl.(*Document).DataAsMap", "bkl.(*Document).String",
	"bkl.(*EvalContext).Clone", "bkl.(*EvalContext).GetVar",
	// (*file).parents / parentsFromSymlink are not queries: following a symlink rewrites f.path to the target
	"bkl.(*file).parentsFromFilename", "bkl.(*file).toAbsolutePaths", "bkl.(*file).String",
	"bkl.(*Parser).parents", "bkl.(*Parser).findMatches", "bkl.(*Parser).Documents",
}

// ruleQueryMethods(rule): query methods do not modify their receiver.
func ruleQueryMethods(rule string) func(p *Prog, r *Result) {
	return func(p *Prog, r *Result) {
		own := p.Own()
		n := 0
		for _, name := range queryMethods {
			if !p.HasFunc(name) {
				r.Undecided(rule, name, "", "query method not found (renamed or removed: update the table)")
				continue
			}
			fn := p.Func(name)
			n++
			mut, why := own.Mut(fn, 0)
			r.Check(!mut, rule, name+" / does not modify its receiver", p.Pos(fn.Pos()), "no store reachable from it targets the receiver or anything hanging off it",
				"a query method writes into its receiver ("+why+"): the answer is cached in the object, and stays stale when the fields it was computed from change behind its back (merge targets are appended to Parents directly; documents are shared between layers)")
		}
		r.Floor(rule, "query methods", n, 10)
	}
}

// madeOutsideRepetition: the value handed to the call at site is produced (by a call, or by an assignment to the
// variable it is read from) outside the innermost repetition the site sits in — outside the loop, or outside the
// closure that is invoked once per element. Returns a description of where, or "".
func madeOutsideRepetition(v ssa.Value, site ssa.CallInstruction) string {
	fn := site.Parent()
	var body map[*ssa.BasicBlock]bool
	for _, h := range loopHeaders(fn) {
		if b := loopBody(h); b[site.Block()] && (body == nil || len(b) < len(body)) {
			body = b
		}
	}
	if body == nil && fn.Parent() == nil {
		return ""
	}
	inside := func(in ssa.Instruction) bool {
		if in.Parent() != fn {
			return false
		}
		return body == nil || body[in.Block()]
	}
	seen := map[ssa.Value]bool{}
	var walk func(v ssa.Value) string
	walk = func(v ssa.Value) string {
		if v == nil || seen[v] {
			return ""
		}
		seen[v] = true
		switch x := v.(type) {
		case *ssa.Extract:
			return walk(x.Tuple)
		case *ssa.Call:
			if !inside(x) {
				return "by a call before the loop or outside the callback"
			}
		case *ssa.MakeInterface:
			return walk(x.X)
		case *ssa.ChangeType:
			return walk(x.X)
		case *ssa.Phi:
			for _, e := range x.Edges {
				if w := walk(e); w != "" {
					return w
				}
			}
		case *ssa.UnOp:
			switch a := x.X.(type) {
			case *ssa.Alloc:
				for _, ref := range *a.Referrers() {
					if st, ok := ref.(*ssa.Store); ok && st.Addr == ssa.Value(a) {
						if !inside(st) {
							return "assigned to " + a.Comment + " outside the repetition"
						}
						if w := walk(st.Val); w != "" {
							return w
						}
					}
				}
			case *ssa.FreeVar:
				return "captured variable " + a.Name() + ", assigned outside the callback"
			}
		}
		return ""
	}
	return walk(v)
}

// ruleListsRebuilt(rule): the library never edits a list it was handed. Every list-producing step (filterList,
// the merge and evaluation of lists, the pop* helpers) builds a new slice; a slice element written in place — by
// index, or by appending to a truncated view such as l[:0] of a parameter — changes the caller's tree: the live
// document a reference points into, the parent layer's list, the body shared by the copies of a $repeat.
func ruleListsRebuilt(rule string) func(p *Prog, r *Result) {
	return func(p *Prog, r *Result) {
		o := p.Own()
		nWrites, nFns := 0, 0
		for _, fn := range p.Funcs {
			pk := fnPkg(fn)
			if pk == nil || shortPkg(pk.Pkg.Path()) != "bkl" || fn.Parent() != nil {
				continue
			}
			nFns++
			for _, w := range o.Writes[fn] {
				nWrites++
				if w.Kind != "elemset" {
					continue
				}
				roots, _ := o.rootsOf(w.Target)
				for par := range roots {
					if _, isSlice := par.Type().Underlying().(*types.Slice); !isSlice {
						if _, isIface := par.Type().Underlying().(*types.Interface); !isIface {
							continue
						}
					}
					r.Fail(rule, fmt.Sprintf("%s / writes an element of the list reachable from parameter %s", p.FuncName(fn), p.ParamName(par)), p.InstrPos(w.Instr),
						"a list handed in is edited in place (an element store, or an append onto a truncated view of it, reuses its backing array): the caller's tree changes — a referenced subtree, the parent layer's list or the shared body of a $repeat is no longer what was written")
				}
			}
		}
		r.OK(rule, "lists are rebuilt, never edited in place", "", fmt.Sprintf("%d writes in %d library functions examined; no element store targets a slice reachable from a parameter", nWrites, nFns))
		r.Floor(rule, "container writes examined in package bkl", nWrites, 20)
	}
}

// ownedSliceValue: v is append(<the same field of some object>, ...) (growing the field in place), a fresh slice
// (make, literal, nil), a full copy (slices.Clone, append onto nil/fresh) — or a phi of such values.
func ownedSliceValue(v ssa.Value, field string, depth int) bool {
	if depth > 4 {
		return false
	}
	switch x := v.(type) {
	case *ssa.Const:
		return x.IsNil()
	case *ssa.MakeSlice:
		return true
	case *ssa.Slice:
		if _, isAlloc := x.X.(*ssa.Alloc); isAlloc {
			return true // a literal
		}
		return false
	case *ssa.Phi:
		for _, e := range x.Edges {
			if !ownedSliceValue(e, field, depth+1) {
				return false
			}
		}
		return true
	case *ssa.Call:
		if bi, ok := x.Common().Value.(*ssa.Builtin); ok && bi.Name() == "append" {
			base := x.Common().Args[0]
			if u, isU := base.(*ssa.UnOp); isU {
				if fa, isFA := u.X.(*ssa.FieldAddr); isFA && fieldName(fa) == field {
					return true
				}
			}
			return ownedSliceValue(base, field, depth+1)
		}
		if name, _ := calleeFullName(x.Common()); name == "slices.Clone" {
			return true
		}
	}
	return false
}
