package main

// C18 — with a root directory set, nothing outside it is read: who may read file content, the
// frozen list of existence probes, the root only narrows, the path handed to the root.

import (
	"fmt"
	"sort"
	"strings"

	"golang.org/x/tools/go/ssa"
)

// fileContentAPIs: functions that open or read file content. The allowed one is part of the table
// so that a run which finds none of them (matcher broken) cannot pass.
var fileContentAPIs = map[string]string{
	"(*os.Root).Open":       "allowed when the receiver is the parser's root",
	"(*os.Root).OpenFile":   "root-relative open",
	"(*os.Root).OpenRoot":   "narrowing the root (no content read)",
	"os.Open":               "reads outside the root",
	"os.OpenFile":           "reads outside the root unless write-only",
	"os.ReadFile":           "reads outside the root",
	"os.ReadDir":            "lists outside the root",
	"os.DirFS":              "filesystem view outside the root",
	"os.OpenRoot":           "a second, unrelated root",
	"io/fs.ReadFile":        "reads through an fs.FS",
	"io/fs.ReadDir":         "lists through an fs.FS",
	"io/ioutil.ReadFile":    "reads outside the root",
	"io/ioutil.ReadDir":     "lists outside the root",
	"syscall.Open":          "raw open",
	"os.Create":             "creates/truncates a file (write)",
	"os.CreateTemp":         "creates a temp file (write)",
	"os.Readlink":           "reads a link target",
	"path/filepath.Walk":    "walks a directory tree",
	"path/filepath.WalkDir": "walks a directory tree",
}

var probeAPIs = map[string]bool{"os.Stat": true, "os.Lstat": true, "path/filepath.Glob": true, "path/filepath.EvalSymlinks": true, "(*os.Root).Stat": true, "(*os.Root).Lstat": true}

func ruleC18Read(p *Prog, r *Result) {
	nAllowed, nSeen := 0, 0
	for _, cs := range allCalls(p.Funcs) {
		if _, ok := fileContentAPIs[cs.Name]; !ok {
			continue
		}
		nSeen++
		fn := p.FuncName(cs.Fn)
		key := fmt.Sprintf("%s / %s", fn, cs.Name)
		pos := p.InstrPos(cs.Instr)
		args := cs.Instr.Common().Args
		switch cs.Name {
		case "(*os.Root).Open":
			ap := accessPath(args[0])
			if strings.HasSuffix(ap, "Parser.root") {
				nAllowed++
				r.OK("C18.read", key, pos, "layer content is opened through the parser's root handle")
			} else {
				r.Fail("C18.read", key, pos, "content is opened through a root that is not the parser's ("+ap+")")
			}
		case "(*os.Root).OpenRoot":
			r.OK("C18.read", key, pos, "narrows the root (checked by C18.root)")
		case "os.OpenRoot":
			if fn == "bkl.New" {
				if c, ok := args[0].(*ssa.Const); ok && strings.Trim(c.Value.ExactString(), `"`) == "/" {
					r.OK("C18.read", key, pos, "initial root \"/\" of a new parser")
					continue
				}
			}
			r.Fail("C18.read", key, pos, "a root handle unrelated to the parser's current root is opened")
		case "os.OpenFile":
			flag, ok := constInt(args[1])
			if ok && flag&3 == 1 { // O_WRONLY
				r.OK("C18.read", key, pos, "opened write-only (output file)")
			} else {
				r.Fail("C18.read", key, pos, "a file is opened readable outside the root")
			}
		case "os.Create", "os.CreateTemp":
			if strings.HasPrefix(fn, "cmd/") || strings.HasPrefix(fn, "wrapper.") {
				r.OK("C18.read", key, pos, "write-only file created by a CLI (profile / temp output), not an input")
			} else {
				r.Fail("C18.read", key, pos, "the library creates files")
			}
		default:
			r.Fail("C18.read", key, pos, "file content can be read without going through the parser's root: "+fileContentAPIs[cs.Name])
		}
	}
	r.Count("file_content_api_calls", nSeen)
	r.Floor("C18.read", "file-content API call sites (matcher sanity; includes the allowed root.Open)", nSeen, 3)
	r.Floor("C18.read", "root.Open on the parser's root", nAllowed, 1)
	// io.ReadAll only on the handle opened through the root or stdin
	for _, cs := range allCalls(p.Funcs) {
		if cs.Name != "io.ReadAll" && cs.Name != "io/ioutil.ReadAll" {
			continue
		}
		fn := p.FuncName(cs.Fn)
		ok := fn == "bkl.(*Parser).loadFile" || p.OnlyThrough(cs.Fn, p.Func("bkl.(*Parser).loadFile"))
		r.Check(ok, "C18.read", fn+" / io.ReadAll", p.InstrPos(cs.Instr), "reads the handle loadFile obtained from the root (or stdin)", "content is read in a function other than loadFile")
	}
}

func ruleC18Probe(p *Prog, r *Result) {
	expect := map[string]string{
		"bkl.findFile / os.Stat":                                      "existence of <layer>.<ext>",
		"bkl.globFiles / path/filepath.Glob":                          "$parent wildcard expansion",
		"bkl.(*file).parentsFromSymlink / path/filepath.EvalSymlinks": "symlinked layer inherits from its target's name",
	}
	seen := map[string]bool{}
	for _, cs := range allCalls(p.Funcs) {
		if !probeAPIs[cs.Name] {
			continue
		}
		key := fmt.Sprintf("%s / %s", p.FuncName(cs.Fn), cs.Name)
		seen[key] = true
		if why, ok := expect[key]; ok {
			r.OK("C18.probe", key, p.InstrPos(cs.Instr), "known metadata probe (does not read content): "+why)
		} else {
			r.Fail("C18.probe", key, p.InstrPos(cs.Instr), "a new file-system probe bypasses the root: existence or link targets of files outside the root can influence evaluation")
		}
	}
	var ks []string
	for k := range expect {
		ks = append(ks, k)
	}
	sort.Strings(ks)
	for _, k := range ks {
		if !seen[k] {
			r.Undecided("C18.probe", k, "", "expected probe not found (moved or renamed): re-confirm the probe table")
		}
	}
}

func ruleC18Root(p *Prog, r *Result) {
	fw := fieldWriters(p)
	for _, field := range []string{modPath + ".Parser.root", modPath + ".Parser.rootPath"} {
		for _, w := range fw[field] {
			name := p.FuncName(topFunc(w.Fn))
			short := field[strings.LastIndex(field, ".")+1:]
			r.Check(name == "bkl.(*Parser).SetRoot", "C18.root", fmt.Sprintf("%s / writes Parser.%s", name, short), p.InstrPos(w.Instr), "only SetRoot changes the root", "the root is changed outside SetRoot")
		}
	}
	pr := newPSRule(p, r, "C18.root", "bkl.(*Parser).SetRoot", PSOpts{NoInline: map[string]bool{"bkl.(*Parser).log": true}})
	pP := mParam("p")
	curRoot := mOp("field", pP)
	pr.all("SetRoot can only narrow: the new root is opened relative to, and through, the current root", selectPaths(pr.paths, isSuccess), "root = p.root.OpenRoot(Rel(p.rootPath, Abs(path))); rootPath = Join(p.rootPath, rel)", func(pa *Path) (bool, string) {
		rel := mResOf(0, mCall("path/filepath.Rel", func(t *T) bool { return t.Op == "field" && t.Name == "rootPath" && pP(t.Args[0]) }, mResOf(0, mCall("path/filepath.Abs", mParam("path")))))
		okRoot, okPath := false, false
		for _, e := range pa.Effects {
			if e.Kind == "fieldset" && strings.HasSuffix(e.Callee, "Parser.root") {
				v := e.Args[1]
				if !mResOf(0, mCall("(*os.Root).OpenRoot", func(t *T) bool { return t.Op == "field" && t.Name == "root" && pP(t.Args[0]) }, rel))(v) {
					return false, "the new root is not opened through the current root with the root-relative path: " + v.String()
				}
				okRoot = true
			}
			if e.Kind == "fieldset" && strings.HasSuffix(e.Callee, "Parser.rootPath") {
				v := e.Args[1]
				if !(v.Op == "call" && v.Name == "path/filepath.Join" && len(v.Args) == 1 && v.Args[0].Op == "lit" && len(v.Args[0].Args) == 2 && rel(v.Args[0].Args[1])) {
					return false, "rootPath is not extended by the same relative path: " + v.String()
				}
				okPath = true
			}
		}
		if !okRoot || !okPath {
			return false, "root and rootPath are not both updated"
		}
		for _, n := range []string{"path/filepath.Abs", "path/filepath.Rel", "(*os.Root).OpenRoot"} {
			if guardPol(pa, "err", mCall(n), nil) != -1 {
				return false, "the error of " + n + " is not checked"
			}
		}
		return true, ""
	})
	_ = curRoot
	// loadFile: what is opened is Rel(rootPath, Abs(path)) through p.root
	lf := newPSRule(p, r, "C18.path", "bkl.(*Parser).loadFile", PSOpts{NoInline: map[string]bool{"bkl.(*Parser).log": true, "bkl.GetFormat": true, "bkl.normalize": true, "bkl.(*file).setParents": true, "bkl.isStdin": true, "bkl.ext": true, "bkl.NewDocumentWithData": true}})
	opens := selectPaths(lf.paths, func(pa *Path) bool { return hasCallEffect(pa, "(*os.Root).Open") })
	lf.all("a layer is opened through the parser's root with its root-relative path", opens, "p.root.Open(Rel(p.rootPath, Abs(path)))", func(pa *Path) (bool, string) {
		for _, e := range pa.Effects {
			if e.Callee != "(*os.Root).Open" {
				continue
			}
			if !(e.Args[0].Op == "field" && e.Args[0].Name == "root" && pP(e.Args[0].Args[0])) {
				return false, "not the parser's root"
			}
			want := mResOf(0, mCall("path/filepath.Rel", func(t *T) bool { return t.Op == "field" && t.Name == "rootPath" }, mResOf(0, mCall("path/filepath.Abs", mParam("path")))))
			if !want(e.Args[1]) {
				return false, "the path opened is " + e.Args[1].String()
			}
			if guardPol(pa, "err", mCall("path/filepath.Rel"), nil) != -1 || guardPol(pa, "err", mCall("path/filepath.Abs"), nil) != -1 {
				return false, "path computation errors are not checked"
			}
		}
		return true, ""
	})
	lf.all("content is read only from the handle opened through the root, or from stdin", selectPaths(lf.paths, func(pa *Path) bool { return hasCallEffect(pa, "io.ReadAll") }), "io.ReadAll(root handle | os.Stdin)", func(pa *Path) (bool, string) {
		for _, e := range pa.Effects {
			if e.Callee != "io.ReadAll" {
				continue
			}
			h := e.Args[0]
			if mResOf(0, mCall("(*os.Root).Open"))(h) {
				if guardPol(pa, "err", mCall("(*os.Root).Open"), nil) != -1 {
					return false, "the handle is read although opening it failed"
				}
				continue
			}
			if h.Op == "global" && h.Name == "Stdin" {
				if guardPol(pa, "truth", mCall("bkl.isStdin", mParam("path")), nil) != 1 {
					return false, "stdin is read for a path that is not '-'"
				}
				continue
			}
			return false, "content is read from " + h.String()
		}
		return true, ""
	})
}
