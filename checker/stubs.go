package main

import (
	"encoding/json"
	"fmt"
	"os"
	"os/exec"
	"path/filepath"
	"strconv"
)

func strconvQuote(s string) string { return strconv.Quote(s) }

func strconvUnquote(s string) (string, error) { return strconv.Unquote(s) }

// thoroughExtras runs the self-validation corpus for the property (seeded mutants must be caught by
// the tagged rule, benign variants must stay silent) and returns a summary for the evidence. A
// failing self-test is a checker failure (exit 2), never a VIOLATION against /repo.
func thoroughExtras(repo, verif string, spec PropSpec) map[string]any {
	out := map[string]any{}
	script := filepath.Join(verif, "selftest", "run.py")
	if _, err := os.Stat(script); err != nil {
		out["selftest"] = "not available"
		return out
	}
	tmp, err := os.CreateTemp("", "bklselftest-*.json")
	if err != nil {
		out["selftest"] = err.Error()
		return out
	}
	tmp.Close()
	defer os.Remove(tmp.Name())
	cmd := exec.Command("python3", script, "--prop", spec.ID, "--repo", repo, "--json", tmp.Name(), "--jobs", "16")
	b, runErr := cmd.CombinedOutput()
	var res []map[string]any
	if data, err := os.ReadFile(tmp.Name()); err == nil {
		_ = json.Unmarshal(data, &res)
	}
	counts := map[string]int{}
	var failed []string
	for _, r := range res {
		st, _ := r["status"].(string)
		counts[st]++
		if st != "ok" && st != "skipped" {
			failed = append(failed, fmt.Sprintf("%v: %s", r["id"], st))
		}
	}
	out["selftest_cases"] = len(res)
	out["selftest_counts"] = counts
	if runErr != nil || len(failed) > 0 {
		out["selftest_failed"] = failed
		undecided("self-validation failed for %s: %v %v\n%s", spec.ID, failed, runErr, tail(string(b), 1500))
	}
	return out
}

func tail(s string, n int) string {
	if len(s) <= n {
		return s
	}
	return s[len(s)-n:]
}
