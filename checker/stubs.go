package main

func dumpPaths(p *Prog, name string) {}

func thoroughExtras(repo, verif string, spec PropSpec) map[string]any { return nil }
