package main

import "strconv"

func strconvQuote(s string) string { return strconv.Quote(s) }

func strconvUnquote(s string) (string, error) { return strconv.Unquote(s) }

func thoroughExtras(repo, verif string, spec PropSpec) map[string]any { return nil }
