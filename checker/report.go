package main

// Obligations, findings, known-findings matching, evidence output.

import (
	"encoding/json"
	"fmt"
	"os"
	"path/filepath"
	"sort"
	"strings"
	"time"
)

type Status int

const (
	Discharged Status = iota
	Violated
	Undecided
)

func (s Status) String() string {
	return [...]string{"discharged", "VIOLATED", "UNDECIDED"}[s]
}

// Obligation is one universally quantified statement about a construct of the program.
type Obligation struct {
	Rule      string `json:"rule"`      // e.g. C08.panic
	Construct string `json:"construct"` // stable key: function / construct, never a line
	Pos       string `json:"pos,omitempty"`
	Status    Status `json:"-"`
	StatusS   string `json:"status"`
	How       string `json:"how,omitempty"`    // why discharged (shape, path count, exception reason)
	Detail    string `json:"detail,omitempty"` // what failed
	Config    string `json:"config,omitempty"`
}

func (o *Obligation) Key() string { return o.Rule + " / " + o.Construct }

// Result accumulates the obligations of one property check.
type Result struct {
	Property string
	Obls     []*Obligation
	Notes    []string
	Analysed map[string]int // what was analysed: counters
	cfg      string
}

func NewResult(prop string) *Result {
	return &Result{Property: prop, Analysed: map[string]int{}}
}

func (r *Result) add(rule, construct, pos string, st Status, msg string) *Obligation {
	o := &Obligation{Rule: rule, Construct: construct, Pos: pos, Status: st, Config: r.cfg}
	if st == Discharged {
		o.How = msg
	} else {
		o.Detail = msg
	}
	r.Obls = append(r.Obls, o)
	return o
}

func (r *Result) OK(rule, construct, pos, how string) { r.add(rule, construct, pos, Discharged, how) }
func (r *Result) Fail(rule, construct, pos, detail string) {
	r.add(rule, construct, pos, Violated, detail)
}
func (r *Result) Undecided(rule, construct, pos, detail string) {
	r.add(rule, construct, pos, Undecided, detail)
}

// Check adds a discharged or violated obligation depending on ok.
func (r *Result) Check(ok bool, rule, construct, pos, how, detail string) bool {
	if ok {
		r.OK(rule, construct, pos, how)
	} else {
		r.Fail(rule, construct, pos, detail)
	}
	return ok
}

// Floor: an instance-count floor so that a rule cannot pass vacuously.
func (r *Result) Floor(rule, what string, got, want int) {
	c := fmt.Sprintf("floor(%s)", what)
	// the floor guards against a rule that silently lost (most of) its instances, not against ordinary
	// maintenance: counts of four or more may shrink by a quarter (a loop replaced by a library call, two helpers
	// merged) before the rule is declared undecided
	eff := want
	if want >= 4 {
		eff = want - want/4
	}
	if got >= eff {
		r.OK(rule, c, "", fmt.Sprintf("%d instances found (%d on the pinned tree, floor %d)", got, want, eff))
	} else {
		r.Undecided(rule, c, "", fmt.Sprintf("only %d instances of %s found, %d were confirmed by hand on the pinned tree (floor %d); the rule would pass vacuously (code moved or anchor lost)", got, what, want, eff))
	}
}

func (r *Result) Count(k string, n int) { r.Analysed[k] += n }

// ---- known findings -------------------------------------------------------------------------

type KnownFinding struct {
	Property  string `json:"property"`
	Rule      string `json:"rule"`
	Construct string `json:"construct"`
	What      string `json:"what"`   // what fails: the concrete input / call site / history
	Defect    string `json:"defect"` // D-number in DESIGN.md
}

type KnownFile struct {
	Known []KnownFinding `json:"known"`
	Fixed []string       `json:"fixed"` // "fixed: property=<id> <commit> <what failed>" — suppresses nothing
}

func loadKnown(path string) KnownFile {
	var kf KnownFile
	b, err := os.ReadFile(path)
	if err != nil {
		return kf
	}
	if err := json.Unmarshal(b, &kf); err != nil {
		undecided("known findings file %s does not parse: %v", path, err)
	}
	return kf
}

// ---- evidence --------------------------------------------------------------------------------

type Evidence struct {
	PropertyID  string         `json:"property_id"`
	Tier        string         `json:"tier"`
	Seed        int            `json:"seed"`
	Level       string         `json:"level"`
	Coverage    map[string]any `json:"coverage"`
	Assumptions []string       `json:"assumptions"`
	WallS       float64        `json:"wall_s"`
	Violations  int            `json:"violations"`
}

type Outcome struct {
	Exit        int
	Violations  []*Obligation
	KnownHits   []KnownFinding
	UndecidedOs []*Obligation
}

// Finish prints the report, writes evidence and replay files and returns the exit status.
func Finish(results []*Result, prop, tier string, seed int, verifDir string, start time.Time, spec PropSpec, extra map[string]any) int {
	kf := loadKnown(filepath.Join(verifDir, "known_findings.json"))
	var all []*Obligation
	analysed := map[string]int{}
	var notes []string
	for _, r := range results {
		all = append(all, r.Obls...)
		for k, v := range r.Analysed {
			if v > analysed[k] {
				analysed[k] = v
			}
		}
		notes = append(notes, r.Notes...)
	}
	for _, o := range all {
		o.StatusS = o.Status.String()
	}
	// collapse identical obligations from different build configurations for matching
	var viol, undec []*Obligation
	seenKey := map[string]bool{}
	knownHit := map[int]bool{}
	for _, o := range all {
		switch o.Status {
		case Violated:
			matched := false
			for i, k := range kf.Known {
				if k.Property == prop && k.Rule == o.Rule && k.Construct == o.Construct {
					knownHit[i] = true
					matched = true
				}
			}
			if !matched && !seenKey[o.Key()] {
				seenKey[o.Key()] = true
				viol = append(viol, o)
			}
		case Undecided:
			if !seenKey["U"+o.Key()] {
				seenKey["U"+o.Key()] = true
				undec = append(undec, o)
			}
		}
	}
	discharged := 0
	distinct := map[string]bool{}
	rules := map[string]int{}
	for _, o := range all {
		distinct[o.Key()] = true
		if o.Status == Discharged {
			discharged++
		}
		rules[o.Rule]++
	}
	var ruleNames []string
	for k := range rules {
		ruleNames = append(ruleNames, k)
	}
	sort.Strings(ruleNames)

	fmt.Printf("bklcheck property=%s tier=%s repo-obligations=%d discharged=%d violated=%d undecided=%d\n", prop, tier, len(all), discharged, len(viol), len(undec))
	for _, rn := range ruleNames {
		fmt.Printf("  rule %-22s %d obligations\n", rn, rules[rn])
	}
	var ks []int
	for i := range knownHit {
		ks = append(ks, i)
	}
	sort.Ints(ks)
	for _, i := range ks {
		k := kf.Known[i]
		fmt.Printf("KNOWN-FINDING: property=%s %s / %s: %s\n", prop, k.Rule, k.Construct, k.What)
	}
	replayDir := filepath.Join(verifDir, "evidence", "replay")
	_ = os.MkdirAll(replayDir, 0o755)
	// remove stale replay files of this property
	if old, _ := filepath.Glob(filepath.Join(replayDir, prop+"-*.json")); old != nil {
		for _, f := range old {
			_ = os.Remove(f)
		}
	}
	for i, o := range viol {
		path := filepath.Join(replayDir, fmt.Sprintf("%s-%d.json", prop, i+1))
		b, _ := json.MarshalIndent(o, "", "  ")
		_ = os.WriteFile(path, b, 0o644)
		fmt.Printf("  violated: %s [%s] at %s: %s\n", o.Rule, o.Construct, o.Pos, o.Detail)
		fmt.Printf("VIOLATION property=%s replay=%s\n", prop, path)
	}
	for _, o := range undec {
		fmt.Printf("UNDECIDED property=%s %s [%s] at %s: %s\n", prop, o.Rule, o.Construct, o.Pos, o.Detail)
	}

	// samples: a few discharged obligations of each rule, written out
	var samples []any
	perRule := map[string]int{}
	for _, o := range all {
		if perRule[o.Rule+o.StatusS] < 3 {
			perRule[o.Rule+o.StatusS]++
			samples = append(samples, o)
		}
	}
	cov := map[string]any{
		"explanation":         spec.Explanation,
		"obligations":         len(all),
		"discharged":          discharged,
		"evaluations":         len(all),
		"distinct_nontrivial": len(distinct),
		"rule":                "one evaluation = one obligation (rule instance on a named construct of /repo's current source: call site, loop, path set, function) decided by the analyser on this run; distinct = distinct rule/construct keys; every obligation is non-trivial in that it names a construct found in the source, and floors make vacuous passes UNDECIDED",
		"samples":             samples,
		"checker_cmd":         strings.Join(os.Args, " "),
		"trusted_base":        spec.Trusted,
		"rules":               rules,
		"analysed":            analysed,
		"known_findings_hit":  len(ks),
		"undecided":           len(undec),
		"not_decided":         spec.NotDecided,
		"exhaustive":          true,
	}
	for k, v := range extra {
		cov[k] = v
	}
	if len(notes) > 0 {
		cov["notes"] = notes
	}
	if spec.Assumptions == nil {
		spec.Assumptions = []string{}
	}
	if spec.Trusted == nil {
		cov["trusted_base"] = []string{}
	}
	if spec.NotDecided == nil {
		cov["not_decided"] = []string{}
	}
	ev := Evidence{PropertyID: prop, Tier: tier, Seed: seed, Level: "other", Coverage: cov,
		Assumptions: spec.Assumptions, WallS: time.Since(start).Seconds(), Violations: len(viol)}
	b, _ := json.MarshalIndent(ev, "", " ")
	evPath := filepath.Join(verifDir, "evidence", prop+".json")
	if err := os.WriteFile(evPath, b, 0o644); err != nil {
		fmt.Fprintf(os.Stderr, "cannot write evidence: %v\n", err)
		return 2
	}
	switch {
	case len(viol) > 0:
		return 1
	case len(undec) > 0:
		return 2
	}
	fmt.Printf("OK property=%s: %d obligations discharged (%d known findings reported)\n", prop, discharged, len(ks))
	return 0
}
