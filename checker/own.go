package main

// OWN — mutation and alias summaries (may-analysis, flow-insensitive, interprocedural fixpoint).
//
//   Mut(f,i):  f may write (map assignment, delete, element/field store) into the object graph
//              reachable from parameter i.
//   Ret(f,i):  a result of f may share structure with parameter i.
//   Link(f,i,j): f may make part of parameter i's graph reachable from parameter j's graph.
//
// Values are related to parameters with the derivation engine (derive.go). Closures are folded
// into their top-level function. External callees do not mutate their arguments unless listed in
// extMutators; their results alias their arguments only for the clone helpers.

import (
	"fmt"
	"go/token"
	"go/types"
	"sort"
	"strings"

	"golang.org/x/tools/go/ssa"
)

// extMutators: external functions that write through an argument (index -> true).
var extMutators = map[string][]int{
	"sort.Strings":                              {0},
	"sort.Ints":                                 {0},
	"sort.Slice":                                {0},
	"sort.SliceStable":                          {0},
	"sort.Sort":                                 {0},
	"sort.Stable":                               {0},
	"slices.Sort":                               {0},
	"slices.SortFunc":                           {0},
	"slices.SortStableFunc":                     {0},
	"slices.Reverse":                            {0},
	"maps.Copy":                                 {0},
	"maps.DeleteFunc":                           {0},
	"golang.org/x/exp/slices.Sort":              {0},
	"golang.org/x/exp/slices.SortFunc":          {0},
	"golang.org/x/exp/maps.Copy":                {0},
	"encoding/json.Unmarshal":                   {1},
	"gopkg.in/yaml.v3.Unmarshal":                {1},
	"github.com/pelletier/go-toml/v2.Unmarshal": {1},
}

type Write struct {
	Fn     *ssa.Function // function containing the instruction
	Instr  ssa.Instruction
	Target ssa.Value // container written into
	Val    ssa.Value // value stored (nil for delete)
	Kind   string    // mapset | mapdel | elemset | fieldset | ptrset
	Field  string    // for fieldset: qualified field name
}

type Own struct {
	p      *Prog
	g      *CallGraph
	Writes map[*ssa.Function][]Write // per top-level function, including its closures
	mut    map[*ssa.Function]map[int]string
	done   bool

	rootCache map[ssa.Value]map[*ssa.Parameter]bool
}

func (p *Prog) Own() *Own {
	if p.own != nil {
		return p.own
	}
	o := &Own{p: p, g: p.CG(), Writes: map[*ssa.Function][]Write{}, mut: map[*ssa.Function]map[int]string{}}
	o.collectWrites()
	o.fixpoint()
	p.own = o
	return o
}

func (o *Own) collectWrites() {
	for _, fn := range o.p.Funcs {
		top := topFunc(fn)
		for _, b := range fn.Blocks {
			for _, in := range b.Instrs {
				switch x := in.(type) {
				case *ssa.MapUpdate:
					o.Writes[top] = append(o.Writes[top], Write{fn, in, x.Map, x.Value, "mapset", ""})
				case *ssa.Call:
					if bi, ok := x.Common().Value.(*ssa.Builtin); ok && bi.Name() == "delete" {
						o.Writes[top] = append(o.Writes[top], Write{fn, in, x.Common().Args[0], nil, "mapdel", ""})
					}
					if bi, ok := x.Common().Value.(*ssa.Builtin); ok && bi.Name() == "append" {
						// append(s[:k], ...) (also through a loop variable) stores into the elements of s beyond k: an
						// in-place filter / compaction rewrites the slice it was given
						if base := truncatedView(x.Common().Args[0], map[ssa.Value]bool{}, 0); base != nil {
							o.Writes[top] = append(o.Writes[top], Write{fn, in, base, nil, "elemset", ""})
						}
					}
					if bi, ok := x.Common().Value.(*ssa.Builtin); ok && bi.Name() == "copy" {
						o.Writes[top] = append(o.Writes[top], Write{fn, in, x.Common().Args[0], x.Common().Args[1], "elemset", ""})
					}
				case *ssa.Store:
					switch a := x.Addr.(type) {
					case *ssa.IndexAddr:
						if _, isAlloc := a.X.(*ssa.Alloc); isAlloc {
							continue // initialising a literal's backing array
						}
						o.Writes[top] = append(o.Writes[top], Write{fn, in, a.X, x.Val, "elemset", ""})
					case *ssa.FieldAddr:
						if _, isAlloc := a.X.(*ssa.Alloc); isAlloc {
							continue // initialising a fresh struct
						}
						o.Writes[top] = append(o.Writes[top], Write{fn, in, a.X, x.Val, "fieldset", fieldName(a)})
					case *ssa.Alloc, *ssa.FreeVar, *ssa.Global:
						// local cell / package variable: not a write into an object graph (globals are CEN's business)
					default:
						// store through a computed pointer
						o.Writes[top] = append(o.Writes[top], Write{fn, in, x.Addr, x.Val, "ptrset", ""})
					}
				}
			}
		}
	}
}

// rootsOf: parameters of the top-level function that v may derive from (any strictness), plus
// whether something was lost.
func (o *Own) rootsOf(v ssa.Value) (map[*ssa.Parameter]bool, []string) {
	if c, ok := o.rootCache[v]; ok {
		return c, nil
	}
	r, u := o.rootsOfUncached(v)
	if o.rootCache == nil {
		o.rootCache = map[ssa.Value]map[*ssa.Parameter]bool{}
	}
	o.rootCache[v] = r
	return r, u
}

func (o *Own) rootsOfUncached(v ssa.Value) (map[*ssa.Parameter]bool, []string) {
	roots := map[*ssa.Parameter]bool{}
	var unknown []string
	var walk func(ds []Deriv)
	walk = func(ds []Deriv) {
		for _, d := range ds {
			switch {
			case d.Root != nil:
				roots[d.Root] = true
			case d.Unknown != "":
				unknown = append(unknown, d.Unknown)
			case d.Fresh:
				// writing into a fresh container does not touch its elements' graphs
			}
		}
	}
	walk(o.p.DeriveAll(v))
	return roots, unknown
}

// elemRoots: parameters that the *contents* of v may derive from (v itself or, for a fresh
// container, its elements).
func (o *Own) elemRoots(v ssa.Value) map[*ssa.Parameter]bool {
	roots := map[*ssa.Parameter]bool{}
	var walk func(ds []Deriv)
	walk = func(ds []Deriv) {
		for _, d := range ds {
			if d.Root != nil {
				roots[d.Root] = true
			}
			if d.Fresh {
				walk(d.Elems)
			}
		}
	}
	walk(o.p.DeriveAll(v))
	return roots
}

func (o *Own) setMut(f *ssa.Function, i int, why string) bool {
	if o.mut[f] == nil {
		o.mut[f] = map[int]string{}
	}
	if _, ok := o.mut[f][i]; ok {
		return false
	}
	o.mut[f][i] = why
	return true
}

func (o *Own) fixpoint() {
	// direct writes
	for top, ws := range o.Writes {
		for _, w := range ws {
			roots, _ := o.rootsOf(w.Target)
			for r := range roots {
				if r.Parent() != top {
					continue
				}
				o.setMut(top, paramIndex(top, r), fmt.Sprintf("%s at %s", w.Kind, o.p.InstrPos(w.Instr)))
			}
		}
	}
	// propagation through calls
	for changed := true; changed; {
		changed = false
		for _, fn := range o.p.Funcs {
			top := topFunc(fn)
			for _, e := range o.g.Out[fn] {
				if e.Kind == "funcarg" || e.Kind == "extcallback" {
					continue
				}
				args := e.Site.Common().Args
				for j, a := range args {
					if !o.CalleeMutates(e.Callee, j) {
						continue
					}
					if !isRefType(a.Type()) {
						continue
					}
					roots, _ := o.rootsOf(a)
					for r := range roots {
						if r.Parent() != top {
							continue
						}
						if o.setMut(top, paramIndex(top, r), fmt.Sprintf("passed to %s (which writes its parameter %d) at %s", o.g.name(e.Callee), j, o.p.InstrPos(e.Site))) {
							changed = true
						}
					}
				}
			}
		}
	}
	o.done = true
}

func isRefType(t types.Type) bool {
	switch t.Underlying().(type) {
	case *types.Interface, *types.Map, *types.Slice, *types.Pointer:
		return true
	}
	return false
}

// CalleeMutates: may callee write into the graph of its j-th argument?
func (o *Own) CalleeMutates(callee *ssa.Function, j int) bool {
	if o.p.InRepo(callee) {
		if callee.Parent() != nil {
			return false // closures are folded into their top-level function
		}
		_, ok := o.mut[callee][j]
		return ok
	}
	name := callee.String()
	if or := callee.Origin(); or != nil {
		name = or.String()
	}
	for _, i := range extMutators[name] {
		if i == j {
			return true
		}
	}
	return false
}

// Mut reports whether f may write into parameter i's graph, and why.
func (o *Own) Mut(f *ssa.Function, i int) (bool, string) {
	w, ok := o.mut[f][i]
	return ok, w
}

// MutSummary lists the mutated parameters of every repo function, for evidence/debugging.
func (o *Own) MutSummary() []string {
	var out []string
	for f, m := range o.mut {
		var is []int
		for i := range m {
			is = append(is, i)
		}
		sort.Ints(is)
		var parts []string
		for _, i := range is {
			name := "?"
			if i >= 0 && i < len(f.Params) {
				name = f.Params[i].Name()
			}
			parts = append(parts, fmt.Sprintf("%s: %s", name, m[i]))
		}
		out = append(out, fmt.Sprintf("%s mutates {%s}", o.p.FuncName(f), strings.Join(parts, "; ")))
	}
	sort.Strings(out)
	return out
}

var _ = token.ADD

// truncatedView: v is (possibly via loop variables and earlier appends) a shortened view s[:k] of an
// existing slice s without a capacity limit; returns s. Appending to such a view overwrites s's elements.
func truncatedView(v ssa.Value, seen map[ssa.Value]bool, depth int) ssa.Value {
	if v == nil || seen[v] || depth > 6 {
		return nil
	}
	seen[v] = true
	switch x := v.(type) {
	case *ssa.Slice:
		if x.High != nil && x.Max == nil {
			if _, isArr := x.X.Type().Underlying().(*types.Pointer); isArr {
				return nil // slice of a local array (literal)
			}
			if _, isStr := x.X.Type().Underlying().(*types.Basic); isStr {
				return nil
			}
			return x.X
		}
		return truncatedView(x.X, seen, depth+1)
	case *ssa.Phi:
		for _, e := range x.Edges {
			if b := truncatedView(e, seen, depth+1); b != nil {
				return b
			}
		}
	case *ssa.Call:
		if bi, ok := x.Common().Value.(*ssa.Builtin); ok && bi.Name() == "append" {
			return truncatedView(x.Common().Args[0], seen, depth+1)
		}
	case *ssa.ChangeType:
		return truncatedView(x.X, seen, depth+1)
	}
	return nil
}
