package main

// ORD — every native range over a Go map must be insensitive to iteration order (C09.range).
//
// Accepted shapes, decided on the loop body in SSA:
//   S2 commutative writes: the only effects are writes map'[key] = v / delete(map', key) on a map
//      other than the ranged one, keyed by the range key itself or an injective image of it,
//      stores to iteration-local cells, stores of one constant to a flag cell, and calls that do
//      not write outside the entry being visited;
//   S3 boolean fold: every exit inside the loop returns the same constants;
//   S4 first-error: early exits return a non-nil error (which one may vary, success/failure not).
// Anything else (loop-carried accumulators, appends, break, returning the key) is order-sensitive.

import (
	"fmt"
	"go/constant"
	"go/token"
	"go/types"
	"sort"
	"strings"

	"golang.org/x/tools/go/ssa"
)

// ordExceptions: single constructs accepted with a reason.
var ordExceptions = map[string]string{
	"bkl.findFile / range over package variable formatByExtension": "returns the first existing <name>.<ext>; the property's own precondition is that each layer name is provided by exactly one file, so at most one candidate exists and the iteration order cannot change the result",
}

type mapLoop struct {
	fn     *ssa.Function
	rng    *ssa.Range
	next   *ssa.Next
	header *ssa.BasicBlock
	body   map[*ssa.BasicBlock]bool
	key    ssa.Value                // extract #1 (may be nil)
	val    ssa.Value                // extract #2 (may be nil)
	region map[*ssa.BasicBlock]bool // blocks executed within one iteration (body + exit paths)
}

func findMapLoops(p *Prog, fn *ssa.Function) []*mapLoop {
	var out []*mapLoop
	for _, b := range fn.Blocks {
		for _, in := range b.Instrs {
			rg, ok := in.(*ssa.Range)
			if !ok {
				continue
			}
			if _, isMap := rg.X.Type().Underlying().(*types.Map); !isMap {
				continue
			}
			for _, ref := range *rg.Referrers() {
				nx, ok := ref.(*ssa.Next)
				if !ok {
					continue
				}
				l := &mapLoop{fn: fn, rng: rg, next: nx, header: nx.Block(), body: map[*ssa.BasicBlock]bool{}}
				for _, bb := range fn.Blocks {
					if inLoop(l.header, bb) {
						l.body[bb] = true
					}
				}
				for _, r2 := range *nx.Referrers() {
					if ex, ok := r2.(*ssa.Extract); ok {
						switch ex.Index {
						case 1:
							l.key = ex
						case 2:
							l.val = ex
						}
					}
				}
				out = append(out, l)
			}
		}
	}
	return out
}

func describeRanged(p *Prog, v ssa.Value) string {
	switch x := v.(type) {
	case *ssa.Parameter:
		if g := p.paramAlwaysGlobal(x, 0); g != nil {
			return "package variable " + g.Name()
		}
		return "parameter " + x.Name()
	case *ssa.UnOp:
		if g, ok := x.X.(*ssa.Global); ok {
			return "package variable " + g.Name()
		}
	case *ssa.TypeAssert:
		return describeRanged(p, x.X)
	case *ssa.Extract:
		if c, ok := x.Tuple.(*ssa.Call); ok {
			return fmt.Sprintf("result #%d of %s", x.Index, calleeName(p, c.Common()))
		}
		if ta, ok := x.Tuple.(*ssa.TypeAssert); ok {
			return describeRanged(p, ta.X)
		}
	case *ssa.Call:
		return "result of " + calleeName(p, x.Common())
	}
	return describeValue(p, v)
}

// ruleMapRanges implements C09.range.
func ruleMapRanges(p *Prog, r *Result) {
	own := p.Own()
	n := 0
	for _, fn := range p.reachableRepoFuncs() {
		for _, l := range findMapLoops(p, fn) {
			n++
			key := fmt.Sprintf("%s / range over %s", p.FuncName(fn), describeRanged(p, l.rng.X))
			pos := p.InstrPos(l.rng)
			if why, ok := ordExceptions[key]; ok {
				r.OK("C09.range", key, pos, "reasoned exception: "+why)
				continue
			}
			shapes, problems := checkMapLoop(p, own, l)
			if len(problems) == 0 {
				sort.Strings(shapes)
				r.OK("C09.range", key, pos, "order-insensitive: "+strings.Join(dedupStrings(shapes), "; "))
			} else {
				r.Fail("C09.range", key, pos, "iteration order of a Go map can be observed: "+strings.Join(dedupStrings(problems), "; "))
			}
		}
	}
	r.Count("map_range_loops", n)
	r.Floor("C09.range", "native map range loops", n, 12)
}

func dedupStrings(in []string) []string {
	seen := map[string]bool{}
	var out []string
	for _, s := range in {
		if !seen[s] {
			seen[s] = true
			out = append(out, s)
		}
	}
	return out
}

func checkMapLoop(p *Prog, own *Own, l *mapLoop) (shapes, problems []string) {
	fn := l.fn
	// blocks executed per iteration: natural loop body plus exit paths up to their Return
	region := map[*ssa.BasicBlock]bool{}
	for b := range l.body {
		region[b] = true
	}
	done := l.header.Succs[1] // rangeiter.done
	var exits []*ssa.BasicBlock
	for b := range l.body {
		for _, s := range b.Succs {
			if !l.body[s] && !(b == l.header && s == done) {
				exits = append(exits, s)
			}
		}
	}
	// follow exit paths
	var walk func(b *ssa.BasicBlock, seen map[*ssa.BasicBlock]bool)
	walk = func(b *ssa.BasicBlock, seen map[*ssa.BasicBlock]bool) {
		if seen[b] {
			return
		}
		seen[b] = true
		if b == done {
			problems = append(problems, "break out of the loop ("+p.InstrPos(b.Instrs[0])+")")
			return
		}
		region[b] = true
		if _, ok := b.Instrs[len(b.Instrs)-1].(*ssa.Return); ok {
			return
		}
		if p.blockDies(b) {
			return
		}
		for _, s := range b.Succs {
			if l.body[s] {
				problems = append(problems, "exit path re-enters the loop")
				continue
			}
			walk(s, seen)
		}
	}
	seenExit := map[*ssa.BasicBlock]bool{}
	for _, e := range exits {
		walk(e, seenExit)
	}
	l.region = region

	// loop-carried phis in the header
	for _, in := range l.header.Instrs {
		phi, ok := in.(*ssa.Phi)
		if !ok {
			continue
		}
		okPhi := true
		var c *ssa.Const
		for i, e := range phi.Edges {
			if !l.body[l.header.Preds[i]] {
				continue // value on loop entry
			}
			if e == ssa.Value(phi) {
				continue
			}
			ce, isC := e.(*ssa.Const)
			if !isC {
				okPhi = false
				break
			}
			if c != nil && c.String() != ce.String() {
				okPhi = false
				break
			}
			c = ce
		}
		if okPhi {
			shapes = append(shapes, "S3 flag: loop-carried variable only ever receives one constant")
		} else if commutativeIntFold(l, phi) {
			shapes = append(shapes, "S6 integer accumulator folded with a commutative, associative operator: the total does not depend on the order of the terms")
		} else if collectsKeysThenSorts(l, phi) {
			shapes = append(shapes, "S5 the keys are collected into a slice that is sorted before anything reads it")
		} else {
			problems = append(problems, fmt.Sprintf("loop-carried variable %s accumulates across iterations", describeValue(p, phi)))
		}
	}
	// phis in body blocks that merge with values from previous iterations are impossible (SSA dominance); skip.

	isKey := func(v ssa.Value) bool { return l.key != nil && v == l.key }
	confined := func(v ssa.Value) (bool, string) {
		// derived from the range key/value, from a lookup of another map under the range key, or fresh
		return confinedTo(p, l, v, map[ssa.Value]bool{})
	}

	var blocks []*ssa.BasicBlock
	for b := range region {
		blocks = append(blocks, b)
	}
	sort.Slice(blocks, func(i, j int) bool { return blocks[i].Index < blocks[j].Index })
	for _, b := range blocks {
		for _, in := range b.Instrs {
			switch x := in.(type) {
			case *ssa.MapUpdate:
				if sameObject(p, x.Map, l.rng.X) {
					problems = append(problems, "writes the map being ranged over ("+p.InstrPos(in)+")")
					continue
				}
				if ok, how := injectiveKey(p, l, x.Key, x.Value); ok {
					shapes = append(shapes, "S2 write keyed by "+how)
				} else if okc, _ := confined(x.Map); okc {
					shapes = append(shapes, "write into the entry being visited")
				} else {
					problems = append(problems, fmt.Sprintf("map write at %s is keyed by %s, which is not an injective image of the range key (two entries may collide and the survivor depends on order)", p.InstrPos(in), describeValue(p, x.Key)))
				}
			case *ssa.Store:
				switch a := x.Addr.(type) {
				case *ssa.Alloc, *ssa.FreeVar:
					al := cellRootOf(p, a)
					if _, isC := x.Val.(*ssa.Const); isC {
						shapes = append(shapes, "constant stored to a flag")
						continue
					}
					if al != nil && cellIterationLocal(p, l, region, al) {
						shapes = append(shapes, "iteration-local variable")
						continue
					}
					// result cells of functions with defer: stored right before a return
					if al != nil && !al.Heap && storeFeedsReturn(x) {
						continue
					}
					problems = append(problems, fmt.Sprintf("variable %s assigned in the loop is read after it (last writer wins)", describeValue(p, &ssa.UnOp{X: x.Addr})))
				default:
					if okc, _ := confined(x.Addr); okc {
						shapes = append(shapes, "store into the entry being visited")
					} else if _, isAlloc := baseAlloc(x.Addr); isAlloc {
						// initialising a literal
					} else {
						problems = append(problems, "store through a pointer not confined to the visited entry ("+p.InstrPos(in)+")")
					}
				}
			case *ssa.Return:
				kind, why := classifyReturn(x)
				switch kind {
				case "const":
					shapes = append(shapes, "S3 exit returning constants "+why)
				case "error":
					shapes = append(shapes, "S4 first-error exit")
				default:
					problems = append(problems, "early return of a value that depends on which entry is visited first ("+p.InstrPos(in)+": "+why+")")
				}
			case ssa.CallInstruction:
				c := x.Common()
				if bi, ok := c.Value.(*ssa.Builtin); ok {
					switch bi.Name() {
					case "delete":
						if sameObject(p, c.Args[0], l.rng.X) {
							problems = append(problems, "deletes from the map being ranged over")
						} else if isKey(c.Args[1]) {
							shapes = append(shapes, "S2 delete keyed by the range key")
						} else {
							problems = append(problems, "delete keyed by something other than the range key ("+p.InstrPos(in)+")")
						}
					case "append":
						// result matters only if it is stored/carried: covered by phi/store rules
					case "len", "cap", "print", "println", "min", "max":
					default:
						problems = append(problems, "builtin "+bi.Name()+" in a map range")
					}
					continue
				}
				if _, isGo := in.(*ssa.Go); isGo {
					problems = append(problems, "goroutine started in a map range")
					continue
				}
				// which functions may run here?
				var callees []*ssa.Function
				for _, e := range p.CG().Out[fn] {
					if e.Site == x && e.Kind != "funcarg" && e.Kind != "extcallback" {
						callees = append(callees, e.Callee)
					}
				}
				if c.IsInvoke() {
					// interface method call: only error.Error / fmt.Stringer style reads are expected
					problems = append(problems, "interface method call "+c.Method.Name()+" in a map range ("+p.InstrPos(in)+")")
					continue
				}
				if len(callees) == 0 {
					problems = append(problems, "unresolved call in a map range ("+p.InstrPos(in)+")")
					continue
				}
				for _, callee := range callees {
					for j, a := range c.Args {
						if !isRefType(a.Type()) {
							continue
						}
						if !own.CalleeMutates(callee, j) {
							continue
						}
						if okc, _ := confined(a); okc {
							shapes = append(shapes, fmt.Sprintf("%s writes only into the entry being visited", p.CG().name(callee)))
							continue
						}
						// the loop body was moved into a helper that receives the shared map and the key: the helper
						// touches the map only at that key
						if kidx, okh := keyedHelper(callee, j); okh && kidx < len(c.Args) && isKey(c.Args[kidx]) {
							shapes = append(shapes, fmt.Sprintf("S2 %s touches the shared map only at the range key", p.CG().name(callee)))
							continue
						}
						problems = append(problems, fmt.Sprintf("%s may write into %s, which is shared across iterations (%s)", p.CG().name(callee), describeValue(p, a), p.InstrPos(in)))
					}
				}
			}
		}
	}
	if len(shapes) == 0 && len(problems) == 0 {
		shapes = append(shapes, "no effects")
	}
	return
}

func baseAlloc(v ssa.Value) (*ssa.Alloc, bool) {
	switch a := v.(type) {
	case *ssa.IndexAddr:
		al, ok := a.X.(*ssa.Alloc)
		return al, ok
	case *ssa.FieldAddr:
		al, ok := a.X.(*ssa.Alloc)
		return al, ok
	}
	return nil, false
}

func storeFeedsReturn(st *ssa.Store) bool {
	b := st.Block()
	_, ok := b.Instrs[len(b.Instrs)-1].(*ssa.Return)
	return ok
}

// sameObject: may a and b denote the same container? (same SSA value or same access path)
func sameObject(p *Prog, a, b ssa.Value) bool {
	if a == b {
		return true
	}
	strip := func(v ssa.Value) ssa.Value {
		for {
			switch x := v.(type) {
			case *ssa.TypeAssert:
				v = x.X
			case *ssa.MakeInterface:
				v = x.X
			case *ssa.ChangeType:
				v = x.X
			case *ssa.Extract:
				if ta, ok := x.Tuple.(*ssa.TypeAssert); ok && x.Index == 0 {
					v = ta.X
					continue
				}
				return v
			default:
				return v
			}
		}
	}
	a, b = strip(a), strip(b)
	if a == b {
		return true
	}
	pa, pb := accessPath(a), accessPath(b)
	return pa != "" && pa == pb && !strings.HasPrefix(pa, "val:")
}

// injectiveKey: is the written key the range key, an injective image of it, or a field of the
// stored value that by construction equals the ranged map's key?
func injectiveKey(p *Prog, l *mapLoop, key, val ssa.Value) (bool, string) {
	if l.key != nil && key == l.key {
		return true, "the range key"
	}
	// fmt.Sprintf("<const prefix>%s", rangeKey)
	if c, ok := key.(*ssa.Call); ok {
		if sc := c.Common().StaticCallee(); sc != nil && sc.String() == "fmt.Sprintf" {
			if f, ok := c.Common().Args[0].(*ssa.Const); ok && f.Value != nil && f.Value.Kind() == constant.String {
				format := constant.StringVal(f.Value)
				if strings.Count(format, "%") == 1 && (strings.HasSuffix(format, "%s") || strings.HasSuffix(format, "%v")) {
					if sl, ok := c.Common().Args[1].(*ssa.Slice); ok {
						if al, ok := sl.X.(*ssa.Alloc); ok {
							vals := literalElems(al)
							if len(vals) == 1 {
								v := vals[0]
								if mi, ok := v.(*ssa.MakeInterface); ok {
									v = mi.X
								}
								if l.key != nil && v == l.key {
									return true, fmt.Sprintf("Sprintf(%q, range key), injective", format)
								}
							}
						}
					}
				}
			}
		}
	}
	// "<const>" + rangeKey (+ "<const>"): string concatenation with constants is injective in the key
	{
		var parts []ssa.Value
		var walk func(v ssa.Value)
		walk = func(v ssa.Value) {
			if bo, ok := v.(*ssa.BinOp); ok && bo.Op == token.ADD {
				walk(bo.X)
				walk(bo.Y)
				return
			}
			parts = append(parts, v)
		}
		walk(key)
		if len(parts) > 1 {
			nKey, ok := 0, true
			for _, pv := range parts {
				if l.key != nil && pv == l.key {
					nKey++
					continue
				}
				if c, isC := pv.(*ssa.Const); isC && c.Value != nil && c.Value.Kind() == constant.String {
					continue
				}
				ok = false
			}
			if ok && nKey == 1 {
				return true, "constant text around the range key, injective"
			}
		}
	}
	// key is field F of the stored value, the stored value is the range value, and every write
	// to a map of the ranged map's type in the repository uses key = value.F (so F == range key)
	if u, ok := key.(*ssa.UnOp); ok {
		if fa, ok := u.X.(*ssa.FieldAddr); ok && l.val != nil && fa.X == l.val && val == l.val {
			fname := fieldName(fa)
			if allWritesKeyedByField(p, l.rng.X.Type(), fname) {
				return true, "field " + fname + " of the value, which equals the range key wherever such a map is filled"
			}
		}
	}
	return false, ""
}

func literalElems(al *ssa.Alloc) []ssa.Value {
	var out []ssa.Value
	for _, ref := range *al.Referrers() {
		if ia, ok := ref.(*ssa.IndexAddr); ok {
			for _, r2 := range *ia.Referrers() {
				if st, ok := r2.(*ssa.Store); ok && st.Addr == ia {
					out = append(out, st.Val)
				}
			}
		}
	}
	return out
}

func allWritesKeyedByField(p *Prog, mt types.Type, fname string) bool {
	n := 0
	for _, fn := range p.Funcs {
		for _, b := range fn.Blocks {
			for _, in := range b.Instrs {
				mu, ok := in.(*ssa.MapUpdate)
				if !ok || !types.Identical(mu.Map.Type().Underlying(), mt.Underlying()) {
					continue
				}
				n++
				u, ok := mu.Key.(*ssa.UnOp)
				if !ok {
					return false
				}
				fa, ok := u.X.(*ssa.FieldAddr)
				if !ok || fieldName(fa) != fname || fa.X != mu.Value {
					return false
				}
			}
		}
	}
	return n > 0
}

// confinedTo: v is (derived from) the range value/key, a lookup of some map under the range key,
// a fresh object, or a constant.
func confinedTo(p *Prog, l *mapLoop, v ssa.Value, seen map[ssa.Value]bool) (bool, string) {
	if seen[v] {
		return true, ""
	}
	seen[v] = true
	if (l.key != nil && v == l.key) || (l.val != nil && v == l.val) {
		return true, "range entry"
	}
	switch x := v.(type) {
	case *ssa.Const:
		return true, "constant"
	case *ssa.MakeMap, *ssa.MakeSlice, *ssa.Alloc, *ssa.MakeClosure:
		// fresh only if allocated within the iteration; an object made before the loop is shared
		if in, ok := v.(ssa.Instruction); ok && l.region[in.Block()] {
			return true, "allocated in this iteration"
		}
		return false, ""
	case *ssa.MakeInterface:
		return confinedTo(p, l, x.X, seen)
	case *ssa.ChangeInterface:
		return confinedTo(p, l, x.X, seen)
	case *ssa.ChangeType:
		return confinedTo(p, l, x.X, seen)
	case *ssa.TypeAssert:
		return confinedTo(p, l, x.X, seen)
	case *ssa.Extract:
		switch t := x.Tuple.(type) {
		case *ssa.TypeAssert:
			return confinedTo(p, l, t.X, seen)
		case *ssa.Lookup:
			if l.key != nil && t.Index == l.key {
				return true, "entry of another map under the range key"
			}
			return confinedTo(p, l, t.X, seen)
		case *ssa.Call:
			return confinedCall(p, l, t, seen)
		case *ssa.Next:
			if t == l.next {
				return true, "range entry"
			}
		}
	case *ssa.Lookup:
		if l.key != nil && x.Index == l.key {
			return true, "entry of another map under the range key"
		}
		return confinedTo(p, l, x.X, seen)
	case *ssa.Index:
		return confinedTo(p, l, x.X, seen)
	case *ssa.IndexAddr:
		return confinedTo(p, l, x.X, seen)
	case *ssa.FieldAddr:
		return confinedTo(p, l, x.X, seen)
	case *ssa.Slice:
		return confinedTo(p, l, x.X, seen)
	case *ssa.UnOp:
		switch a := x.X.(type) {
		case *ssa.IndexAddr, *ssa.FieldAddr:
			return confinedTo(p, l, a, seen)
		case *ssa.Alloc, *ssa.FreeVar:
			al := cellRootOf(p, a)
			if al == nil {
				return false, ""
			}
			for _, s := range cellStores(al) {
				if ok, _ := confinedTo(p, l, s, seen); !ok {
					return false, ""
				}
			}
			return true, "cell holding confined values"
		}
	case *ssa.Phi:
		for _, e := range x.Edges {
			if ok, _ := confinedTo(p, l, e, seen); !ok {
				return false, ""
			}
		}
		return true, "phi of confined values"
	case *ssa.Call:
		return confinedCall(p, l, x, seen)
	}
	return false, ""
}

// confinedCall: result of a call all of whose reference arguments are confined (a function of
// the visited entry only), or of a known allocator.
func confinedCall(p *Prog, l *mapLoop, c *ssa.Call, seen map[ssa.Value]bool) (bool, string) {
	if _, ok := c.Common().Value.(*ssa.Builtin); ok {
		for _, a := range c.Common().Args {
			if ok, _ := confinedTo(p, l, a, seen); !ok {
				return false, ""
			}
		}
		return true, "builtin of confined values"
	}
	if c.Common().IsInvoke() {
		return false, ""
	}
	for _, a := range c.Common().Args {
		if !isRefType(a.Type()) {
			continue
		}
		if ok, _ := confinedTo(p, l, a, seen); !ok {
			return false, ""
		}
	}
	return true, "result of a call on confined values"
}

// cellIterationLocal: every load of the cell that can observe a store made in the loop happens
// in the same iteration: the cell is not loaded outside the per-iteration region.
func cellIterationLocal(p *Prog, l *mapLoop, region map[*ssa.BasicBlock]bool, al *ssa.Alloc) bool {
	for _, ld := range cellLoads(al) {
		in, ok := ld.(ssa.Instruction)
		if !ok {
			return false
		}
		if in.Parent() != l.fn {
			return false // read in a closure: cannot tell when
		}
		if !region[in.Block()] {
			return false
		}
	}
	return true
}

// classifyReturn: "const" when every result is a constant, "error" when the error result is
// non-nil and all other results are constants (zero values), otherwise "value".
func classifyReturn(ret *ssa.Return) (string, string) {
	allConst := true
	var parts []string
	hasErr := false
	for i := range ret.Results {
		v := retValue(ret, i)
		if isErrorType(v.Type()) {
			if c, ok := v.(*ssa.Const); ok && c.IsNil() {
				parts = append(parts, "nil")
				continue
			}
			hasErr = true
			allConst = false
			continue
		}
		if c, ok := v.(*ssa.Const); ok {
			parts = append(parts, c.String())
			continue
		}
		allConst = false
		parts = append(parts, describeValueShort(v))
	}
	if allConst {
		return "const", "(" + strings.Join(parts, ", ") + ")"
	}
	if hasErr {
		for i := range ret.Results {
			v := retValue(ret, i)
			if isErrorType(v.Type()) {
				continue
			}
			if _, ok := v.(*ssa.Const); !ok {
				return "value", "returns a non-constant value together with the error"
			}
		}
		return "error", ""
	}
	return "value", "returns " + strings.Join(parts, ", ")
}

func describeValueShort(v ssa.Value) string {
	if v == nil {
		return "nil"
	}
	return strings.TrimPrefix(fmt.Sprintf("%T", v), "*ssa.")
}

// keyedHelper: callee uses its map parameter j only as m[k] (read, write, delete) with one and the same
// parameter k as key, and never hands the map itself on. Returns k's index.
func keyedHelper(callee *ssa.Function, j int) (int, bool) {
	if callee == nil || j >= len(callee.Params) || len(callee.AnonFuncs) > 0 {
		return 0, false
	}
	m := callee.Params[j]
	if _, isMap := m.Type().Underlying().(*types.Map); !isMap {
		return 0, false
	}
	kidx := -1
	setKey := func(v ssa.Value) bool {
		par, ok := v.(*ssa.Parameter)
		if !ok {
			return false
		}
		for i, q := range callee.Params {
			if q == par {
				if kidx >= 0 && kidx != i {
					return false
				}
				kidx = i
				return true
			}
		}
		return false
	}
	refs := m.Referrers()
	if refs == nil {
		return 0, false
	}
	for _, ref := range *refs {
		switch x := ref.(type) {
		case *ssa.DebugRef:
		case *ssa.MapUpdate:
			if x.Map != ssa.Value(m) || x.Value == ssa.Value(m) || !setKey(x.Key) {
				return 0, false
			}
		case *ssa.Lookup:
			if x.X != ssa.Value(m) || !setKey(x.Index) {
				return 0, false
			}
		case *ssa.Call:
			bi, ok := x.Common().Value.(*ssa.Builtin)
			if !ok {
				return 0, false
			}
			switch bi.Name() {
			case "len":
			case "delete":
				if x.Common().Args[0] != ssa.Value(m) || !setKey(x.Common().Args[1]) {
					return 0, false
				}
			default:
				return 0, false
			}
		default:
			return 0, false
		}
	}
	if kidx < 0 {
		return 0, false
	}
	return kidx, true
}

// collectsKeysThenSorts: the loop only does names = append(names, key), and after the loop names is handed to
// sort.Strings / slices.Sort before any other use: the order in which the map was visited is erased.
func collectsKeysThenSorts(l *mapLoop, phi *ssa.Phi) bool {
	// inside the loop: the phi is used only by the append that feeds it back
	var app *ssa.Call
	var backEdges []ssa.Value
	var flatten func(v ssa.Value, depth int) bool
	flatten = func(v ssa.Value, depth int) bool {
		if v == ssa.Value(phi) {
			return true // an iteration that adds nothing (a filtered key)
		}
		if inner, ok := v.(*ssa.Phi); ok && depth < 4 && l.body[inner.Block()] {
			for _, e := range inner.Edges {
				if !flatten(e, depth+1) {
					return false
				}
			}
			return true
		}
		backEdges = append(backEdges, v)
		return true
	}
	for i, e := range phi.Edges {
		if !l.body[l.header.Preds[i]] {
			continue
		}
		if !flatten(e, 0) {
			return false
		}
	}
	for _, e := range backEdges {
		c, ok := e.(*ssa.Call)
		if !ok {
			return false
		}
		bi, ok := c.Common().Value.(*ssa.Builtin)
		if !ok || bi.Name() != "append" || c.Common().Args[0] != ssa.Value(phi) {
			return false
		}
		// appended: a one-element literal holding the range key
		sl, ok := c.Common().Args[1].(*ssa.Slice)
		if !ok {
			return false
		}
		al, ok := sl.X.(*ssa.Alloc)
		if !ok {
			return false
		}
		elems := literalElems(al)
		if len(elems) != 1 || l.key == nil || elems[0] != l.key {
			return false
		}
		if app != nil && app != c {
			return false
		}
		app = c
	}
	if app == nil {
		return false
	}
	var sortCall ssa.Instruction
	var others []ssa.Instruction
	for _, ref := range *phi.Referrers() {
		if ref == ssa.Instruction(app) {
			continue
		}
		if _, isDbg := ref.(*ssa.DebugRef); isDbg {
			continue
		}
		if l.body[ref.Block()] {
			if _, isPhi := ref.(*ssa.Phi); isPhi {
				continue // merge of "added" and "skipped" inside the iteration
			}
			return false // read inside the loop
		}
		if c, ok := ref.(*ssa.Call); ok {
			if sc := c.Common().StaticCallee(); sc != nil {
				o := sc.Origin()
				if o == nil {
					o = sc
				}
				name := ""
				if o.Pkg != nil {
					name = o.Pkg.Pkg.Path() + "." + o.Name()
				}
				if name == "sort.Strings" || name == "slices.Sort" || name == "sort.Ints" {
					if sortCall != nil {
						return false
					}
					sortCall = c
					continue
				}
			}
		}
		others = append(others, ref)
	}
	// the append result may also be used after the loop through the phi only (SSA): fine
	if sortCall == nil {
		return false
	}
	for _, o := range others {
		sb, ob := sortCall.Block(), o.Block()
		if sb == ob {
			if instrIndex(sortCall) > instrIndex(o) {
				return false
			}
			continue
		}
		if !sb.Dominates(ob) {
			return false
		}
	}
	return true
}

// commutativeIntFold: the loop-carried variable is an integer that every iteration either leaves alone or
// replaces by (itself OP term) with OP one of + | & ^ * (commutative and associative on fixed-width integers,
// wrap-around included) and a term that does not read the variable; and nothing else in the loop reads it, so
// no intermediate total is observable.
func commutativeIntFold(l *mapLoop, phi *ssa.Phi) bool {
	bt, ok := phi.Type().Underlying().(*types.Basic)
	if !ok || bt.Info()&types.IsInteger == 0 {
		return false
	}
	var op token.Token
	folds := map[ssa.Value]bool{ssa.Value(phi): true}
	// values that are "the running total": the phi, inner phis merging it, and the fold results
	var isTotal func(v ssa.Value, depth int) bool
	isTotal = func(v ssa.Value, depth int) bool {
		if folds[v] {
			return true
		}
		if depth > 6 {
			return false
		}
		switch x := v.(type) {
		case *ssa.Phi:
			if !l.body[x.Block()] {
				return false
			}
			folds[v] = true
			for _, e := range x.Edges {
				if !isTotal(e, depth+1) {
					delete(folds, v)
					return false
				}
			}
			return true
		case *ssa.BinOp:
			switch x.Op {
			case token.ADD, token.OR, token.AND, token.XOR, token.MUL:
			default:
				return false
			}
			if op != 0 && op != x.Op {
				return false
			}
			var term ssa.Value
			switch {
			case isTotal(x.X, depth+1):
				term = x.Y
			case isTotal(x.Y, depth+1):
				term = x.X
			default:
				return false
			}
			if dependsOn(term, folds, 0) {
				return false
			}
			op = x.Op
			folds[v] = true
			return true
		}
		return false
	}
	for i, e := range phi.Edges {
		if !l.body[l.header.Preds[i]] {
			continue
		}
		if !isTotal(e, 0) {
			return false
		}
	}
	// no other reader inside the loop
	for v := range folds {
		refs := v.(interface{ Referrers() *[]ssa.Instruction }).Referrers()
		if refs == nil {
			continue
		}
		for _, ref := range *refs {
			if !l.body[ref.Block()] {
				continue
			}
			if rv, ok := ref.(ssa.Value); ok && folds[rv] {
				continue
			}
			if _, ok := ref.(*ssa.DebugRef); ok {
				continue
			}
			return false
		}
	}
	return op != 0
}

// dependsOn: v is computed (within a few steps of pure operators) from one of the given values.
func dependsOn(v ssa.Value, set map[ssa.Value]bool, depth int) bool {
	if set[v] {
		return true
	}
	if depth > 6 {
		return true
	}
	switch x := v.(type) {
	case *ssa.BinOp:
		return dependsOn(x.X, set, depth+1) || dependsOn(x.Y, set, depth+1)
	case *ssa.UnOp:
		return dependsOn(x.X, set, depth+1)
	case *ssa.Convert:
		return dependsOn(x.X, set, depth+1)
	case *ssa.ChangeType:
		return dependsOn(x.X, set, depth+1)
	case *ssa.Phi:
		for _, e := range x.Edges {
			if set[e] {
				return true
			}
		}
		return false
	case *ssa.Call:
		for _, a := range x.Common().Args {
			if set[a] {
				return true
			}
		}
		return false
	}
	return false
}
