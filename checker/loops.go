package main

// C08.loop — every loop of the repository has a recognised termination argument.

import (
	"fmt"
	"go/token"
	"go/types"
	"strings"

	"golang.org/x/tools/go/ssa"
)

func loopHeaders(fn *ssa.Function) []*ssa.BasicBlock {
	var out []*ssa.BasicBlock
	for _, h := range fn.Blocks {
		for _, pr := range h.Preds {
			if h.Dominates(pr) {
				out = append(out, h)
				break
			}
		}
	}
	return out
}

func loopBody(h *ssa.BasicBlock) map[*ssa.BasicBlock]bool {
	body := map[*ssa.BasicBlock]bool{}
	for _, b := range h.Parent().Blocks {
		if inLoop(h, b) {
			body[b] = true
		}
	}
	return body
}

func ruleLoops(p *Prog, r *Result) {
	n := 0
	for _, fn := range p.reachableRepoFuncs() {
		for _, h := range loopHeaders(fn) {
			n++
			body := loopBody(h)
			kind, why := classifyLoop(p, fn, h, body)
			key := fmt.Sprintf("%s / loop %s", p.FuncName(fn), describeLoop(p, h))
			pos := p.InstrPos(h.Instrs[0])
			if kind != "" {
				r.OK("C08.loop", key, pos, kind+": "+why)
			} else {
				r.Fail("C08.loop", key, pos, "loop without a recognised termination argument (not a range, not a counted loop whose variable moves towards its bound, not a walk along an acyclic link, not the decoder loop): "+why)
			}
		}
	}
	r.Count("loops", n)
	r.Floor("C08.loop", "loops examined", n, 40)
}

func describeLoop(p *Prog, h *ssa.BasicBlock) string {
	for _, in := range h.Instrs {
		if phi, ok := in.(*ssa.Phi); ok && phi.Comment != "" {
			return "over " + phi.Comment + " (" + h.Comment + ")"
		}
		if nx, ok := in.(*ssa.Next); ok {
			if rg, ok := nx.Iter.(*ssa.Range); ok {
				return "ranging " + describeRanged(p, rg.X)
			}
		}
	}
	return h.Comment
}

func invariantIn(v ssa.Value, body map[*ssa.BasicBlock]bool, seen map[ssa.Value]bool) bool {
	if seen[v] {
		return true
	}
	seen[v] = true
	switch x := v.(type) {
	case *ssa.Const, *ssa.Parameter, *ssa.FreeVar, *ssa.Global:
		return true
	case ssa.Instruction:
		if !body[x.Block()] {
			return true
		}
		switch y := v.(type) {
		case *ssa.Call:
			if bi, ok := y.Common().Value.(*ssa.Builtin); ok && (bi.Name() == "len" || bi.Name() == "cap") {
				return invariantIn(y.Common().Args[0], body, seen)
			}
			return false
		case *ssa.UnOp:
			if y.Op == token.MUL {
				// load of a field of an invariant object that nobody writes in the loop
				if fa, ok := y.X.(*ssa.FieldAddr); ok {
					if !invariantIn(fa.X, body, seen) {
						return false
					}
					name := fieldName(fa)
					for b := range body {
						for _, in := range b.Instrs {
							if st, ok := in.(*ssa.Store); ok {
								if fa2, ok := st.Addr.(*ssa.FieldAddr); ok && fieldName(fa2) == name {
									return false
								}
							}
						}
					}
					return true
				}
				if fv, ok := y.X.(*ssa.FreeVar); ok {
					return capturedNeverReassigned(fv) || capturedNotWrittenIn(fv, body)
				}
				if al, ok := y.X.(*ssa.Alloc); ok {
					for b := range body {
						for _, in := range b.Instrs {
							if st, ok := in.(*ssa.Store); ok && st.Addr == ssa.Value(al) {
								return false
							}
						}
					}
					return true
				}
				return false
			}
			return invariantIn(y.X, body, seen)
		case *ssa.BinOp:
			return invariantIn(y.X, body, seen) && invariantIn(y.Y, body, seen)
		case *ssa.Extract:
			return invariantIn(y.Tuple, body, seen)
		case *ssa.TypeAssert:
			return invariantIn(y.X, body, seen)
		case *ssa.Convert:
			return invariantIn(y.X, body, seen)
		case *ssa.ChangeType:
			return invariantIn(y.X, body, seen)
		}
	}
	return false
}

func classifyLoop(p *Prog, fn *ssa.Function, h *ssa.BasicBlock, body map[*ssa.BasicBlock]bool) (string, string) {
	// range over map / string
	for _, in := range h.Instrs {
		if nx, ok := in.(*ssa.Next); ok {
			if iff, ok := h.Instrs[len(h.Instrs)-1].(*ssa.If); ok {
				if ex, ok := iff.Cond.(*ssa.Extract); ok && ex.Tuple == ssa.Value(nx) && ex.Index == 0 {
					return "range", "native range over a finite collection"
				}
			}
		}
	}
	iff, hasIf := h.Instrs[len(h.Instrs)-1].(*ssa.If)
	// shrinking slice: for len(s) > 0 { ...; s = s[k:] } with k >= 1 on every way back to the header
	if hasIf {
		if bo, ok := iff.Cond.(*ssa.BinOp); ok {
			if ln, ok := bo.X.(*ssa.Call); ok {
				if bi, isBi := ln.Common().Value.(*ssa.Builtin); isBi && bi.Name() == "len" {
					if phi, isPhi := ln.Common().Args[0].(*ssa.Phi); isPhi && phi.Block() == h {
						k, isK := constInt(bo.Y)
						cont := (bo.Op == token.GTR && isK && k >= 0) || (bo.Op == token.NEQ && isK && k == 0) || (bo.Op == token.GEQ && isK && k >= 1)
						if cont && body[h.Succs[0]] {
							shrinks := true
							for i, e := range phi.Edges {
								if !body[h.Preds[i]] {
									continue
								}
								sl, isSl := e.(*ssa.Slice)
								if !isSl || sl.X != ssa.Value(phi) || sl.High != nil {
									shrinks = false
									break
								}
								if lo, ok := constInt(sl.Low); !ok || lo < 1 {
									shrinks = false
									break
								}
							}
							if shrinks {
								return "shrinking slice", "runs while " + describeValue(p, phi) + " is non-empty and drops at least one leading element per iteration"
							}
						}
					}
				}
			}
		}
	}
	// rotated counted loop ("for i := range n"): i = phi(0, i+1); the test (i+1) < n sits at the bottom
	for _, in := range h.Instrs {
		phi, ok := in.(*ssa.Phi)
		if !ok {
			continue
		}
		for i, e := range phi.Edges {
			if !body[h.Preds[i]] {
				continue
			}
			inc, ok := e.(*ssa.BinOp)
			if !ok || inc.Op != token.ADD || inc.X != ssa.Value(phi) {
				continue
			}
			if c, ok := constInt(inc.Y); !ok || c <= 0 {
				continue
			}
			latch := h.Preds[i]
			lif, ok := latch.Instrs[len(latch.Instrs)-1].(*ssa.If)
			if !ok {
				continue
			}
			cmp, ok := lif.Cond.(*ssa.BinOp)
			if !ok || cmp.Op != token.LSS || cmp.X != ssa.Value(inc) || latch.Succs[0] != h {
				continue
			}
			if invariantIn(cmp.Y, body, map[ssa.Value]bool{}) {
				return "counted", "rotated loop: " + describeValue(p, phi) + " grows by a positive constant and the loop is repeated only while it stays below the invariant bound " + describeValue(p, cmp.Y)
			}
		}
	}
	// induction variables
	for _, in := range h.Instrs {
		phi, ok := in.(*ssa.Phi)
		if !ok {
			continue
		}
		var step int64
		okStep := true
		var link string
		for i, e := range phi.Edges {
			if !body[h.Preds[i]] {
				continue // entry value
			}
			if bo, ok := e.(*ssa.BinOp); ok && bo.X == ssa.Value(phi) && (bo.Op == token.ADD || bo.Op == token.SUB) {
				if c, ok := constInt(bo.Y); ok && c != 0 {
					s := c
					if bo.Op == token.SUB {
						s = -c
					}
					if step != 0 && (step > 0) != (s > 0) {
						okStep = false
					}
					step = s
					continue
				}
			}
			// linked walk: phi = phi.field
			if u, ok := e.(*ssa.UnOp); ok && u.Op == token.MUL {
				if fa, ok := u.X.(*ssa.FieldAddr); ok && fa.X == ssa.Value(phi) {
					link = fieldName(fa)
					continue
				}
			}
			okStep = false
		}
		if !okStep || !hasIf {
			continue
		}
		if link != "" {
			if _, ok := acyclicLinks[link]; !ok {
				return "", "walk along " + link + ", which is not known to be acyclic"
			}
			if bo, ok := iff.Cond.(*ssa.BinOp); ok && bo.Op == token.NEQ && bo.X == ssa.Value(phi) {
				if c, ok := bo.Y.(*ssa.Const); ok && c.IsNil() && body[h.Succs[0]] {
					return "linked walk", "follows " + link + " until nil; " + acyclicLinks[link]
				}
			}
			continue
		}
		if step == 0 {
			continue
		}
		bo, ok := iff.Cond.(*ssa.BinOp)
		if !ok {
			continue
		}
		if flip, isFlip := map[token.Token]token.Token{token.GTR: token.LSS, token.GEQ: token.LEQ, token.LSS: token.GTR, token.LEQ: token.GEQ}[bo.Op]; isFlip {
			// bound on the left ("len(x) > i+1"): read it with the variable on the left
			if _, varLeft := stripAddConst(bo.X).(*ssa.Phi); !varLeft {
				if _, varRight := stripAddConst(bo.Y).(*ssa.Phi); varRight {
					bo = &ssa.BinOp{Op: flip, X: bo.Y, Y: bo.X}
				}
			}
		}
		lhs := bo.X
		if add, ok := lhs.(*ssa.BinOp); ok && add.Op == token.ADD && add.X == ssa.Value(phi) {
			if _, isC := constInt(add.Y); isC {
				lhs = phi
			}
		}
		if lhs != ssa.Value(phi) {
			continue
		}
		if !invariantIn(bo.Y, body, map[ssa.Value]bool{}) {
			return "", "the bound " + describeValue(p, bo.Y) + " changes inside the loop"
		}
		contOnTrue := body[h.Succs[0]]
		up := step > 0 && (bo.Op == token.LSS || bo.Op == token.LEQ) && contOnTrue
		down := step < 0 && (bo.Op == token.GTR || bo.Op == token.GEQ) && contOnTrue
		if up || down {
			name := phi.Comment
			if name == "" {
				name = "index"
			}
			return "counted", fmt.Sprintf("%s moves by %+d towards a loop-invariant bound (%s)", name, step, bo.Op)
		}
	}
	// decoder loop: unconditional, left on io.EOF or on error, continues only after a successful Decode
	if !hasIf || len(h.Preds) >= 2 {
		var dec *ssa.Call
		for b := range body {
			for _, in := range b.Instrs {
				if c, ok := in.(*ssa.Call); ok {
					if name, _ := calleeFullName(c.Common()); name == "(*encoding/json.Decoder).Decode" {
						dec = c
					}
				}
			}
		}
		if dec != nil {
			eofExit, errExit := false, false
			for b := range body {
				i2, ok := b.Instrs[len(b.Instrs)-1].(*ssa.If)
				if !ok {
					continue
				}
				leaves := !body[b.Succs[0]]
				if c, ok := i2.Cond.(*ssa.Call); ok {
					if name, _ := calleeFullName(c.Common()); name == "errors.Is" && c.Common().Args[0] == ssa.Value(dec) && leaves {
						if g := globalOf(c.Common().Args[1]); g != nil && g.Name() == "EOF" {
							eofExit = true
						}
					}
				}
				if bo, ok := i2.Cond.(*ssa.BinOp); ok && bo.Op == token.NEQ && bo.X == ssa.Value(dec) && leaves {
					errExit = true
				}
			}
			if eofExit && errExit {
				return "decoder", "each iteration decodes one JSON value from a finite input; the loop is left on io.EOF and on any error (library fact: Decode consumes input or fails)"
			}
		}
	}
	return "", "header " + h.Comment
}

// acyclicLinks: pointer fields along which a walk terminates.
var acyclicLinks = map[string]string{
	"github.com/gopatchy/bkl.file.child": "every file object is freshly created by loadFile with its caller's file as child, so the chain is as long as the current $parent depth",
}

var _ = types.Typ
var _ = strings.Contains

func stripAddConst(v ssa.Value) ssa.Value {
	if add, ok := v.(*ssa.BinOp); ok && (add.Op == token.ADD || add.Op == token.SUB) {
		if _, isC := constInt(add.Y); isC {
			return add.X
		}
	}
	return v
}

// capturedNotWrittenIn: the captured variable is shared only between this function literal (typically the body of
// a range-over-func loop) and the function that made it, whose code does not run while the literal does; inside
// the literal it is assigned only outside the loop in question, and its address goes nowhere else.
func capturedNotWrittenIn(fv *ssa.FreeVar, body map[*ssa.BasicBlock]bool) bool {
	fn := fv.Parent()
	parent := fn.Parent()
	if parent == nil || fv.Referrers() == nil {
		return false
	}
	for _, ref := range *fv.Referrers() {
		switch r := ref.(type) {
		case *ssa.UnOp, *ssa.DebugRef:
		case *ssa.Store:
			if r.Addr != ssa.Value(fv) || body[r.Block()] {
				return false
			}
		default:
			return false
		}
	}
	idx := -1
	for i, f := range fn.FreeVars {
		if f == fv {
			idx = i
		}
	}
	var cell ssa.Value
	n := 0
	for _, b := range parent.Blocks {
		for _, in := range b.Instrs {
			if mc, ok := in.(*ssa.MakeClosure); ok && mc.Fn == ssa.Value(fn) && idx >= 0 && idx < len(mc.Bindings) {
				cell = mc.Bindings[idx]
				n++
			}
		}
	}
	al, ok := cell.(*ssa.Alloc)
	if !ok || n != 1 || al.Referrers() == nil {
		return false
	}
	for _, ref := range *al.Referrers() {
		switch r := ref.(type) {
		case *ssa.UnOp, *ssa.DebugRef:
		case *ssa.Store:
			if r.Addr != ssa.Value(al) {
				return false
			}
		case *ssa.MakeClosure:
			if r.Fn != ssa.Value(fn) {
				return false // another literal shares the variable and could be called from the loop
			}
		default:
			return false
		}
	}
	return true
}

// capturedNeverReassigned: the variable behind a closure's free variable is a spilled parameter (or a local
// initialised once) of the enclosing function that no function sharing it assigns again: its value is the
// same at every load, whatever runs between two loads.
func capturedNeverReassigned(fv *ssa.FreeVar) bool {
	fn := fv.Parent()
	parent := fn.Parent()
	if parent == nil {
		return false
	}
	idx := -1
	for i, f := range fn.FreeVars {
		if f == fv {
			idx = i
		}
	}
	if idx < 0 {
		return false
	}
	var cell ssa.Value
	for _, b := range parent.Blocks {
		for _, in := range b.Instrs {
			if mc, ok := in.(*ssa.MakeClosure); ok && mc.Fn == ssa.Value(fn) && idx < len(mc.Bindings) {
				if cell != nil && cell != mc.Bindings[idx] {
					return false
				}
				cell = mc.Bindings[idx]
			}
		}
	}
	al, ok := cell.(*ssa.Alloc)
	if !ok || al.Referrers() == nil {
		return false
	}
	stores := 0
	for _, ref := range *al.Referrers() {
		switch r := ref.(type) {
		case *ssa.Store:
			if r.Addr != ssa.Value(al) {
				return false // the address itself is stored somewhere
			}
			stores++
		case *ssa.UnOp, *ssa.DebugRef:
		case *ssa.MakeClosure:
			cl, ok := r.Fn.(*ssa.Function)
			if !ok {
				return false
			}
			for i, bnd := range r.Bindings {
				if bnd != ssa.Value(al) || i >= len(cl.FreeVars) {
					continue
				}
				if refs := cl.FreeVars[i].Referrers(); refs != nil {
					for _, fr := range *refs {
						switch fr.(type) {
						case *ssa.UnOp, *ssa.DebugRef:
						default:
							return false // written, or passed on, inside a closure
						}
					}
				}
			}
		default:
			return false
		}
	}
	return stores <= 1
}
