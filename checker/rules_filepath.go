package main

// Contracts of the path helpers that C03 (layer lookup), C05 (format choice) and C20 (which arguments
// the wrapper rewrites) take for granted: ext, FileMatch, findFile.

import (
	"strings"
)

// ruleFilepath(prefix): <prefix>.ext, <prefix>.filematch, <prefix>.findfile
func ruleFilepath(prefix string) func(p *Prog, r *Result) {
	return func(p *Prog, r *Result) {
		pathP := mParam("path")
		// --- ext: the extension is the standard library's, without its dot
		pe := newPSRule(p, r, prefix+".ext", "bkl.ext", PSOpts{})
		stdExt := mCall("path/filepath.Ext", pathP)
		pe.all("the extension of a name is what filepath.Ext says, minus the dot", selectPaths(pe.paths, func(pa *Path) bool { return pa.End == "return" }),
			"every result is the empty string or is cut from filepath.Ext(path)", func(pa *Path) (bool, string) {
				res := pa.Results[0]
				if s, ok := res.StrConst(); ok && s == "" {
					return true, ""
				}
				if len(res.Find(func(t *T) bool { return stdExt(t) })) == 0 {
					return false, "the extension is not taken from filepath.Ext(path): a name without a dot (or with dots only in its directories) gets a bogus extension, so plain words are mistaken for file names with a format: " + truncate(res.String(), 80)
				}
				// nothing else of the path may leak into the result
				bad := res.Find(func(t *T) bool { return t.IsParam("path") })
				for _, b := range bad {
					_ = b
				}
				n := len(res.Find(func(t *T) bool { return t.IsParam("path") }))
				m := len(res.Find(func(t *T) bool { return stdExt(t) }))
				if n > m {
					return false, "the result depends on the path other than through filepath.Ext: " + truncate(res.String(), 80)
				}
				return true, ""
			})
		// --- findFile: first <path>.<known extension> that exists, else ""
		pf := newPSRule(p, r, prefix+".findfile", "bkl.findFile", PSOpts{})
		cand := func(t *T) bool {
			return mConcat(pathP, mStr("."), mKeyOf(func(x *T) bool { return x.Op == "global" && x.Name == "formatByExtension" }))(t)
		}
		pf.all("findFile answers with a probed candidate <path>.<supported extension>, or nothing", selectPaths(pf.paths, func(pa *Path) bool { return pa.End == "return" }),
			"result is \"\" after all extensions were tried, or the candidate whose os.Stat did not say 'not exist'", func(pa *Path) (bool, string) {
				res := pa.Results[0]
				if s, ok := res.StrConst(); ok && s == "" {
					if guardPol(pa, "itermore", mOp("range", func(x *T) bool { return x.Op == "global" && x.Name == "formatByExtension" }), nil) == -1 {
						return true, ""
					}
					return false, "gives up before every supported extension was tried"
				}
				if !cand(res) {
					return false, "the file reported is not <path>.<supported extension>: " + truncate(res.String(), 80)
				}
				if !hasCallEffect(pa, "os.Stat", mIs(res)) {
					return false, "the candidate returned was not probed"
				}
				ne := guardPol(pa, "truth", mCall("errors.Is", mResOf(1, mCall("os.Stat", mIs(res))), func(x *T) bool { return x.Op == "global" && x.Name == "ErrNotExist" }), nil)
				if ne != -1 {
					return false, "a candidate that does not exist is reported as found"
				}
				return true, ""
			})
		pf.all("every supported extension is probed: a candidate is passed over only because it does not exist", selectPaths(pf.paths, func(pa *Path) bool { return pa.End == "iter" }),
			"the loop continues only after os.Stat(<path>.<ext>) reported 'not exist'", func(pa *Path) (bool, string) {
				for _, e := range pa.Effects {
					if e.Callee == "os.Stat" && len(e.Args) == 1 && cand(e.Args[0]) {
						ne := guardPol(pa, "truth", mCall("errors.Is", mResOf(1, mCall("os.Stat", mIs(e.Args[0]))), func(x *T) bool { return x.Op == "global" && x.Name == "ErrNotExist" }), nil)
						if ne == 1 {
							return true, ""
						}
						return false, "an existing candidate is passed over"
					}
				}
				return false, "an extension of the format table is skipped without looking for the file: a layer stored under that extension is never found"
			})
		// --- FileMatch
		fm := newPSRule(p, r, prefix+".filematch", "bkl.FileMatch", PSOpts{NoInline: map[string]bool{"bkl.ext": true, "bkl.findFile": true}})
		extT := mCall("bkl.ext", pathP)
		known := func(pa *Path) int {
			return guardPol(pa, "has", func(x *T) bool { return x.Op == "global" && x.Name == "formatByExtension" }, TM(extT))
		}
		fm.all("a name whose extension is not a supported format is not a bkl file", selectPaths(fm.paths, func(pa *Path) bool { return known(pa) == -1 }), "ErrInvalidType", func(pa *Path) (bool, string) {
			if isFailure(pa) && wraps(lastResult(pa), "ErrInvalidType") {
				return true, ""
			}
			return false, "an argument with an unsupported (or no) extension is accepted as a file"
		})
		fm.all("results are produced only for supported extensions", selectPaths(fm.paths, isSuccess), "success implies ext(path) is in the format table, and the format returned is that extension", func(pa *Path) (bool, string) {
			if known(pa) != 1 {
				return false, "a file is reported without its extension having been found in the format table"
			}
			if !extT(pa.Results[1]) {
				return false, "the format reported is not the extension of the name asked for: " + truncate(pa.Results[1].String(), 60)
			}
			stem := func(t *T) bool {
				return t.Op == "call" && t.Name == "strings.TrimSuffix" && pathP(t.Args[0]) && t.Args[1].Op == "binop" && t.Args[1].Name == "+" && mStr(".")(t.Args[1].Args[0]) && extT(t.Args[1].Args[1])
			}
			real := pa.Results[0]
			if pathP(real) {
				// stdin
				if guardPol(pa, "streq", mCall("path/filepath.Base", stem), q("-")) == 1 {
					return true, ""
				}
				return false, "the name itself is returned although it is not the stdin marker"
			}
			if !mCall("bkl.findFile", stem)(real) {
				return false, "the real file is not looked up from the name minus its extension: " + truncate(real.String(), 80)
			}
			if guardPol(pa, "streq", mIs(real), q("")) != -1 {
				return false, "a missing file is reported as found"
			}
			return true, ""
		})
		fm.all("a name with a supported extension but no real file behind it is an error", selectPaths(fm.paths, func(pa *Path) bool {
			return guardPol(pa, "streq", mCall("bkl.findFile"), q("")) == 1
		}), "ErrMissingFile", func(pa *Path) (bool, string) {
			if isFailure(pa) && wraps(lastResult(pa), "ErrMissingFile") {
				return true, ""
			}
			return false, "a missing file is not reported as ErrMissingFile"
		})
		_ = strings.TrimSpace
	}
}
