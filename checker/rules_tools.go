package main

// C15 (bkld diff), C16 (bkli intersect), C17 (bklr required): decision tables of the three small
// recursive walkers, marker/vocabulary agreement with the evaluator, and the CLI glue.

import (
	"fmt"
	"go/constant"
	"go/token"
	"go/types"
	"strings"

	"golang.org/x/tools/go/ssa"
)

func consSel(pr *psRule, as ...Atom) []*Path {
	return selectPaths(pr.paths, func(pa *Path) bool { return consistent(pa, as) })
}

func returnsExactly(want func(*T) bool, desc string) func(*Path) (bool, string) {
	return func(pa *Path) (bool, string) {
		if pa.End != "return" || len(pa.Results) < 1 {
			return false, "expected a return, got " + pa.End
		}
		if e := lastResult(pa); len(pa.Results) > 1 && !e.IsNil() {
			return false, "expected success, got error " + errClass(e)
		}
		if !want(pa.Results[0]) {
			return false, "expected " + desc + ", got " + pa.Results[0].String()
		}
		return true, ""
	}
}

// ---- C17 ----------------------------------------------------------------------------------------

func ruleC17Table(p *Prog, r *Result) {
	pr := newPSRule(p, r, "C17.table", "cmd/bklr.required", PSOpts{})
	obj := pT("obj")
	objP := mParam("obj")
	isReq := Atom{Kind: "streq", A: obj, Const: q("$required")}
	notReq := isReq
	notReq.Neg = true
	pr.all(`a "$required" string is kept`, consSel(pr, aKind(obj, "string", false), isReq), "returns the marker itself", returnsExactly(mIs(obj), "the marker"))
	pr.all("any other string is dropped", consSel(pr, aKind(obj, "string", false), notReq), "returns nil", returnsExactly(mNil(), "nil"))
	pr.all("other scalars are dropped", consSel(pr, aKind(obj, "map", true), aKind(obj, "list", true), aKind(obj, "string", true)), "returns nil", returnsExactly(mNil(), "nil"))
	rec := mCall("cmd/bklr.required", mElemOf(objP))
	// containers: children with a non-nil result are kept under the same key / in order, others dropped
	for _, kind := range []string{"map", "list"} {
		kind := kind
		iter := selectPaths(pr.paths, func(pa *Path) bool {
			return guardPol(pa, "kind", objP, kind) == 1 && guardPol(pa, "itermore", mOp("range", objP), nil) == 1
		})
		pr.all(kind+": every child is examined recursively; kept iff its skeleton is non-empty", iter, "rec(child); nil -> skipped; non-nil -> kept under its own key / appended in order; error propagates", func(pa *Path) (bool, string) {
			if !hasCallEffect(pa, "cmd/bklr.required", mElemOf(objP)) {
				return false, "a child is not examined"
			}
			if g := guardPol(pa, "err", rec, nil); g == 1 {
				if isFailure(pa) {
					return true, ""
				}
				return false, "error of the recursion is not returned"
			}
			isNil := guardPol(pa, "kind", mResOf(0, rec), "nil")
			kept := false
			if kind == "map" {
				for _, e := range pa.Effects {
					if e.Kind == "mapset" {
						if !mKeyOf(objP)(e.Args[1]) || !mResOf(0, rec)(e.Args[2]) {
							return false, "a child's skeleton is stored under a different key or with a different value: " + e.String()
						}
						kept = true
					}
				}
			} else {
				for _, v := range pa.Carried {
					if v.Op == "append" {
						if len(v.Args) != 2 || v.Args[0].Op != "carried" || v.Args[1].Op != "lit" || len(v.Args[1].Args) != 1 || !mResOf(0, rec)(v.Args[1].Args[0]) {
							return false, "a child's skeleton is not appended as it is: " + v.String()
						}
						kept = true
					}
				}
			}
			if pa.End != "iter" {
				return false, "unexpected exit from the loop: " + pa.End
			}
			if isNil == 1 && kept {
				return false, "an empty skeleton is kept"
			}
			if isNil == -1 && !kept {
				return false, "a child containing $required is dropped"
			}
			if isNil == 0 {
				return false, "the child's result is not tested for nil"
			}
			return true, ""
		})
		done := selectPaths(pr.paths, func(pa *Path) bool {
			return guardPol(pa, "kind", objP, kind) == 1 && guardPol(pa, "itermore", mOp("range", objP), nil) == -1 && pa.End == "return"
		})
		pr.all(kind+": empty skeleton is nil, otherwise the collected children", done, "len(collected)==0 -> nil, else the collection", func(pa *Path) (bool, string) {
			if !isSuccess(pa) {
				return false, "expected success"
			}
			empty := 0
			for _, g := range pa.Guards {
				if g.Kind == "len" && (g.Const == "==0" || g.Const == ">0") {
					empty = 1
					if g.Neg != (g.Const == ">0") {
						empty = -1
					}
				}
			}
			res := pa.Results[0]
			switch empty {
			case 1:
				if !res.IsNil() {
					return false, "an empty container of skeletons must yield nil, got " + res.String()
				}
			case -1:
				if res.IsNil() || res.Op == "param" {
					return false, "a non-empty skeleton must be returned, got " + res.String()
				}
			default:
				return false, "the collected skeleton is not tested for emptiness"
			}
			return true, ""
		})
	}
}

// ---- C16 ----------------------------------------------------------------------------------------

func ruleC16Table(p *Prog, r *Result) {
	pr := newPSRule(p, r, "C16.table", "cmd/bkli.intersect", PSOpts{})
	a, b := pT("a"), pT("b")
	aP, bP := mParam("a"), mParam("b")
	req := mStr("$required")
	pr.all("other side absent (nil): nothing in common", consSel(pr, aKind(b, "nil", false)), "returns nil", returnsExactly(mNil(), "nil"))
	pr.all("this side nil: nothing in common", consSel(pr, aKind(b, "nil", true), aKind(a, "nil", false)), "returns nil", returnsExactly(mNil(), "nil"))
	scal := []Atom{aKind(b, "nil", true), aKind(a, "nil", true), aKind(a, "map", true), aKind(a, "list", true)}
	eq := Atom{Kind: "eq", A: a, B: b}
	neq := eq
	neq.Neg = true
	pr.all("equal scalars: the value", consSel(pr, append(scal, eq)...), "returns a", returnsExactly(mIs(a), "the common value"))
	pr.all("different scalars: $required", consSel(pr, append(scal, neq)...), `returns "$required"`, returnsExactly(req, `"$required"`))
	pr.all("map against non-map: $required", consSel(pr, aKind(b, "nil", true), aKind(a, "map", false), aKind(b, "map", true)), `returns "$required"`, returnsExactly(req, `"$required"`))
	pr.all("list against non-list: $required", consSel(pr, aKind(b, "nil", true), aKind(a, "list", false), aKind(b, "list", true)), `returns "$required"`, returnsExactly(req, `"$required"`))
	// map x map
	mm := selectPaths(pr.paths, func(pa *Path) bool {
		return guardPol(pa, "kind", aP, "map") == 1 && guardPol(pa, "kind", bP, "map") == 1 && guardPol(pa, "itermore", mOp("range", aP), nil) == 1
	})
	key, val := mKeyOf(aP), mElemOf(aP)
	rec := mCall("cmd/bkli.intersect", val, mLookup(bP, key))
	pr.all("map x map: only keys present in both survive; values are intersected recursively", mm, "key missing in b -> skipped; both nil -> nil kept; else rec(a[k], b[k]), nil result dropped", func(pa *Path) (bool, string) {
		has := guardPol(pa, "has", bP, TM(key))
		var sets []Effect
		for _, e := range pa.Effects {
			if e.Kind == "mapset" {
				sets = append(sets, e)
				if !key(e.Args[1]) {
					return false, "result keyed by something other than the common key: " + e.String()
				}
			}
		}
		if has == 0 {
			return false, "presence of the key in the other map is not tested"
		}
		if has == -1 {
			if len(sets) > 0 || pa.End != "iter" {
				return false, "a key missing from the other map is kept"
			}
			return true, ""
		}
		if isFailure(pa) {
			if guardPol(pa, "err", rec, nil) == 1 {
				return true, ""
			}
			return false, "failure that is not the recursion's error"
		}
		if pa.End != "iter" {
			return false, "unexpected loop exit " + pa.End
		}
		bothNil := guardPol(pa, "kind", val, "nil") == 1 && guardPol(pa, "kind", mLookup(bP, key), "nil") == 1
		if bothNil {
			if len(sets) != 1 || !sets[0].Args[2].IsNil() {
				return false, "a key that is null on both sides must be kept as null"
			}
			return true, ""
		}
		if !hasCallEffect(pa, "cmd/bkli.intersect", val, mLookup(bP, key)) {
			return false, "values of a common key are not intersected recursively (a[k] with b[k])"
		}
		isNil := guardPol(pa, "kind", mResOf(0, rec), "nil")
		if isNil == 1 && len(sets) > 0 {
			return false, "an empty intersection is stored"
		}
		if isNil == -1 && (len(sets) != 1 || !mResOf(0, rec)(sets[0].Args[2])) {
			return false, "the intersected value is not stored under the key"
		}
		if isNil == 0 {
			return false, "the recursive result is not tested for nil"
		}
		return true, ""
	})
	// map x map: what is returned is the accumulated map itself — a map value even when nothing survived
	// (a nil map would be kept by the caller's "v2 == nil" test as a typed nil and printed as null)
	mmRet := selectPaths(pr.paths, func(pa *Path) bool {
		return guardPol(pa, "kind", aP, "map") == 1 && guardPol(pa, "kind", bP, "map") == 1 && isSuccess(pa)
	})
	pr.all("map x map: the result is the accumulated map (a map even when empty)", mmRet, "returns the map the loop filled", func(pa *Path) (bool, string) {
		res := pa.Results[0]
		if res.Op == "fresh" && res.Name == "map" {
			return true, ""
		}
		return false, "map x map returns " + truncate(res.String(), 60) + " instead of the accumulated map: an empty map on either side turns into null (typed nil map) in the common base"
	})
	// list x list: membership, per-element accumulation
	ll := selectPaths(pr.paths, func(pa *Path) bool {
		return guardPol(pa, "kind", aP, "list") == 1 && guardPol(pa, "kind", bP, "list") == 1
	})
	deq := mCall("reflect.DeepEqual", mElemOf(aP), mElemOf(bP))
	eqIter := selectPaths(ll, func(pa *Path) bool { return guardPol(pa, "truth", deq, nil) == 1 })
	pr.all("list x list: an entry of a found in b is kept, as it is", eqIter, "append(result, a-entry) when DeepEqual(a-entry, b-entry)", func(pa *Path) (bool, string) {
		ok := false
		for _, v := range pa.Carried {
			if v.Op == "append" && len(v.Args) == 2 && v.Args[1].Op == "lit" && len(v.Args[1].Args) == 1 && mElemOf(aP)(v.Args[1].Args[0]) {
				ok = true
			}
		}
		if !ok {
			return false, "an entry common to both lists is not appended to the result"
		}
		return true, ""
	})
	pr.all("list x list: an entry differing from the b-entry at hand is not added", selectPaths(ll, func(pa *Path) bool { return guardPol(pa, "truth", deq, nil) == -1 }), "no append on inequality", func(pa *Path) (bool, string) {
		for _, v := range pa.Carried {
			if v.Op == "append" {
				return false, "an entry is added although it differs from the entry compared: " + v.String()
			}
		}
		return true, ""
	})
	once := newPSRule(p, r, "C16.once", "cmd/bkli.intersect", PSOpts{})
	once.all("list x list: each entry of a is accumulated at most once", eqIter, "after the append the search through b is left (the path continues with the next entry of a)", func(pa *Path) (bool, string) {
		rg := pa.LoopRange[pa.Loop]
		if pa.End != "iter" {
			return false, "unexpected end " + pa.End
		}
		if rg == a.String() {
			return true, ""
		}
		return false, fmt.Sprintf("after appending a common entry the loop over %s continues, so an entry of a that equals several entries of b is added several times ([1,1] ∩ [1,1] = four entries)", rg)
	})
	done := selectPaths(ll, func(pa *Path) bool { return pa.End == "return" })
	pr.all("list x list: nothing in common yields [$required], otherwise the common entries", done, `len==0 -> ["$required"]`, func(pa *Path) (bool, string) {
		if !isSuccess(pa) {
			return false, "expected success"
		}
		res := pa.Results[0]
		empty := 0
		for _, g := range pa.Guards {
			if g.Kind == "len" && g.Const == "==0" {
				empty = 1
				if g.Neg {
					empty = -1
				}
			}
		}
		switch empty {
		case 1:
			if res.Op == "append" && len(res.Args) == 2 && res.Args[1].Op == "lit" && len(res.Args[1].Args) == 1 && req(res.Args[1].Args[0]) {
				return true, ""
			}
			if res.Op == "lit" && len(res.Args) == 1 && req(res.Args[0]) {
				return true, ""
			}
			return false, `an empty intersection of lists must be ["$required"], got ` + res.String()
		case -1:
			if res.Op != "carried" {
				return false, "expected the accumulated common entries, got " + res.String()
			}
		default:
			return false, "emptiness of the intersection is not tested"
		}
		return true, ""
	})
}

// ruleC16Fold: main folds the inputs left to right: first document seeds, then doc = intersect(next, doc).
func ruleC16Fold(p *Prog, r *Result) {
	fn := p.Func("cmd/bkli.main")
	pos := p.Pos(fn.Pos())
	var calls []*ssa.Call
	for _, cs := range allCalls([]*ssa.Function{fn}) {
		if cs.Callee != nil && p.InRepo(cs.Callee) && p.FuncName(cs.Callee) == "cmd/bkli.intersect" {
			if c, ok := cs.Instr.(*ssa.Call); ok {
				calls = append(calls, c)
			}
		}
	}
	if len(calls) != 1 {
		r.Fail("C16.fold", "cmd/bkli.main / single fold step", pos, fmt.Sprintf("expected exactly one call of intersect in main, found %d", len(calls)))
		return
	}
	c := calls[0]
	// second argument is the accumulator (loop-carried), first is the new document's Data
	acc, isPhi := c.Common().Args[1].(*ssa.Phi)
	okAcc := isPhi
	if isPhi {
		fed := false
		for _, e := range acc.Edges {
			if ex, ok := e.(*ssa.Extract); ok && ex.Tuple == ssa.Value(c) && ex.Index == 0 {
				fed = true
			}
		}
		okAcc = fed
	}
	r.Check(okAcc, "C16.fold", "cmd/bkli.main / accumulator", p.InstrPos(c), "doc = intersect(next, doc): the running intersection is fed back as the second operand", "the running intersection is not folded through every input")
	r.Check(isDocumentData(p, c.Common().Args[0], 0), "C16.fold", "cmd/bkli.main / operand is the merged document", p.InstrPos(c), "first operand is docs[0].Data of the freshly merged input", "intersect is not applied to the input's merged document data")
	// the loop is an index-order range over InputPaths
	inRange := false
	for _, b := range fn.Blocks {
		if b == c.Block() {
			for _, h := range fn.Blocks {
				if inLoop(h, b) {
					for _, in := range h.Instrs {
						if phi, ok := in.(*ssa.Phi); ok && phi.Comment == "rangeindex" {
							inRange = true
						}
					}
				}
			}
		}
	}
	r.Check(inRange, "C16.fold", "cmd/bkli.main / argument order", p.InstrPos(c), "the fold runs inside an index-order range over the input paths", "the fold is not an in-order range over the inputs")
}

// ruleMarkerVocabulary: the literals the tools emit are exactly the ones the evaluator recognises
// in the same position (C15.vocab, C16.marker, C17.marker).
func ruleMarkerVocabulary(rule string, emitters map[string][]string) func(p *Prog, r *Result) {
	return func(p *Prog, r *Result) {
		// what the evaluator recognises: string constants compared/looked up in package bkl
		recognised := dollarLiterals(p, func(fn *ssa.Function) bool {
			pk := fnPkg(fn)
			return pk != nil && shortPkg(pk.Pkg.Path()) == "bkl"
		})
		for pkgName, lits := range emitters {
			emitted := dollarLiterals(p, func(fn *ssa.Function) bool {
				pk := fnPkg(fn)
				return pk != nil && shortPkg(pk.Pkg.Path()) == pkgName
			})
			for _, lit := range lits {
				_, e := emitted[lit]
				_, rc := recognised[lit]
				r.Check(e, rule, fmt.Sprintf("%s / emits %s", pkgName, lit), "", "literal present in the tool", fmt.Sprintf("the tool no longer uses the literal %q", lit))
				r.Check(rc, rule, fmt.Sprintf("bkl / recognises %s", lit), "", "the evaluator compares against the same literal", fmt.Sprintf("the evaluator does not recognise %q any more", lit))
			}
			// nothing else starting with $ may be emitted by the tool
			for lit := range emitted {
				known := false
				for _, l := range lits {
					if l == lit {
						known = true
					}
				}
				if _, rc := recognised[lit]; !known && !rc {
					r.Fail(rule, fmt.Sprintf("%s / emits %s", pkgName, lit), emitted[lit], fmt.Sprintf("the tool uses the directive-like literal %q which the evaluator does not recognise", lit))
				}
			}
		}
	}
}

// dollarLiterals: string constants starting with "$" used in the selected functions -> position.
func dollarLiterals(p *Prog, sel func(*ssa.Function) bool) map[string]string {
	out := map[string]string{}
	for _, fn := range p.Funcs {
		if !sel(fn) {
			continue
		}
		for _, b := range fn.Blocks {
			for _, in := range b.Instrs {
				for _, op := range in.Operands(nil) {
					if c, ok := (*op).(*ssa.Const); ok && c.Value != nil && c.Value.Kind() == constant.String {
						s := constant.StringVal(c.Value)
						if strings.HasPrefix(s, "$") && len(s) > 1 {
							if _, seen := out[s]; !seen {
								out[s] = p.InstrPos(in)
							}
						}
					}
				}
			}
		}
	}
	return out
}

// ---- C15 ----------------------------------------------------------------------------------------

func ruleC15Table(p *Prog, r *Result) {
	pr := newPSRule(p, r, "C15.table", "cmd/bkld.diff", PSOpts{})
	dst, src := pT("dst"), pT("src")
	dstP, srcP := mParam("dst"), mParam("src")
	scal := []Atom{aKind(dst, "map", true), aKind(dst, "list", true)}
	eq := Atom{Kind: "eq", A: dst, B: src}
	neq := eq
	neq.Neg = true
	pr.all("equal scalars: no difference", consSel(pr, append(scal, eq)...), "returns nil", returnsExactly(mNil(), "nil"))
	pr.all("different scalars: the target value", consSel(pr, append(scal, neq)...), "returns dst (the target)", returnsExactly(mIs(dst), "the target value"))
	pr.all("map target over non-map base: the target", consSel(pr, aKind(dst, "map", false), aKind(src, "map", true)), "returns dst", returnsExactly(mIs(dst), "the target"))
	pr.all("list target over non-list base: the target", consSel(pr, aKind(dst, "list", false), aKind(src, "list", true)), "returns dst", returnsExactly(mIs(dst), "the target"))
	// map x map
	mm := selectPaths(pr.paths, func(pa *Path) bool {
		return guardPol(pa, "kind", dstP, "map") == 1 && guardPol(pa, "kind", srcP, "map") == 1
	})
	dk, dv := mKeyOf(dstP), mElemOf(dstP)
	rec := mCall("cmd/bkld.diff", dv, mLookup(srcP, dk))
	pr.all("map x map: keys of the target", selectPaths(mm, func(pa *Path) bool { return guardPol(pa, "itermore", mOp("range", dstP), nil) == 1 }),
		"only in target -> its value; in both -> recursive diff kept iff non-nil", func(pa *Path) (bool, string) {
			has := guardPol(pa, "has", srcP, TM(dk))
			var sets []Effect
			for _, e := range pa.Effects {
				if e.Kind == "mapset" {
					sets = append(sets, e)
				}
			}
			switch has {
			case -1:
				if len(sets) != 1 || !dk(sets[0].Args[1]) || !dv(sets[0].Args[2]) {
					return false, "a key only in the target must be emitted with the target's value"
				}
			case 1:
				if isFailure(pa) {
					return true, ""
				}
				if !hasCallEffect(pa, "cmd/bkld.diff", dv, mLookup(srcP, dk)) {
					return false, "common keys are not diffed recursively as diff(target[k], base[k])"
				}
				isNil := guardPol(pa, "kind", mResOf(0, rec), "nil")
				if isNil == 1 && len(sets) > 0 {
					return false, "an empty difference is emitted"
				}
				if isNil == -1 && (len(sets) != 1 || !dk(sets[0].Args[1]) || !mResOf(0, rec)(sets[0].Args[2])) {
					return false, "a non-empty difference is not emitted under its key"
				}
				if isNil == 0 {
					return false, "the recursive difference is not tested for nil"
				}
			default:
				return false, "membership of the key in the base is not tested"
			}
			return true, ""
		})
	sk := mKeyOf(srcP)
	pr.all("map x map: keys only in the base are deleted", selectPaths(mm, func(pa *Path) bool {
		return guardPol(pa, "itermore", mOp("range", srcP), nil) == 1 && guardPol(pa, "itermore", mOp("range", dstP), nil) == -1
	}), `missing from target -> "$delete" under that key; present -> nothing`, func(pa *Path) (bool, string) {
		has := guardPol(pa, "has", dstP, TM(sk))
		var sets []Effect
		for _, e := range pa.Effects {
			if e.Kind == "mapset" {
				sets = append(sets, e)
			}
		}
		switch has {
		case 1:
			if len(sets) > 0 {
				return false, "a key present in the target is touched by the deletion pass"
			}
		case -1:
			if len(sets) != 1 || !sk(sets[0].Args[1]) || !mStr("$delete")(sets[0].Args[2]) {
				return false, `a key that disappeared must be emitted as "$delete"`
			}
		default:
			return false, "membership of the base key in the target is not tested"
		}
		return true, ""
	})
	pr.all("map x map: no difference is nil", selectPaths(mm, func(pa *Path) bool { return pa.End == "return" && isSuccess(pa) }), "len(result)==0 -> nil, else the result", func(pa *Path) (bool, string) {
		e := guardPol(pa, "len", mOp("fresh"), "==0")
		res := pa.Results[0]
		if e == 1 && !res.IsNil() {
			return false, "an empty difference must be nil"
		}
		if e == -1 && res.Op != "fresh" {
			return false, "a non-empty difference must be returned"
		}
		if e == 0 {
			return false, "emptiness of the difference is not tested"
		}
		return true, ""
	})
	// list x list
	ll := selectPaths(pr.paths, func(pa *Path) bool {
		return guardPol(pa, "kind", dstP, "list") == 1 && guardPol(pa, "kind", srcP, "list") == 1
	})
	pr.some("list x list: target entries absent from the base are appended", ll, "append(result, target-entry) when no base entry equals it", "added list entries are no longer emitted", func(pa *Path) bool {
		for _, v := range pa.Carried {
			if v.Op == "append" && len(v.Args) == 2 && v.Args[1].Op == "lit" && len(v.Args[1].Args) == 1 && mElemOf(dstP)(v.Args[1].Args[0]) &&
				guardPol(pa, "itermore", mOp("range", srcP), nil) == -1 {
				return true
			}
		}
		return false
	})
	pr.some("list x list: removed map entries become {$delete: entry}", ll, "a base map entry absent from the target is emitted as {$delete: clone}", "removed map entries are no longer emitted as $delete patterns", func(pa *Path) bool {
		return hasEffect(pa, "mapset", mOp("fresh"), mStr("$delete"), mOp("clone", mElemOf(srcP))) && guardPol(pa, "kind", mElemOf(srcP), "map") == 1
	})
	// one wrapper per removed entry: a {$delete: …} map made outside the loop over the base entries is one object
	// appended again and again, and every emitted pattern is then the last one (seed C15-m)
	pr.allIfAny("list x list: each removed entry gets a wrapper map of its own", selectPaths(ll, func(pa *Path) bool {
		return hasEffect(pa, "mapset", mOp("fresh"), mStr("$delete"))
	}), "the {$delete: …} map is made inside the loop that visits the removed entries", func(pa *Path) (bool, string) {
		for _, e := range pa.Effects {
			if e.Kind != "mapset" || len(e.Args) < 2 || !mOp("fresh")(e.Args[0]) || !mStr("$delete")(e.Args[1]) {
				continue
			}
			mk, ok := e.Args[0].V.(*ssa.MakeMap)
			if !ok {
				continue // a literal built by a helper or another construct: not judged here
			}
			if loopHeaderOf(mk.Block()) == nil {
				return false, "the map that carries $delete is made once, outside the loop, and appended for every removed entry: all emitted $delete entries are the same object and end up with the last pattern"
			}
		}
		return true, ""
	})
	pr.all("list x list: a removed non-map entry replaces the whole list", selectPaths(ll, func(pa *Path) bool {
		return guardPol(pa, "kind", mElemOf(srcP), "map") == -1 && pa.End == "return"
	}), "returns target + {$replace: true}", func(pa *Path) (bool, string) {
		if !isSuccess(pa) {
			return false, "expected success"
		}
		res := pa.Results[0]
		if res.Op != "append" || len(res.Args) != 2 || !(mOp("clone", dstP)(res.Args[0]) || dstP(res.Args[0])) {
			return false, "the fallback must be the whole target list plus a marker, got " + res.String()
		}
		if !hasEffect(pa, "mapset", mOp("fresh"), mStr("$replace"), func(t *T) bool { return t.IsConst("true") }) {
			return false, "the fallback does not carry {$replace: true}"
		}
		return true, ""
	})
}

// ruleC15Seq: a nil list diff must imply equal sequences (merge concatenates sequences).
func ruleC15Seq(p *Prog, r *Result) {
	pr := newPSRule(p, r, "C15.seq", "cmd/bkld.diff", PSOpts{})
	dstP, srcP := mParam("dst"), mParam("src")
	nilList := selectPaths(pr.paths, func(pa *Path) bool {
		return guardPol(pa, "kind", dstP, "list") == 1 && guardPol(pa, "kind", srcP, "list") == 1 && pa.End == "return" && isSuccess(pa) && pa.Results[0].IsNil()
	})
	// one obligation per place the empty difference is decided at, named by the passes completed before it
	// (so that a recorded finding about one of them does not cover a new one)
	groups := map[string][]*Path{}
	for _, pa := range nilList {
		done := map[string]bool{}
		for _, g := range pa.Guards {
			if g.Kind == "itermore" && g.Neg && g.A != nil {
				for n := range rootParams(g.A) {
					done[n] = true
				}
			}
		}
		sig := "decided before any pass over the lists"
		if len(done) > 0 {
			sig = "decided after the passes over " + strings.Join(sortedBoolKeys(done), ", ")
		}
		groups[sig] = append(groups[sig], pa)
	}
	if len(groups) == 0 {
		groups[""] = nil
	}
	for _, sig := range sortedKeys(groups) {
		construct := "list x list: an empty difference implies equal sequences"
		if sig != "" && sig != "decided after the passes over dst, src" {
			construct += " (" + sig + ")"
		}
		ruleC15SeqGroup(pr, construct, groups[sig], dstP, srcP)
	}
}

func ruleC15SeqGroup(pr *psRule, construct string, nilList []*Path, dstP, srcP TM) {
	pr.all(construct, nilList, "the nil result is guarded by a positional or whole-list equality", func(pa *Path) (bool, string) {
		for _, g := range pa.Guards {
			if g.Neg {
				continue
			}
			// whole-list equality or length equality plus positional comparison
			if g.Kind == "truth" && mCall("reflect.DeepEqual", dstP, srcP)(g.A) || g.Kind == "truth" && mCall("reflect.DeepEqual", srcP, dstP)(g.A) {
				return true, ""
			}
			if g.Kind == "truth" && (mCall("slices.Equal")(g.A) || mCall("slices.EqualFunc")(g.A)) {
				return true, ""
			}
		}
		return false, "diff of two lists is empty whenever they have the same set of entries: a reordered or re-counted list ([1,2] -> [2,1], [1] -> [1,1]) yields an empty layer and the round trip returns the base, not the target"
	})
}

// ruleC15Compose: wherever diff emits the target wholesale for a kind change, merge must accept
// (base kind, emitted kind) and return the emitted value.
func ruleC15Compose(p *Prog, r *Result) {
	d := newPSRule(p, r, "C15.compose", "cmd/bkld.diff", PSOpts{})
	m := newPSRule(p, r, "C15.compose", "bkl.merge", mergeOpts)
	kinds := []string{"map", "list", "scalar"}
	kindAtoms := func(t *T, k string) []Atom {
		switch k {
		case "map":
			return []Atom{aKind(t, "map", false)}
		case "list":
			return []Atom{aKind(t, "list", false)}
		}
		return []Atom{aKind(t, "map", true), aKind(t, "list", true), aKind(t, "nil", true)}
	}
	for _, bk := range kinds {
		for _, tk := range kinds {
			if bk == tk {
				continue
			}
			// does diff emit the target itself for (target kind tk, base kind bk)?
			as := append(kindAtoms(pT("dst"), tk), kindAtoms(pT("src"), bk)...)
			wholesale := false
			for _, pa := range consSel(d, as...) {
				if isSuccess(pa) && pa.Results[0].IsParam("dst") {
					wholesale = true
				}
			}
			if !wholesale {
				continue
			}
			// merge(base kind bk as dst, emitted kind tk as src) must succeed with src on every path
			// (a non-empty base map is the general case)
			mas := append(kindAtoms(pT("dst"), bk), kindAtoms(pT("src"), tk)...)
			if bk == "map" {
				mas = append(mas, Atom{Kind: "len", A: pT("dst"), Const: "==0", Neg: true})
			}
			if bk == "scalar" {
				mas = append(mas, Atom{Kind: "eq", A: pT("dst"), B: pT("src"), Neg: true})
			}
			construct := fmt.Sprintf("base %s -> target %s", bk, tk)
			sel := consSel(m, mas...)
			ok := len(sel) > 0
			why := ""
			for _, pa := range sel {
				if !(isSuccess(pa) && pa.Results[0].IsParam("src")) {
					ok = false
					why = "merge answers " + errClass(lastResult(pa))
				}
			}
			if ok {
				r.OK("C15.compose", construct, d.pos(), "diff emits the target wholesale and merge(base, target) returns the target")
			} else {
				r.Fail("C15.compose", construct, d.pos(), fmt.Sprintf("bkld emits the %s target as it is when the base holds a %s, but bkl rejects a %s layered over a %s (%s): the emitted layer is refused, e.g. base m: {a: 1}, target m: 5", tk, bk, tk, bk, why))
			}
		}
	}
}

// ruleC15Dir: main computes diffDoc(target, base); diffDoc adds the document-level $match: {}.
func ruleC15Dir(p *Prog, r *Result) {
	fn := p.Func("cmd/bkld.main")
	var call *ssa.Call
	for _, cs := range allCalls(samePkgClosure(fn)) {
		if cs.Fn != nil && p.FuncName(cs.Fn) == "cmd/bkld.diffDoc" {
			continue // diffDoc's own recursion is not main's call
		}
		if cs.Callee != nil && p.InRepo(cs.Callee) && p.FuncName(cs.Callee) == "cmd/bkld.diffDoc" {
			call, _ = cs.Instr.(*ssa.Call)
		}
	}
	if call == nil {
		r.Fail("C15.dir", "cmd/bkld.main / diffDoc call", p.Pos(fn.Pos()), "main does not call diffDoc")
		return
	}
	// first argument must come from the TargetPath, second from BasePath: trace to getOnlyDocument's argument
	origin := func(v ssa.Value) string {
		seen := map[ssa.Value]bool{}
		var walk func(v ssa.Value) string
		walk = func(v ssa.Value) string {
			if v == nil || seen[v] {
				return ""
			}
			seen[v] = true
			switch x := v.(type) {
			case *ssa.FieldAddr:
				st := x.X.Type().Underlying().(*types.Pointer).Elem().Underlying().(*types.Struct)
				return pinnedField(st, x.Field) + "." + walk(x.X)
			case *ssa.Phi:
				for _, e := range x.Edges {
					if s := walk(e); s != "" {
						return s
					}
				}
			case ssa.Instruction:
				for _, op := range x.Operands(nil) {
					if *op != nil {
						if s := walk(*op); s != "" {
							return s
						}
					}
				}
			}
			return ""
		}
		return walk(v)
	}
	a0, a1 := origin(call.Common().Args[0]), origin(call.Common().Args[1])
	fromOpt := func(s, want, other string) bool {
		return strings.Contains(s, want+".") && !strings.Contains(s, other+".")
	}
	r.Check(fromOpt(a0, "TargetPath", "BasePath") && fromOpt(a1, "BasePath", "TargetPath"), "C15.dir", "cmd/bkld.main / diffDoc(target, base)", p.InstrPos(call),
		"first operand derives from the TargetPath argument, second from BasePath", fmt.Sprintf("operands derive from %q and %q: target and base are confused", a0, a1))
	// diffDoc: document-level $match: {}
	pr := newPSRule(p, r, "C15.dir", "cmd/bkld.diffDoc", PSOpts{})
	pr.some("map document gets $match: {} so that the layer targets the base", pr.paths, "doc[\"$match\"] = {}", "the emitted map document no longer carries $match: {}", func(pa *Path) bool {
		return hasEffect(pa, "mapset", func(t *T) bool { return t.Op != "fresh" }, mStr("$match"), mOp("fresh")) && guardPol(pa, "kind", mResOf(0, mCall("cmd/bkld.diff")), "map") == 1
	})
	pr.some("list document gets a leading {$match: {}} entry", pr.paths, "[{$match: {}}, ...diff]", "the emitted list document no longer starts with {$match: {}}", func(pa *Path) bool {
		if !isSuccess(pa) || guardPol(pa, "kind", mResOf(0, mCall("cmd/bkld.diff")), "list") != 1 {
			return false
		}
		res := pa.Results[0]
		return res.Op == "append" && len(res.Args) == 2 && res.Args[0].Op == "lit" && len(res.Args[0].Args) == 1 && res.Args[0].Args[0].Op == "fresh" &&
			hasEffect(pa, "mapset", mIs(res.Args[0].Args[0]), mStr("$match"), mOp("fresh"))
	})
}

// ruleC17Main (C17.main): bklr feeds the skeleton function the whole merged document — docs[0].Data of the
// parser that merged the input's layers — whatever its root kind, and prints exactly what it returns.
func ruleC17Main(p *Prog, r *Result) {
	fn := p.Func("cmd/bklr.main")
	var calls []*ssa.Call
	for _, cs := range allCalls(samePkgClosure(fn)) {
		if cs.Fn != nil && (cs.Fn == cs.Callee || strings.HasPrefix(p.FuncName(cs.Fn), "cmd/bklr.required")) {
			continue // the skeleton computation's own recursion
		}
		if cs.Callee != nil && p.FuncName(cs.Callee) == "cmd/bklr.required" {
			if c, ok := cs.Instr.(*ssa.Call); ok {
				calls = append(calls, c)
			}
		}
	}
	pos := p.Pos(fn.Pos())
	if len(calls) != 1 {
		r.Fail("C17.main", "cmd/bklr.main / one skeleton computation", pos, fmt.Sprintf("expected exactly one call of required in main, found %d", len(calls)))
		return
	}
	c := calls[0]
	ok, why := false, "the argument is not docs[0].Data"
	if ld, isLd := c.Call.Args[0].(*ssa.UnOp); isLd && ld.Op == token.MUL {
		if fa, isFA := ld.X.(*ssa.FieldAddr); isFA && strings.HasSuffix(fieldName(fa), "Document.Data") {
			if el, isEl := fa.X.(*ssa.UnOp); isEl {
				if ia, isIA := el.X.(*ssa.IndexAddr); isIA {
					if k, isK := constInt(ia.Index); isK && k == 0 {
						if dc, isCall := ia.X.(*ssa.Call); isCall {
							if sc := dc.Call.StaticCallee(); sc != nil && p.FuncName(sc) == "bkl.(*Parser).Documents" {
								ok = true
							}
						}
					}
				}
			}
		}
	} else {
		why = "the argument is " + describeValue(p, c.Call.Args[0]) + ", not the document's data as it is (a converted or narrowed view drops list- and scalar-rooted documents)"
	}
	r.Check(ok, "C17.main", "cmd/bklr.main / required(docs[0].Data)", p.InstrPos(c), "the skeleton is computed from the merged document's data itself", why)
	// what is printed is the skeleton
	printed := false
	if c.Referrers() != nil {
		for _, ref := range *c.Referrers() {
			if ex, isEx := ref.(*ssa.Extract); isEx && ex.Index == 0 && ex.Referrers() != nil {
				for _, r2 := range *ex.Referrers() {
					if st, isSt := r2.(*ssa.Store); isSt {
						if ia, isIA := st.Addr.(*ssa.IndexAddr); isIA {
							if _, isAl := ia.X.(*ssa.Alloc); isAl {
								printed = true // element of the []any{out} literal handed to MarshalStream
							}
						}
					}
				}
			}
		}
	}
	r.Check(printed, "C17.main", "cmd/bklr.main / the skeleton is what is encoded", p.InstrPos(c), "[]any{out} goes to the encoder", "the result of required is not what is written")
}

// ruleStructuralEquality(rule): bkld and bkli decide list membership by comparing entries. On the pinned tree
// that is reflect.DeepEqual; a hand-written replacement must be an equality, not a containment: two maps (or
// lists) are equal only if they have the same number of entries. A comparison that walks the keys of one side
// only answers "equal" for a sub-map, and the tools then treat an entry that lost a key as unchanged.
func ruleStructuralEquality(rule string, pkgs ...string) func(p *Prog, r *Result) {
	return func(p *Prog, r *Result) {
		nDeep, nOwn := 0, 0
		perPkg := map[string]int{}
		for _, fn := range p.Funcs {
			pk := fnPkg(fn)
			if pk == nil {
				continue
			}
			in := false
			for _, w := range pkgs {
				if shortPkg(pk.Pkg.Path()) == w {
					in = true
				}
			}
			if !in {
				continue
			}
			for _, cs := range allCalls([]*ssa.Function{fn}) {
				if cs.Name == "reflect.DeepEqual" {
					nDeep++
				}
			}
			// a hand-written comparison: func(any, any) bool at package level
			sg := fn.Signature
			if fn.Parent() != nil || sg.Recv() != nil || sg.Params().Len() != 2 || sg.Results().Len() != 1 {
				continue
			}
			isAny := func(t types.Type) bool {
				it, ok := t.Underlying().(*types.Interface)
				return ok && it.NumMethods() == 0
			}
			bt, isBool := sg.Results().At(0).Type().Underlying().(*types.Basic)
			if !isAny(sg.Params().At(0).Type()) || !isAny(sg.Params().At(1).Type()) || !isBool || bt.Kind() != types.Bool {
				continue
			}
			// only comparisons: the function must call itself or == on its parameters; skip predicates that are not recursive
			selfRec := false
			for _, cs := range allCalls(samePkgClosure(fn)) {
				if cs.Callee == fn && cs.Fn != nil {
					selfRec = true
				}
			}
			direct := false
			for _, cs := range allCalls(append([]*ssa.Function{fn}, allAnon(fn)...)) {
				if cs.Callee == fn {
					direct = true
				}
			}
			if !selfRec || !direct {
				// a comparison that is not a structural walk of its own: wrapping reflect.DeepEqual is fine, but one that
				// asks another function of the tool (typically "diff(a, b) == nil") inherits that function's notion of
				// sameness — and the tools' own relations ignore order and multiplicity of list entries (seed C15-l/C16-l)
				for _, cs := range allCalls([]*ssa.Function{fn}) {
					if cs.Callee != nil && cs.Callee != fn && p.InRepo(cs.Callee) {
						r.Fail(rule, p.FuncName(fn)+" / entry comparison", p.Pos(fn.Pos()), "a two-value comparison is derived from "+p.FuncName(cs.Callee)+" instead of being a structural equality (reflect.DeepEqual or a checked hand-written walk): whatever that function treats as \"no difference\" (lists equal as sets) now counts as the same entry")
					}
				}
				continue
			}
			nOwn++
			perPkg[shortPkg(pk.Pkg.Path())]++
			pr := newPSRule(p, r, rule, p.FuncName(fn), PSOpts{})
			a, b := fn.Params[0], fn.Params[1]
			isP := func(par *ssa.Parameter) TM {
				return func(t *T) bool {
					for t != nil && (t.Op == "assert" || t.Op == "convert" || t.Op == "res") && len(t.Args) >= 1 {
						t = t.Args[0]
					}
					return t != nil && t.Op == "param" && t.V == ssa.Value(par)
				}
			}
			sameLen := func(pa *Path) bool {
				for _, g := range pa.Guards {
					if g.Kind != "eq" || g.Neg || g.A == nil || g.B == nil || g.A.Op != "len" || g.B.Op != "len" {
						continue
					}
					x, y := g.A.Args[0], g.B.Args[0]
					if (isP(a)(x) && isP(b)(y)) || (isP(b)(x) && isP(a)(y)) {
						return true
					}
				}
				return false
			}
			for _, kind := range []string{"map", "list"} {
				kind := kind
				pr.allIfAny("two "+kind+"s are equal only if they have the same number of entries", selectPaths(pr.paths, func(pa *Path) bool {
					return pa.End == "return" && len(pa.Results) == 1 && pa.Results[0].IsConst("true") &&
						(guardPol(pa, "kind", isP(a), kind) == 1 || guardPol(pa, "kind", isP(b), kind) == 1)
				}), "len(a) == len(b) on every path that answers true", func(pa *Path) (bool, string) {
					if sameLen(pa) {
						return true, ""
					}
					return false, "the comparison answers true after looking at the entries of one side only: a " + kind + " that lacks (or has additional) entries counts as equal, so an entry that lost or gained a key is treated as unchanged"
				})
			}
		}
		for _, w := range pkgs {
			n := 0
			for _, fn := range p.Funcs {
				if pk := fnPkg(fn); pk != nil && shortPkg(pk.Pkg.Path()) == w {
					for _, cs := range allCalls([]*ssa.Function{fn}) {
						if cs.Name == "reflect.DeepEqual" {
							n++
						}
					}
				}
			}
			perPkg[w] += n
		}
		for _, w := range pkgs {
			r.Floor(rule, w+": entry comparisons (reflect.DeepEqual or a checked hand-written equality)", perPkg[w], 1)
		}
		r.Count("deepequal_sites", nDeep)
		r.Count("hand_written_comparisons", nOwn)
		r.Floor(rule, "entry comparisons (reflect.DeepEqual or a checked hand-written equality)", nDeep+nOwn, 1)
	}
}

// isDocumentData: v is the Data field of a document — read directly, or returned by a helper of the repository
// all of whose non-nil results at that position are such a field.
func isDocumentData(p *Prog, v ssa.Value, depth int) bool {
	if strings.HasSuffix(accessPath(v), "Document.Data") {
		return true
	}
	if depth > 2 {
		return false
	}
	idx := 0
	var call *ssa.Call
	switch x := v.(type) {
	case *ssa.Extract:
		call, _ = x.Tuple.(*ssa.Call)
		idx = x.Index
	case *ssa.Call:
		call = x
	}
	if call == nil {
		return false
	}
	h := call.Common().StaticCallee()
	if h == nil || !p.InRepo(h) || h.Blocks == nil {
		return false
	}
	n := 0
	for _, b := range h.Blocks {
		ret, ok := b.Instrs[len(b.Instrs)-1].(*ssa.Return)
		if !ok || idx >= len(ret.Results) {
			continue
		}
		rv := retValue(ret, idx)
		if c, isC := rv.(*ssa.Const); isC && c.IsNil() {
			continue // the failure returns
		}
		if !isDocumentData(p, rv, depth+1) {
			return false
		}
		n++
	}
	return n > 0
}
