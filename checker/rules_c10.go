package main

// C10 — references: phase order, dispatch in process1, lookup tables in get*, cross-document
// selection. C06.identity — non-directive structure is rebuilt unchanged by process1/process2.

import (
	"fmt"
	"go/constant"
	"go/token"
	"go/types"
	"regexp/syntax"
	"strings"

	"golang.org/x/tools/go/ssa"
)

var p1Opts = PSOpts{NoInline: map[string]bool{"bkl.getCopy": true, "bkl.get": true, "bkl.mergeMap": true, "bkl.mergeList": true, "bkl.process1": true}}

func ruleC10Phase(p *Prog, r *Result) {
	pr := newPSRule(p, r, "C10.phase", "bkl.(*Document).Process", PSOpts{NoInline: map[string]bool{"bkl.process1": true, "bkl.process2": true, "bkl.repeatDoc": true, "bkl.NewEvalContext": true}})
	pr.all("references are expanded before $repeat, which is expanded before everything else", selectPaths(pr.paths, func(pa *Path) bool { return hasCallEffect(pa, "bkl.process2") }),
		"process1(d.Data, d, docs) -> d.Data; repeatDoc(d); process2 on each resulting document with its own context", func(pa *Path) (bool, string) {
			i1, ir, i2 := -1, -1, -1
			for i, e := range pa.Effects {
				switch e.Callee {
				case "bkl.process1":
					if i1 < 0 {
						i1 = i
					}
					if !(e.Args[0].Op == "field" && e.Args[0].Name == "Data" && e.Args[0].Args[0].IsParam("d")) || !e.Args[1].IsParam("d") || !e.Args[2].IsParam("mergeFromDocs") {
						return false, "phase 1 does not run on the document's own data with the document and the full document list as context"
					}
				case "bkl.repeatDoc":
					if ir < 0 {
						ir = i
					}
				case "bkl.process2":
					if i2 < 0 {
						i2 = i
					}
					// what the expansion returned: its results, or the fields of a struct it returns them in (the
					// document and context parameters of process2 have different types, so the lists cannot be confused)
					var fromRepeat TM
					fromRepeat = func(t *T) bool {
						if t == nil {
							return false
						}
						if t.Op == "res" && len(t.Args) == 1 && mCall("bkl.repeatDoc")(t.Args[0]) {
							return true
						}
						return t.Op == "field" && len(t.Args) == 1 && fromRepeat(t.Args[0])
					}
					docs, ecs := fromRepeat, fromRepeat
					if !(e.Args[0].Op == "field" && mElemOf(docs)(e.Args[0].Args[0])) || !mElemOf(docs)(e.Args[1]) {
						return false, "phase 2 does not run on each expanded document"
					}
					if !(mElemOf(ecs)(e.Args[3]) || (e.Args[3].Op == "index" && ecs(e.Args[3].Args[0]) && e.Args[3].Args[1].Op == "idx")) {
						return false, "an expanded document is not evaluated with its own context"
					}
				}
			}
			if !(i1 >= 0 && ir > i1 && i2 > ir) {
				return false, "phases are out of order (references, then document-level $repeat, then the rest)"
			}
			for _, n := range []string{"bkl.process1", "bkl.repeatDoc"} {
				if guardPol(pa, "err", mCall(n), nil) != -1 {
					return false, "the error of " + n + " is not checked"
				}
			}
			stored := false
			for _, e := range pa.Effects {
				if e.Kind == "fieldset" && strings.HasSuffix(e.Callee, "Document.Data") && e.Args[0].IsParam("d") && mResOf(0, mCall("bkl.process1"))(e.Args[1]) {
					stored = true
				}
			}
			if !stored {
				return false, "the result of phase 1 is not what the later phases work on"
			}
			return true, ""
		})
}

func ruleC10Dispatch(p *Prog, r *Result) {
	// --- maps
	pm := newPSRule(p, r, "C10.dispatch", "bkl.process1Map", p1Opts)
	objP := mParam("obj")
	// the resolver: getCopy (or get itself; that what it returns is copied before use is C10.owned's business)
	gc := func(ref TM) TM {
		return mOr(mCall("bkl.getCopy", mParam("mergeFrom"), mParam("mergeFromDocs"), ref), mCall("bkl.get", mParam("mergeFrom"), mParam("mergeFromDocs"), ref))
	}
	hasResolve := func(pa *Path, ref TM) bool {
		return hasCallEffect(pa, "bkl.getCopy", mParam("mergeFrom"), mParam("mergeFromDocs"), ref) || hasCallEffect(pa, "bkl.get", mParam("mergeFrom"), mParam("mergeFromDocs"), ref)
	}
	hasK := func(pa *Path, k string) int { return guardPol(pa, "has", objP, TM(mStr(k))) }
	mergeRef := mLookup(objP, mStr("$merge"))
	pm.all("map with $merge: the referenced value is layered onto the local content, then re-evaluated", selectPaths(pm.paths, func(pa *Path) bool { return hasK(pa, "$merge") == 1 }),
		"next = mergeMap(local without $merge [dst], copy of get(ref) [src]); process1(next)", func(pa *Path) (bool, string) {
			if !hasEffect(pa, "mapdel", objP, mStr("$merge")) && !hasEffect(pa, "mapdel", mOp("clone", objP), mStr("$merge")) {
				return false, "the $merge key is not removed from the local content"
			}
			if !hasResolve(pa, mergeRef) {
				return false, "the reference is not resolved (from the $merge value, against the current document and the document list)"
			}
			if guardPol(pa, "err", gc(mergeRef), nil) == 1 {
				return isFailure(pa), "a dangling reference is not an error"
			}
			local := mOr(objP, mOp("clone", objP))
			mm := mCall("bkl.mergeMap", local, mResOf(0, gc(mergeRef)))
			if !hasCallEffect(pa, "bkl.mergeMap", local, mResOf(0, gc(mergeRef))) {
				return false, "the referenced value is not merged onto the local content with the local map as destination and the referenced value as source"
			}
			if guardPol(pa, "err", mm, nil) == 1 {
				return isFailure(pa), "a failed merge is ignored"
			}
			if !hasCallEffect(pa, "bkl.process1", mResOf(0, mm)) {
				return false, "the merged result is not evaluated again (chains of references would stay unresolved)"
			}
			return mCall("bkl.process1")(pa.Results[0]), "the result is not the evaluated merge"
		})
	replRef := mLookup(objP, mStr("$replace"))
	pm.all("map with $replace: the referenced value replaces the map, local keys are discarded", selectPaths(pm.paths, func(pa *Path) bool { return hasK(pa, "$merge") == -1 && hasK(pa, "$replace") == 1 }),
		"process1(copy of get(ref))", func(pa *Path) (bool, string) {
			if !hasResolve(pa, replRef) {
				return false, "the $replace reference is not resolved"
			}
			if guardPol(pa, "err", gc(replRef), nil) == 1 {
				return isFailure(pa), "a dangling reference is not an error"
			}
			if hasCallEffect(pa, "bkl.mergeMap") {
				return false, "$replace merges with the local content instead of replacing it"
			}
			if !hasCallEffect(pa, "bkl.process1", mResOf(0, gc(replRef))) || !mCall("bkl.process1", mResOf(0, gc(replRef)))(pa.Results[0]) {
				return false, "the result is not the evaluated referenced value"
			}
			return true, ""
		})
	// identity part for maps
	id := &psRule{p: p, r: r, rule: "C06.identity", fn: pm.fn, paths: pm.paths, carried: pm.carried}
	plain := selectPaths(pm.paths, func(pa *Path) bool {
		return hasK(pa, "$merge") == -1 && hasK(pa, "$replace") == -1 && pa.End == "iter"
	})
	key := mKeyOf(objP)
	val := mElemOf(objP)
	recV := mCall("bkl.process1", val)
	recK := mCall("bkl.process1", key)
	id.all("map without reference directives: every entry is rebuilt under its evaluated key; only null values are dropped", plain, "new[process1(k)] = process1(v); nil -> dropped", func(pa *Path) (bool, string) {
		isNil := guardPol(pa, "kind", mResOf(0, recV), "nil")
		stored := false
		for _, e := range pa.Effects {
			if e.Kind == "mapset" && e.Args[0].Op == "fresh" && mResOf(0, recV)(e.Args[2]) {
				if !mResOf(0, recK)(e.Args[1]) && !key(e.Args[1]) {
					return false, "the entry is stored under a key that is not the evaluated original key: " + e.Args[1].String()
				}
				stored = true
			}
		}
		if isNil == -1 && !stored {
			return false, "an entry of a plain map is dropped"
		}
		if isNil == 1 && stored {
			return false, "a null entry is kept"
		}
		return true, ""
	})
	// --- strings
	ps := newPSRule(p, r, "C10.dispatch", "bkl.process1String", p1Opts)
	for _, d := range []string{"$merge:", "$replace:"} {
		d := d
		ref := func(t *T) bool {
			return t.Op == "call" && t.Name == "strings.TrimPrefix" && objP(t.Args[0]) && mStr(d)(t.Args[1])
		}
		ps.all("string "+d+"path is replaced by the evaluated referenced value", selectPaths(ps.paths, func(pa *Path) bool { return guardPol(pa, "prefix", objP, q(d)) == 1 }),
			"process1(copy of get(path))", func(pa *Path) (bool, string) {
				if !hasResolve(pa, ref) {
					return false, "the path after the prefix is not what is resolved"
				}
				if guardPol(pa, "err", gc(ref), nil) == 1 {
					return isFailure(pa), "a dangling reference is not an error"
				}
				if !mCall("bkl.process1", mResOf(0, gc(ref)))(pa.Results[0]) {
					return false, "the result is not the evaluated referenced value"
				}
				return true, ""
			})
	}
	ids := &psRule{p: p, r: r, rule: "C06.identity", fn: ps.fn, paths: ps.paths, carried: ps.carried}
	ids.all("any other string is left alone in phase 1 (in particular $FOO, ${X}, $$...)", selectPaths(ps.paths, func(pa *Path) bool {
		return guardPol(pa, "prefix", objP, q("$merge:")) == -1 && guardPol(pa, "prefix", objP, q("$replace:")) == -1
	}), "returns obj", returnsExactly(objP, "the string itself"))
	// --- lists
	pl := newPSRule(p, r, "C10.dispatch", "bkl.process1List", p1Opts)
	pl.some("list entry {$merge: ref} merges the referenced list into the list", pl.paths, "mergeList(list without the entry [dst], copy of get(ref) [src])", "single-key {$merge: ref} list entries are no longer expanded", func(pa *Path) bool {
		for _, e := range pa.Effects {
			if e.Callee == "bkl.mergeList" && mResOf(0, mCall("bkl.getCopy"))(e.Args[1]) && pl.originsOf(e.Args[0])["param:obj"] {
				return true
			}
		}
		return false
	})
	pl.some("list entry {$replace: ref} replaces the list by the evaluated referenced value", pl.paths, "process1(copy of get(ref))", "{$replace: ref} list entries are no longer expanded", func(pa *Path) bool {
		return pa.End == "return" && mCall("bkl.process1", mResOf(0, mCall("bkl.getCopy")))(pa.Results[0])
	})
	idl := &psRule{p: p, r: r, rule: "C06.identity", fn: pl.fn, paths: pl.paths, carried: pl.carried}
	idl.some("list elements are evaluated and kept in order; only nulls are dropped", pl.paths, "ret = append(ret, process1(elem)) unless nil", "plain list elements are no longer passed through", func(pa *Path) bool {
		if pa.End != "iter" {
			return false
		}
		for _, v := range pa.Carried {
			if v.Op == "append" && len(v.Args) == 2 && v.Args[1].Op == "lit" && len(v.Args[1].Args) == 1 && mResOf(0, mCall("bkl.process1"))(v.Args[1].Args[0]) {
				return guardPol(pa, "kind", mResOf(0, mCall("bkl.process1")), "nil") == -1
			}
		}
		return false
	})
}

func ruleC10Lookup(p *Prog, r *Result) {
	// get: dispatch on the reference's kind
	pg := newPSRule(p, r, "C10.lookup", "bkl.get", PSOpts{NoInline: map[string]bool{"bkl.getPathFromString": true, "bkl.getPathFromList": true, "bkl.getCross": true}})
	m := pT("m")
	mP := mParam("m")
	docData := func(t *T) bool { return t.Op == "field" && t.Name == "Data" && t.Args[0].IsParam("doc") }
	pg.all("string reference: a path in the current document", consSel(pg, aKind(m, "string", false)), "getPathFromString(doc.Data, docs, ref)", func(pa *Path) (bool, string) {
		return hasCallEffect(pa, "bkl.getPathFromString", docData, mParam("docs"), mP), "a string reference is not looked up in the current document"
	})
	pg.all("list reference: [pattern?, path...]", consSel(pg, aKind(m, "list", false)), "getPathFromList(doc.Data, docs, ref)", func(pa *Path) (bool, string) {
		return hasCallEffect(pa, "bkl.getPathFromList", docData, mParam("docs"), mP), "a list reference is not looked up"
	})
	pg.all("map reference: cross-document {$match, $path}", consSel(pg, aKind(m, "map", false)), "getCross(docs, ref)", func(pa *Path) (bool, string) {
		return hasCallEffect(pa, "bkl.getCross", mParam("docs"), mP), "a map reference is not resolved across documents"
	})
	pg.all("any other reference type is an error", consSel(pg, aKind(m, "string", true), aKind(m, "list", true), aKind(m, "map", true)), "ErrInvalidType", func(pa *Path) (bool, string) {
		return isFailure(pa) && wraps(lastResult(pa), "ErrInvalidType"), "a reference of another type is accepted"
	})
	// getPath
	pp := newPSRule(p, r, "C10.lookup", "bkl.getPath", PSOpts{})
	// the value and the remaining path "at hand": the parameters (recursive form) or the loop variables that
	// start out as the parameters (iterative form)
	cur := func(name string) TM {
		return func(t *T) bool {
			if t == nil {
				return false
			}
			if t.IsParam(name) {
				return true
			}
			if t.Op == "carried" {
				if info, ok := pp.carried[t.N]; ok && info.Init != nil && info.Init.IsParam(name) {
					return true
				}
			}
			return false
		}
	}
	objP, partsP := cur("obj"), cur("parts")
	// the path is walked by recursion or a shrinking slice (tested with len(parts) == 0) or by a range over it
	ranged := func(pa *Path) int { return guardPol(pa, "itermore", mOp("range", partsP), nil) }
	pp.all("an empty path is the value itself", selectPaths(pp.paths, func(pa *Path) bool {
		return guardPol(pa, "len", partsP, "==0") == 1 || (ranged(pa) == -1 && pa.End == "return")
	}), "returns obj", returnsExactly(objP, "obj"))
	rest := selectPaths(pp.paths, func(pa *Path) bool { return guardPol(pa, "len", partsP, "==0") == -1 || ranged(pa) == 1 })
	pp.all("a path through something that is not a map does not resolve", selectPaths(rest, func(pa *Path) bool { return guardPol(pa, "kind", objP, "map") == -1 }), "ErrRefNotFound", func(pa *Path) (bool, string) {
		return isFailure(pa) && wraps(lastResult(pa), "ErrRefNotFound"), "a path into a scalar or list resolves to something instead of failing"
	})
	first := func(t *T) bool {
		if t == nil {
			return false
		}
		if t.Op == "index" && partsP(t.Args[0]) && t.Args[1].IsConst("0") {
			return true
		}
		return t.Op == "elem" && len(t.Args) == 1 && partsP(t.Args[0]) // the component the range is at
	}
	pp.all("a missing key does not resolve", selectPaths(rest, func(pa *Path) bool {
		return guardPol(pa, "kind", objP, "map") == 1 && guardPol(pa, "has", objP, TM(first)) == -1
	}), "ErrRefNotFound", func(pa *Path) (bool, string) {
		return isFailure(pa) && wraps(lastResult(pa), "ErrRefNotFound"), "a missing key yields a value (nil) instead of an error"
	})
	tail := func(t *T) bool {
		return t.Op == "slice" && partsP(t.Args[0]) && t.Args[1].IsConst("1") && (len(t.Args) < 3 || t.Args[2] == nil || t.Args[2].IsConst("end") || t.Args[2].Op == "end")
	}
	pp.all("a present key continues with the rest of the path", selectPaths(rest, func(pa *Path) bool {
		return guardPol(pa, "kind", objP, "map") == 1 && guardPol(pa, "has", objP, TM(first)) == 1
	}), "getPath(obj[parts[0]], parts[1:]) — as a call, or as the next round of a loop", func(pa *Path) (bool, string) {
		if hasCallEffect(pa, "bkl.getPath", mLookup(objP, first), tail) {
			return true, ""
		}
		if pa.End == "iter" {
			okObj, okParts := false, false
			for _, v := range pa.Carried {
				if mLookup(objP, first)(v) {
					okObj = true
				}
				if tail(v) {
					okParts = true
				}
			}
			if ranged(pa) == 1 {
				okParts = true // the range itself moves on to the next component
			}
			if okObj && okParts {
				return true, ""
			}
		}
		return false, "descending does not use the first component as key and the remaining components as the rest of the path"
	})
	// getCross
	pc := newPSRule(p, r, "C10.cross", "bkl.getCross", PSOpts{NoInline: map[string]bool{"bkl.getCrossDoc": true, "bkl.get": true}})
	confP := mParam("conf")
	pc.all("a cross-document reference without $match is an error", selectPaths(pc.paths, func(pa *Path) bool { return guardPol(pa, "has", confP, TM(mStr("$match"))) == -1 }), "ErrMissingMatch", func(pa *Path) (bool, string) {
		return isFailure(pa) && wraps(lastResult(pa), "ErrMissingMatch"), "a map reference without $match is accepted"
	})
	cd := mCall("bkl.getCrossDoc", mParam("docs"), mLookup(confP, mStr("$match")))
	pc.all("the document is the one selected by $match; $path (if any) is resolved inside it", selectPaths(pc.paths, func(pa *Path) bool {
		return guardPol(pa, "has", confP, TM(mStr("$match"))) == 1 && guardPol(pa, "err", cd, nil) == -1
	}), "doc = getCrossDoc(docs, $match); $path ? get(doc, docs, $path) : doc.Data", func(pa *Path) (bool, string) {
		hp := guardPol(pa, "has", confP, TM(mStr("$path")))
		switch hp {
		case 1:
			if !hasCallEffect(pa, "bkl.get", mResOf(0, cd), mParam("docs"), mLookup(confP, mStr("$path"))) {
				return false, "$path is not resolved inside the selected document"
			}
		case -1:
			res := pa.Results[0]
			if !(res.Op == "field" && res.Name == "Data" && mResOf(0, cd)(res.Args[0])) {
				return false, "without $path the result is not the selected document's data"
			}
		default:
			return false, "$path is not consulted"
		}
		return true, ""
	})
	// getCrossDoc: all documents inspected; none -> error; second -> error
	px := newPSRule(p, r, "C10.cross", "bkl.getCrossDoc", PSOpts{NoInline: map[string]bool{"bkl.matchDoc": true}})
	docsP := mParam("docs")
	md := mCall("bkl.matchDoc", mElemOf(docsP), mParam("pat"))
	px.all("every document is tested against the pattern", selectPaths(px.paths, func(pa *Path) bool { return guardPol(pa, "itermore", mOp("range", docsP), nil) == 1 }), "matchDoc(doc, pat) per document", func(pa *Path) (bool, string) {
		return guardPol(pa, "truth", md, nil) != 0, "a document is skipped"
	})
	px.some("a second matching document is an error", px.paths, "ErrMultiMatch", "an ambiguous cross-document pattern silently picks one document", func(pa *Path) bool {
		return isFailure(pa) && wraps(lastResult(pa), "ErrMultiMatch") && guardPol(pa, "truth", md, nil) == 1
	})
	px.all("no matching document is an error; otherwise the single match is returned", selectPaths(px.paths, func(pa *Path) bool { return guardPol(pa, "itermore", mOp("range", docsP), nil) == -1 }), "nil -> ErrNoMatchFound", func(pa *Path) (bool, string) {
		none := 0
		for _, g := range pa.Guards {
			if (g.Kind == "nil" || g.Kind == "kind") && g.A.Op == "carried" {
				none = 1
				if g.Neg {
					none = -1
				}
			}
		}
		switch none {
		case 1:
			return isFailure(pa) && wraps(lastResult(pa), "ErrNoMatchFound"), "a pattern that matches no document is not an error"
		case -1:
			return isSuccess(pa) && pa.Results[0].Op == "carried", "the matched document is not returned"
		}
		return false, "the 'no match' case is not distinguished"
	})
	// getPathFromString: dotted path or YAML list
	pf := newPSRule(p, r, "C10.lookup", "bkl.getPathFromString", PSOpts{NoInline: map[string]bool{"bkl.getPath": true, "bkl.getPathFromList": true}})
	pf.some("a plain string reference is a dotted path", pf.paths, `getPath(obj, strings.Split(s, "."))`, "dotted paths are no longer split on '.'", func(pa *Path) bool {
		for _, e := range pa.Effects {
			if e.Callee == "bkl.getPath" && e.Args[1].Op == "call" && e.Args[1].Name == "strings.Split" && mStr(".")(e.Args[1].Args[1]) && mParam("obj")(e.Args[0]) {
				return true
			}
		}
		return false
	})
}

// ruleDollarCensus (C06.census): every "$..." literal that package bkl uses to recognise
// something in data has the form $+letter (or $") — so no string starting with "$$" can
// satisfy a directive test — and is used as an exact comparison, map key or prefix test.
func ruleDollarCensus(p *Prog, r *Result) {
	lits := dollarLiterals(p, func(fn *ssa.Function) bool {
		pk := fnPkg(fn)
		return pk != nil && shortPkg(pk.Pkg.Path()) == "bkl"
	})
	n := 0
	for _, lit := range sortedKeys(lits) {
		n++
		ok := len(lit) >= 2 && lit[0] == '$' && ((lit[1] >= 'a' && lit[1] <= 'z') || lit[1] == '"')
		if lit == "$$" || lit == "$" {
			r.OK("C06.census", "literal "+lit, lits[lit], "the escape itself")
			continue
		}
		if strings.HasPrefix(lit, "$encode: ") || strings.HasPrefix(lit, "$decode: ") || strings.HasPrefix(lit, "$value: ") || strings.HasPrefix(lit, "$repeat: ") || strings.HasPrefix(lit, "$delete: ") || strings.HasPrefix(lit, "$parent=") || strings.HasPrefix(lit, "$parent ") {
			continue // error message text
		}
		r.Check(ok, "C06.census", "literal "+lit, lits[lit], "begins with $ and a lower-case letter (or $\"): cannot match data that begins with $$", "a directive literal that could match escaped data ($$...): doubling the dollar would no longer protect it")
	}
	r.Floor("C06.census", "directive literals in package bkl", n, 15)
	// a regular expression that contains a literal dollar recognises a directive form: it must be anchored
	// at the start of the string, like the prefix tests, or escaped data ($$...) can satisfy it further in
	nre := 0
	for _, cs := range allCalls(p.Funcs) {
		pk := fnPkg(cs.Fn)
		if pk == nil || shortPkg(pk.Pkg.Path()) != "bkl" || (cs.Name != "regexp.MustCompile" && cs.Name != "regexp.Compile" && cs.Name != "regexp.MatchString") {
			continue
		}
		nre++
		c, isC := cs.Instr.Common().Args[0].(*ssa.Const)
		if !isC || c.Value == nil || c.Value.Kind() != constant.String {
			r.Fail("C06.census", p.FuncName(cs.Fn)+" / "+cs.Name+" with a computed pattern", p.InstrPos(cs.Instr), "a pattern built at run time is applied to data: whether escaped ($$) text can trigger it cannot be decided")
			continue
		}
		pat := constant.StringVal(c.Value)
		re, err := syntax.Parse(pat, syntax.Perl)
		if err != nil {
			r.Fail("C06.census", "pattern "+pat, p.InstrPos(cs.Instr), "pattern does not parse: "+err.Error())
			continue
		}
		if !regexpHasDollarLiteral(re) {
			r.OK("C06.census", "pattern "+pat, p.InstrPos(cs.Instr), "contains no literal dollar: recognises no directive form")
			continue
		}
		re = re.Simplify()
		anchored := re.Op == syntax.OpBeginText || (re.Op == syntax.OpConcat && len(re.Sub) > 0 && re.Sub[0].Op == syntax.OpBeginText)
		r.Check(anchored, "C06.census", "pattern "+pat, p.InstrPos(cs.Instr), "the dollar form is recognised only at the very start of the string (like the prefix tests)", "a pattern with a literal $ is not anchored at the start of the string: a directive form is recognised inside other text, so escaped data ($$...) and plain text containing it are evaluated instead of passed through")
	}
	r.Count("regexp_patterns", nre)
	// no Contains / suffix-only / regexp test on raw data with a $ literal
	for _, cs := range allCalls(p.Funcs) {
		pk := fnPkg(cs.Fn)
		if pk == nil || shortPkg(pk.Pkg.Path()) != "bkl" {
			continue
		}
		if cs.Name == "strings.Contains" || cs.Name == "strings.Index" || cs.Name == "strings.ContainsAny" {
			for _, a := range cs.Instr.Common().Args[1:] {
				if c, ok := a.(*ssa.Const); ok && c.Value != nil && strings.Contains(c.Value.ExactString(), "$") {
					r.Fail("C06.census", p.FuncName(cs.Fn)+" / "+cs.Name+" with a $ literal", p.InstrPos(cs.Instr), "a directive is recognised anywhere inside a string: escaped ($$) data can trigger it")
				}
			}
		}
	}
}

func regexpHasDollarLiteral(re *syntax.Regexp) bool {
	if re.Op == syntax.OpLiteral {
		for _, r := range re.Rune {
			if r == '$' {
				return true
			}
		}
	}
	if re.Op == syntax.OpCharClass {
		// a small class that names the dollar (e.g. [$@]); wide classes such as [^}] are "any character"
		size, has := 0, false
		for i := 0; i+1 < len(re.Rune); i += 2 {
			size += int(re.Rune[i+1]-re.Rune[i]) + 1
			if re.Rune[i] <= '$' && '$' <= re.Rune[i+1] {
				has = true
			}
		}
		if has && size <= 16 {
			return true
		}
	}
	for _, s := range re.Sub {
		if regexpHasDollarLiteral(s) {
			return true
		}
	}
	return false
}

// ruleC10Universe (C10.universe): cross-document references ($match / [pattern, path]) are resolved
// against the list of documents handed to evaluation. Where evaluation is started inside a loop, that
// list must be complete before the first document is evaluated, i.e. it must not change from one
// iteration to the next (a list still being filled hides later documents from earlier ones, so a
// forward reference fails and an ambiguous one silently resolves).
func ruleC10Universe(p *Prog, r *Result) {
	targets := map[string]bool{"bkl.(*Parser).outputDocument": true, "bkl.(*Document).Process": true, "bkl.process1": true, "bkl.process2": true}
	n := 0
	for _, fn := range p.Funcs {
		pk := fnPkg(fn)
		if pk == nil || shortPkg(pk.Pkg.Path()) != "bkl" {
			continue
		}
		if targets[p.FuncName(fn)] || strings.HasPrefix(p.FuncName(fn), "bkl.process1") || strings.HasPrefix(p.FuncName(fn), "bkl.process2") {
			continue // the evaluators pass their own parameter down
		}
		var loops []map[*ssa.BasicBlock]bool
		for _, h := range loopHeaders(fn) {
			loops = append(loops, loopBody(h))
		}
		for _, b := range fn.Blocks {
			for _, in := range b.Instrs {
				ci, ok := in.(ssa.CallInstruction)
				if !ok {
					continue
				}
				sc := ci.Common().StaticCallee()
				if sc == nil || !targets[p.FuncName(sc)] {
					continue
				}
				for i, a := range ci.Common().Args {
					sl, ok := a.Type().Underlying().(*types.Slice)
					if !ok || !strings.HasSuffix(sl.Elem().String(), "bkl.Document") {
						continue
					}
					n++
					key := fmt.Sprintf("%s / document list passed to %s (argument %d)", p.FuncName(fn), p.FuncName(sc), i)
					bad := ""
					for _, body := range loops {
						if body[b] && !invariantIn(a, body, map[ssa.Value]bool{}) {
							bad = "the list changes between iterations of the loop in which documents are evaluated"
						}
					}
					// the document being evaluated is taken from a list: that list is the one its references see
					for _, d := range ci.Common().Args {
						u, ok := d.(*ssa.UnOp)
						if !ok || u.Op != token.MUL {
							continue
						}
						ia, ok := u.X.(*ssa.IndexAddr)
						if !ok || !strings.HasSuffix(d.Type().String(), "bkl.Document") {
							continue
						}
						if ia.X != a && (accessPath(ia.X) == "" || accessPath(ia.X) != accessPath(a)) {
							bad = fmt.Sprintf("the document is taken from %s but its references are resolved against %s: cross-document references see other copies of the documents than the ones being evaluated", describeValue(p, ia.X), describeValue(p, a))
						}
					}
					r.Check(bad == "", "C10.universe", key, p.InstrPos(in), "the list of documents that references are resolved against is fixed before any document is evaluated",
						bad+": a document evaluated early cannot see documents added later (forward $match references fail, ambiguous ones resolve silently)")
				}
			}
		}
	}
	r.Floor("C10.universe", "evaluation entry call sites with a document list", n, 1)
}

// ruleC10ListRef (C10.listref): the list form of a reference, [pattern?, key...]: a leading map or list
// selects exactly one other document (getCrossDoc over the evaluation's document list) and the remaining
// entries are the path inside it; without a leading pattern the whole list is a path in the current value.
func ruleC10ListRef(p *Prog, r *Result) {
	pr := newPSRule(p, r, "C10.listref", "bkl.getPathFromList", PSOpts{NoInline: map[string]bool{"bkl.getCrossDoc": true, "bkl.getPath": true, "bkl.toStringList": true}})
	objP, docsP, pathP := mParam("obj"), mParam("docs"), mParam("path")
	first := mOp("index", pathP, func(t *T) bool { return t.IsConst("0") })
	rest := func(t *T) bool {
		return t.Op == "slice" && len(t.Args) >= 2 && pathP(t.Args[0]) && t.Args[1].IsConst("1")
	}
	isPattern := func(pa *Path) int {
		m := guardPol(pa, "kind", first, "map")
		l := guardPol(pa, "kind", first, "list")
		if m == 1 || l == 1 {
			return 1
		}
		if (m == -1 && l == -1) || guardPol(pa, "len", pathP, "==0") == 1 {
			return -1
		}
		return 0
	}
	cross := mCall("bkl.getCrossDoc", docsP, first)
	pr.all("a leading map or list entry selects another document", selectPaths(pr.paths, func(pa *Path) bool { return isPattern(pa) == 1 }),
		"getCrossDoc(docs, path[0]); its error is the result; then getPath(thatDocument.Data, strings of path[1:])", func(pa *Path) (bool, string) {
			if !hasCallEffect(pa, "bkl.getCrossDoc", docsP, first) {
				return false, "the pattern is not resolved against the evaluation's document list"
			}
			switch guardPol(pa, "err", cross, nil) {
			case 1:
				if isFailure(pa) && mResOf(1, cross)(lastResult(pa)) {
					return true, ""
				}
				return false, "a pattern that matches no document, or several, is not an error"
			case 0:
				return false, "the result of the document search is used without checking its error"
			}
			strs := mCall("bkl.toStringList", rest)
			if guardPol(pa, "err", strs, nil) == 1 {
				if isFailure(pa) {
					return true, ""
				}
				return false, "a non-string path entry is accepted"
			}
			want := mCall("bkl.getPath", mOp("field", mResOf(0, cross)), mResOf(0, strs))
			if isSuccess(pa) || isFailure(pa) {
				if mResOf(0, want)(pa.Results[0]) && mResOf(1, want)(lastResult(pa)) {
					return true, ""
				}
			}
			return false, "the value is not looked up along path[1:] inside the selected document's data: " + truncate(pa.Results[0].String(), 80)
		})
	pr.all("without a leading pattern the whole list is a path in the current value", selectPaths(pr.paths, func(pa *Path) bool { return isPattern(pa) == -1 }),
		"getPath(obj, strings of path)", func(pa *Path) (bool, string) {
			if hasCallEffect(pa, "bkl.getCrossDoc") {
				return false, "another document is consulted although the reference names none"
			}
			strs := mCall("bkl.toStringList", pathP)
			if guardPol(pa, "err", strs, nil) == 1 {
				if isFailure(pa) {
					return true, ""
				}
				return false, "a non-string path entry is accepted"
			}
			want := mCall("bkl.getPath", objP, mResOf(0, strs))
			if mResOf(0, want)(pa.Results[0]) && mResOf(1, want)(lastResult(pa)) {
				return true, ""
			}
			return false, "the value is not looked up along the whole list inside the current value: " + truncate(pa.Results[0].String(), 80)
		})
	pr.allIfAny("every case is decided", selectPaths(pr.paths, func(pa *Path) bool { return isPattern(pa) == 0 }), "no path leaves the kind of path[0] open", func(pa *Path) (bool, string) {
		return false, "a path does not test whether the first entry is a pattern"
	})
	// string form
	ps := newPSRule(p, r, "C10.listref", "bkl.getPathFromString", PSOpts{NoInline: map[string]bool{"bkl.getPathFromList": true, "bkl.getPath": true}})
	ps.all("a string reference is a dotted path, or (written as a YAML list) a list reference", selectPaths(ps.paths, isSuccessOrPropagated), "string -> getPath(obj, Split(ref, \".\")); list -> getPathFromList(obj, docs, list)", func(pa *Path) (bool, string) {
		res := pa.Results[0]
		if c := res.Find(func(t *T) bool { return t.Op == "call" && t.Name == "bkl.getPath" }); len(c) > 0 {
			call := c[0]
			if !objP(call.Args[0]) {
				return false, "the dotted path is not followed from the current value"
			}
			sp := call.Args[1]
			if !(sp.Op == "call" && sp.Name == "strings.Split" && mStr(".")(sp.Args[1])) {
				return false, "the reference is not split at dots: " + truncate(sp.String(), 60)
			}
			return true, ""
		}
		if c := res.Find(func(t *T) bool { return t.Op == "call" && t.Name == "bkl.getPathFromList" }); len(c) > 0 {
			call := c[0]
			if !objP(call.Args[0]) || !docsP(call.Args[1]) {
				return false, "the list reference is not resolved against the current value and the evaluation's documents"
			}
			return true, ""
		}
		return false, "the reference is resolved by neither getPath nor getPathFromList: " + truncate(res.String(), 60)
	})
}

// isSuccessOrPropagated: the path returns what a callee returned (value and error together) or succeeds.
func isSuccessOrPropagated(pa *Path) bool {
	if pa.End != "return" || len(pa.Results) == 0 {
		return false
	}
	if isSuccess(pa) {
		return true
	}
	e := lastResult(pa)
	return e != nil && e.Op == "res"
}
