package main

// Helpers for writing obligations over path summaries.

import (
	"fmt"
	"strings"

	"golang.org/x/tools/go/ssa"
)

// TM is a term matcher.
type TM func(*T) bool

func mAny() TM { return func(t *T) bool { return t != nil } }

func mParam(name string) TM { return func(t *T) bool { return t.IsParam(name) } }

func mIs(s *T) TM { return func(t *T) bool { return t != nil && s != nil && t.String() == s.String() } }

func mStr(lit string) TM {
	return func(t *T) bool { s, ok := t.StrConst(); return ok && s == lit }
}

func mNil() TM { return func(t *T) bool { return t.IsNil() } }

func mOp(op string, args ...TM) TM {
	return func(t *T) bool {
		if t == nil || t.Op != op {
			return false
		}
		for i, a := range args {
			if i >= len(t.Args) || !a(t.Args[i]) {
				return false
			}
		}
		return true
	}
}

func mOr(ms ...TM) TM {
	return func(t *T) bool {
		for _, m := range ms {
			if m(t) {
				return true
			}
		}
		return false
	}
}

// mElemOf / mKeyOf: the element / key of a range over something matching x (native map range,
// slice range, or the sorted iteration of sortedMap).
func mElemOf(x TM) TM {
	return func(t *T) bool {
		if t == nil {
			return false
		}
		if t.Op == "elem" && len(t.Args) == 1 && x(t.Args[0]) {
			return true
		}
		// sortedMap: value is lookup(m, elem(Sorted(Keys(m))))
		if t.Op == "lookup" && x(t.Args[0]) {
			if m, ok := sortedKeyOf(t.Args[1]); ok && m.String() == t.Args[0].String() {
				return true
			}
		}
		return false
	}
}

func mKeyOf(x TM) TM {
	return func(t *T) bool {
		if t == nil {
			return false
		}
		if t.Op == "key" && len(t.Args) == 1 && x(t.Args[0]) {
			return true
		}
		if m, ok := sortedKeyOf(t); ok && x(m) {
			return true
		}
		return false
	}
}

// sortedKeyOf: t is elem(slices.Sorted(maps.Keys(m))) — the key variable of a sortedMap range.
func sortedKeyOf(t *T) (*T, bool) {
	if t == nil || t.Op != "elem" || len(t.Args) != 1 {
		return nil, false
	}
	s := t.Args[0]
	if s.Op != "call" || s.Name != "slices.Sorted" || len(s.Args) != 1 {
		return nil, false
	}
	k := s.Args[0]
	if k.Op != "call" || k.Name != "maps.Keys" || len(k.Args) != 1 {
		return nil, false
	}
	return k.Args[0], true
}

func mLookup(m, k TM) TM { return mOp("lookup", m, k) }

// mCall matches call/rec terms (or a result extracted from them) by callee name.
func mCall(name string, args ...TM) TM {
	return func(t *T) bool {
		if t == nil {
			return false
		}
		c := t
		if c.Op == "res" {
			c = c.Args[0]
		}
		if (c.Op != "call" && c.Op != "rec") || c.Name != name {
			return false
		}
		for i, a := range args {
			if i >= len(c.Args) || !a(c.Args[i]) {
				return false
			}
		}
		return true
	}
}

// mResOf matches result #i of a call matching inner.
func mResOf(i int, inner TM) TM {
	return func(t *T) bool {
		if t == nil {
			return false
		}
		if t.Op == "res" && t.Name == fmt.Sprint(i) {
			return inner(t.Args[0])
		}
		return false
	}
}

func pT(name string) *T { return &T{Op: "param", Name: name} }

// ---- guards -----------------------------------------------------------------------------------

// guardPol returns +1 / -1 if the path contains an atom of the kind whose A (and B / Const)
// match, with positive / negative polarity; 0 if absent.
func guardPol(p *Path, kind string, a TM, bOrConst any) int {
	for _, g := range p.Guards {
		if g.Kind != kind || !a(g.A) {
			continue
		}
		switch bc := bOrConst.(type) {
		case nil:
		case string:
			if g.Const != bc {
				continue
			}
		case TM:
			if !bc(g.B) {
				continue
			}
		}
		if g.Neg {
			return -1
		}
		return 1
	}
	return 0
}

func q(s string) string { return strconvQuote(s) }

// consistent: can an input satisfying the assumptions follow this path? (no syntactic contradiction)
func consistent(p *Path, assume []Atom) bool {
	x := &explorer{}
	st := &state{gkeys: map[string]bool{}, loopRange: map[int]string{}}
	for _, a := range assume {
		if !x.assume(st, a) {
			return false
		}
	}
	for _, g := range p.Guards {
		if !x.assume(st, g) {
			return false
		}
	}
	return true
}

func aKind(t *T, kind string, neg bool) Atom { return Atom{Kind: "kind", A: t, Const: kind, Neg: neg} }

func selectPaths(ps []*Path, f func(*Path) bool) []*Path {
	var out []*Path
	for _, p := range ps {
		if f(p) {
			out = append(out, p)
		}
	}
	return out
}

// ---- results ----------------------------------------------------------------------------------

// errClass classifies an error-typed result: nil | wraps:<Sentinel> | from:<callee> | carried | other.
func errClass(t *T) string {
	if t == nil {
		return "other"
	}
	if t.IsNil() {
		return "nil"
	}
	switch t.Op {
	case "global":
		if strings.HasPrefix(t.Name, "Err") {
			return "wraps:" + t.Name
		}
	case "call":
		if t.Name == "fmt.Errorf" || t.Name == "errors.Join" {
			var sent, from string
			for _, sub := range t.Find(func(x *T) bool { return true }) {
				if sub.Op == "global" && strings.HasPrefix(sub.Name, "Err") && sent == "" {
					sent = sub.Name
				}
				if (sub.Op == "res" || sub.Op == "rec" || sub.Op == "call") && sub != t && from == "" {
					if n := callName(sub); n != "" && n != "fmt.Errorf" && n != "errors.Join" {
						if sub.Op == "res" || (sub.V != nil && isErrorType(sub.V.Type())) {
							from = n
						}
					}
				}
			}
			if sent != "" {
				return "wraps:" + sent
			}
			if from != "" {
				return "from:" + from
			}
			return "other"
		}
		return "from:" + t.Name
	case "rec":
		return "from:" + t.Name
	case "res":
		return "from:" + callName(t)
	case "carried":
		return "carried"
	}
	return "other"
}

func wraps(t *T, sentinel string) bool { return errClass(t) == "wraps:"+sentinel }

// lastResult returns the last result (the error, by convention).
func lastResult(p *Path) *T {
	if len(p.Results) == 0 {
		return nil
	}
	return p.Results[len(p.Results)-1]
}

func isSuccess(p *Path) bool { return p.End == "return" && lastResult(p).IsNil() }

func isFailure(p *Path) bool {
	return p.End == "return" && len(p.Results) > 0 && !lastResult(p).IsNil()
}

// effectsWhere returns the effects of the path matching pred.
func effectsWhere(p *Path, pred func(Effect) bool) []Effect {
	var out []Effect
	for _, e := range p.Effects {
		if pred(e) {
			out = append(out, e)
		}
	}
	return out
}

func isWriteEffect(e Effect) bool {
	switch e.Kind {
	case "mapset", "mapdel", "fieldset", "elemset", "ptrset", "globalset":
		return true
	}
	return false
}

// rootParams: the parameters a term is built from.
func rootParams(t *T) map[string]bool {
	out := map[string]bool{}
	for _, s := range t.Find(func(x *T) bool { return x.Op == "param" }) {
		out[s.Name] = true
	}
	return out
}

// derivesOnlyFrom: every parameter mentioned in t is in names (and at least one is).
func derivesOnlyFrom(t *T, names ...string) bool {
	rp := rootParams(t)
	if len(rp) == 0 {
		return false
	}
	for p := range rp {
		ok := false
		for _, n := range names {
			if p == n {
				ok = true
			}
		}
		if !ok {
			return false
		}
	}
	return true
}

// writesInto: the container a write effect targets is (a projection of) param name, not a clone or fresh object.
func writesInto(e Effect, name string) bool {
	if !isWriteEffect(e) || len(e.Args) == 0 {
		return false
	}
	return targetsParam(e.Args[0], name)
}

// targetsParam: t denotes param itself or something reached from it without passing a clone/fresh/call.
func targetsParam(t *T, name string) bool {
	switch t.Op {
	case "param":
		return t.Name == name
	case "lookup", "index", "elem", "field", "slice":
		return targetsParam(t.Args[0], name)
	}
	return false
}

// ---- obligation helpers -----------------------------------------------------------------------

type psRule struct {
	p       *Prog
	r       *Result
	rule    string
	fn      *ssa.Function
	paths   []*Path
	carried map[int]carriedInfo
}

func newPSRule(p *Prog, r *Result, rule, entry string, opts PSOpts) *psRule {
	fn := p.Func(entry)
	paths := p.Paths(fn, opts)
	r.Count("paths:"+entry, len(paths))
	return &psRule{p: p, r: r, rule: rule, fn: fn, paths: paths, carried: p.carriedInfo[p.lastPathKey]}
}

func (pr *psRule) pos() string { return pr.p.Pos(pr.fn.Pos()) }

// all: every selected path satisfies prop; at least one path is selected (non-vacuity).
func (pr *psRule) all(construct string, sel []*Path, how string, prop func(*Path) (bool, string)) bool {
	key := pr.p.FuncName(pr.fn) + " / " + construct
	if len(sel) == 0 {
		pr.r.Fail(pr.rule, key, pr.pos(), "no path of "+pr.p.FuncName(pr.fn)+" realises this case any more (the documented behaviour has no code path)")
		return false
	}
	for _, p := range sel {
		if ok, why := prop(p); !ok {
			pos := pr.pos()
			if p.EndPos.IsValid() {
				pos = pr.p.Pos(p.EndPos)
			}
			pr.r.Fail(pr.rule, key, pos, why+"; offending path: "+truncate(p.String(), 900))
			return false
		}
	}
	pr.r.OK(pr.rule, key, pr.pos(), fmt.Sprintf("%s (%d paths)", how, len(sel)))
	return true
}

// allIfAny: like all, but an empty selection is acceptable (the case may legitimately not exist).
func (pr *psRule) allIfAny(construct string, sel []*Path, how string, prop func(*Path) (bool, string)) bool {
	if len(sel) == 0 {
		pr.r.OK(pr.rule, pr.p.FuncName(pr.fn)+" / "+construct, pr.pos(), "no such path")
		return true
	}
	return pr.all(construct, sel, how, prop)
}

// some: at least one selected path satisfies prop.
func (pr *psRule) some(construct string, sel []*Path, how, missing string, prop func(*Path) bool) bool {
	key := pr.p.FuncName(pr.fn) + " / " + construct
	for _, p := range sel {
		if prop(p) {
			pr.r.OK(pr.rule, key, pr.pos(), how)
			return true
		}
	}
	pr.r.Fail(pr.rule, key, pr.pos(), missing)
	return false
}

func truncate(s string, n int) string {
	if len(s) <= n {
		return s
	}
	return s[:n] + "…"
}

// hasEffect: the path performs an effect of the kind whose arguments match.
func hasEffect(p *Path, kind string, args ...TM) bool {
	for _, e := range p.Effects {
		if e.Kind != kind {
			continue
		}
		ok := true
		for i, a := range args {
			if i >= len(e.Args) || !a(e.Args[i]) {
				ok = false
				break
			}
		}
		if ok {
			return true
		}
	}
	return false
}

func hasCallEffect(p *Path, callee string, args ...TM) bool {
	for _, e := range p.Effects {
		if (e.Kind != "call" && e.Kind != "rec" && e.Kind != "extcall") || e.Callee != callee {
			continue
		}
		ok := true
		for i, a := range args {
			if i >= len(e.Args) || !a(e.Args[i]) {
				ok = false
				break
			}
		}
		if ok {
			return true
		}
	}
	return false
}

// ---- string concatenation, in whichever spelling -------------------------------------------------

// concatParts flattens a string built by + or by fmt.Sprintf with a constant format made of plain
// text and %s / %v / %d verbs into its parts; adjacent constant parts are merged. Anything else is a
// single part. fmt.Sprintf("%s.*.%s", a, b) and a + ".*." + b give the same parts.
func concatParts(t *T) []*T {
	var raw []*T
	var walk func(x *T)
	walk = func(x *T) {
		if x == nil {
			return
		}
		if x.Op == "binop" && x.Name == "+" && len(x.Args) == 2 {
			walk(x.Args[0])
			walk(x.Args[1])
			return
		}
		if x.Op == "call" && x.Name == "fmt.Sprintf" && len(x.Args) == 2 && x.Args[1] != nil && x.Args[1].Op == "lit" {
			if f, ok := x.Args[0].StrConst(); ok {
				args := x.Args[1].Args
				var parts []*T
				lit := ""
				ai := 0
				good := true
				for i := 0; i < len(f); i++ {
					if f[i] != '%' {
						lit += string(f[i])
						continue
					}
					if i+1 >= len(f) {
						good = false
						break
					}
					i++
					switch f[i] {
					case '%':
						lit += "%"
					case 's', 'v', 'd':
						if ai >= len(args) {
							good = false
							break
						}
						if lit != "" {
							parts = append(parts, &T{Op: "const", Name: strconvQuote(lit)})
							lit = ""
						}
						parts = append(parts, args[ai])
						ai++
					default:
						good = false
					}
					if !good {
						break
					}
				}
				if good && ai == len(args) {
					if lit != "" {
						parts = append(parts, &T{Op: "const", Name: strconvQuote(lit)})
					}
					for _, p := range parts {
						walk(p)
					}
					return
				}
			}
		}
		raw = append(raw, x)
	}
	walk(t)
	// merge adjacent constants
	var out []*T
	for _, p := range raw {
		if s, ok := p.StrConst(); ok && len(out) > 0 {
			if s0, ok0 := out[len(out)-1].StrConst(); ok0 {
				out[len(out)-1] = &T{Op: "const", Name: strconvQuote(s0 + s)}
				continue
			}
		}
		out = append(out, p)
	}
	return out
}

// mConcat: the term is the concatenation of exactly these parts (constants given with mStr).
func mConcat(ms ...TM) TM {
	return func(t *T) bool {
		ps := concatParts(t)
		if len(ps) != len(ms) {
			return false
		}
		for i, m := range ms {
			if !m(ps[i]) {
				return false
			}
		}
		return true
	}
}
