package main

// L — program model: load /repo's current working tree, type-check it, build SSA.
// Nothing under /repo is executed.

import (
	"fmt"
	"go/ast"
	"go/token"
	"go/types"
	"os"
	"path/filepath"
	"sort"
	"strings"

	"golang.org/x/tools/go/packages"
	"golang.org/x/tools/go/ssa"
	"golang.org/x/tools/go/ssa/ssautil"
)

const modPath = "github.com/gopatchy/bkl"

// Prog is the resolved program all engines work on.
type Prog struct {
	RepoDir string
	Fset    *token.FileSet
	Pkgs    []*packages.Package // repo packages only
	AllPkgs []*packages.Package
	SSA     *ssa.Program
	SSAPkg  map[string]*ssa.Package // short name ("bkl", "cmd/bkl", ...) -> package
	Funcs   []*ssa.Function         // every repo function with a body (incl. closures, generic instances)
	byName  map[string]*ssa.Function
	Config  LoadConfig

	cg  *CallGraph
	own *Own

	summaryCache map[summaryKey][]Deriv
	pathCache    map[string][]*Path
	carriedInfo  map[string]map[int]carriedInfo
	lastPathKey  string
	nn           *NN
	alias        map[*ssa.Function]string // renamed functions -> the name they had on the pinned tree
	Renamed      []string
	permCache    map[*ssa.Function][]int
}

type LoadConfig struct {
	GOOS, GOARCH string
	Tests        bool
	BuildTags    string
}

func (c LoadConfig) String() string {
	s := c.GOOS + "/" + c.GOARCH
	if c.Tests {
		s += "+tests"
	}
	if c.BuildTags != "" {
		s += "+tags=" + c.BuildTags
	}
	return s
}

// UndecidedError is raised (as a panic value) whenever the analysis meets something it does
// not model; the driver turns it into exit status 2.
type UndecidedError struct{ Msg string }

func (u UndecidedError) Error() string { return u.Msg }

func undecided(format string, a ...any) {
	panic(UndecidedError{fmt.Sprintf(format, a...)})
}

func shortPkg(path string) string {
	if path == modPath {
		return "bkl"
	}
	return strings.TrimPrefix(path, modPath+"/")
}

func isRepoPkgPath(path string) bool {
	return path == modPath || strings.HasPrefix(path, modPath+"/")
}

// Load type-checks the repository at dir under cfg and builds SSA for the whole program.
func Load(dir string, cfg LoadConfig) *Prog {
	env := os.Environ()
	env = append(env, "GOFLAGS=-mod=mod", "GOPROXY=off", "GOWORK=off")
	if cfg.GOOS != "" {
		env = append(env, "GOOS="+cfg.GOOS)
	}
	if cfg.GOARCH != "" {
		env = append(env, "GOARCH="+cfg.GOARCH)
	}
	env = append(env, "CGO_ENABLED=0")
	pcfg := &packages.Config{
		Mode:  packages.LoadAllSyntax | packages.NeedModule,
		Dir:   dir,
		Env:   env,
		Tests: cfg.Tests,
	}
	if cfg.BuildTags != "" {
		pcfg.BuildFlags = []string{"-tags=" + cfg.BuildTags}
	}
	pkgs, err := packages.Load(pcfg, "./...")
	if err != nil {
		undecided("packages.Load: %v", err)
	}
	p := &Prog{RepoDir: dir, Config: cfg, SSAPkg: map[string]*ssa.Package{}, byName: map[string]*ssa.Function{}}
	nerr := 0
	packages.Visit(pkgs, nil, func(pkg *packages.Package) {
		p.AllPkgs = append(p.AllPkgs, pkg)
		for _, e := range pkg.Errors {
			nerr++
			fmt.Fprintf(os.Stderr, "load error: %s: %v\n", pkg.PkgPath, e)
		}
	})
	if nerr > 0 {
		undecided("%d load/type errors in %s (%s)", nerr, dir, cfg)
	}
	seen := map[string]bool{}
	for _, pkg := range pkgs {
		if !isRepoPkgPath(pkg.PkgPath) {
			continue
		}
		if strings.HasSuffix(pkg.ID, ".test") { // synthesized test main
			continue
		}
		if cfg.Tests && seen[pkg.PkgPath] && !strings.Contains(pkg.ID, "[") {
			continue
		}
		if len(pkg.IgnoredFiles) > 0 {
			for _, f := range pkg.IgnoredFiles {
				if strings.HasSuffix(f, ".go") {
					undecided("package %s: file %s excluded by build constraints under %s; coverage of the build is incomplete", pkg.PkgPath, f, cfg)
				}
			}
		}
		p.Pkgs = append(p.Pkgs, pkg)
		seen[pkg.PkgPath] = true
	}
	np := map[string]bool{}
	for _, pkg := range p.Pkgs {
		np[pkg.PkgPath] = true
	}
	if len(np) < 8 {
		undecided("only %d repo packages loaded from %s (expected >= 8)", len(np), dir)
	}
	if len(pkgs) > 0 {
		p.Fset = pkgs[0].Fset
	}
	// Forbidden constructs that would make the call graph incomplete.
	for _, pkg := range p.Pkgs {
		for path := range pkg.Imports {
			if path == "unsafe" || path == "C" {
				undecided("package %s imports %q: call-graph completeness is lost", pkg.PkgPath, path)
			}
		}
		for _, f := range pkg.Syntax {
			for _, cg := range f.Comments {
				for _, c := range cg.List {
					if strings.HasPrefix(c.Text, "//go:linkname") {
						undecided("%s: //go:linkname present", p.Fset.Position(c.Pos()))
					}
				}
			}
		}
	}

	prog, _ := ssautil.AllPackages(pkgs, ssa.InstantiateGenerics)
	prog.Build()
	p.SSA = prog
	for _, pkg := range p.Pkgs {
		sp := prog.Package(pkg.Types)
		if sp == nil {
			undecided("no SSA package for %s", pkg.PkgPath)
		}
		// Prefer the non-test variant for name lookup, but with Tests the augmented
		// package is the one that holds all functions.
		p.SSAPkg[shortPkg(pkg.PkgPath)] = sp
	}
	repoSSAPkgs := map[*ssa.Package]bool{}
	for _, sp := range p.SSAPkg {
		repoSSAPkgs[sp] = true
	}
	for fn := range ssautil.AllFunctions(prog) {
		if fn.Blocks == nil {
			continue
		}
		pk := fnPkg(fn)
		if pk == nil || !repoSSAPkgs[pk] {
			continue
		}
		if fn.Synthetic != "" && !strings.Contains(fn.Synthetic, "range-over-func") && !strings.HasPrefix(fn.Synthetic, "instance of") && fn.Synthetic != "package initializer" {
			continue // wrappers, bound-method closures, thunks
		}
		if fn.TypeParams().Len() > 0 && len(fn.TypeArgs()) == 0 {
			continue // uninstantiated generic body; its instances are analysed instead
		}
		p.Funcs = append(p.Funcs, fn)
	}
	p.applyAliases()
	sort.Slice(p.Funcs, func(i, j int) bool { return p.FuncName(p.Funcs[i]) < p.FuncName(p.Funcs[j]) })
	for _, fn := range p.Funcs {
		p.byName[p.FuncName(fn)] = fn
	}
	return p
}

func fnPkg(fn *ssa.Function) *ssa.Package {
	for f := fn; f != nil; f = f.Parent() {
		if f.Pkg != nil {
			return f.Pkg
		}
		if o := f.Origin(); o != nil && o.Pkg != nil {
			return o.Pkg
		}
	}
	return nil
}

// FuncName is the stable key of a function: "bkl.merge", "bkl.(*Parser).MergeDocument",
// "bkl.mergeListMatch$1", "cmd/bkld.diff", "bkl.sortedMap" (generic instances are keyed by
// their origin, with the type arguments appended only if several instances exist).
func (p *Prog) FuncName(fn *ssa.Function) string {
	if fn == nil {
		return "<nil>"
	}
	if a, ok := p.alias[fn]; ok {
		return a
	}
	if par := fn.Parent(); par != nil {
		n := fn.Name()
		if i := strings.LastIndex(n, "$"); i >= 0 {
			return p.FuncName(par) + n[i:]
		}
		return p.FuncName(par) + "$" + n
	}
	pk := fnPkg(fn)
	prefix := "?"
	if pk != nil {
		prefix = shortPkg(pk.Pkg.Path())
	}
	name := fn.Name()
	if o := fn.Origin(); o != nil {
		name = o.Name()
	}
	if recv := fn.Signature.Recv(); recv != nil {
		t := recv.Type()
		ptr := ""
		if pt, ok := t.(*types.Pointer); ok {
			t = pt.Elem()
			ptr = "*"
		}
		tn := t.String()
		if nt, ok := t.(*types.Named); ok {
			tn = nt.Obj().Name()
		}
		if ptr != "" {
			return fmt.Sprintf("%s.(*%s).%s", prefix, tn, name)
		}
		return fmt.Sprintf("%s.(%s).%s", prefix, tn, name)
	}
	return prefix + "." + name
}

// Func resolves a function by its key; unresolved anchors are UNDECIDED, never a pass.
func (p *Prog) Func(name string) *ssa.Function {
	fn := p.byName[name]
	if fn == nil {
		undecided("anchor function %q not found in %s (renamed or removed? update the rule table)", name, p.RepoDir)
	}
	return fn
}

func (p *Prog) HasFunc(name string) bool { return p.byName[name] != nil }

// Pos renders a position relative to the repository root.
func (p *Prog) Pos(pos token.Pos) string {
	if !pos.IsValid() {
		return "-"
	}
	ps := p.Fset.Position(pos)
	rel, err := filepath.Rel(p.RepoDir, ps.Filename)
	if err != nil || strings.HasPrefix(rel, "..") {
		rel = ps.Filename
	}
	return fmt.Sprintf("%s:%d", rel, ps.Line)
}

func (p *Prog) InstrPos(in ssa.Instruction) string {
	if in == nil {
		return "-"
	}
	if pos := in.Pos(); pos.IsValid() {
		return p.Pos(pos)
	}
	// fall back to the closest positioned instruction in the block, then the function
	if b := in.Block(); b != nil {
		for _, x := range b.Instrs {
			if x.Pos().IsValid() {
				return p.Pos(x.Pos())
			}
		}
	}
	if fn := in.Parent(); fn != nil {
		return p.Pos(fn.Pos())
	}
	return "-"
}

// InRepo reports whether fn is one of the analysed repo functions (or nested in one).
func (p *Prog) InRepo(fn *ssa.Function) bool {
	if fn == nil {
		return false
	}
	pk := fnPkg(fn)
	if pk == nil {
		return false
	}
	return isRepoPkgPath(pk.Pkg.Path())
}

// FileOf returns the syntax file containing pos (repo packages only).
func (p *Prog) FileOf(pos token.Pos) *ast.File {
	for _, pkg := range p.Pkgs {
		for _, f := range pkg.Syntax {
			if f.Pos() <= pos && pos <= f.End() {
				return f
			}
		}
	}
	return nil
}

// Entries are the roots of reachability: exported functions and methods of package bkl and
// wrapper, and every main.
func (p *Prog) Entries() []*ssa.Function {
	var out []*ssa.Function
	for _, fn := range p.Funcs {
		if fn.Parent() != nil {
			continue
		}
		pk := fnPkg(fn)
		if pk == nil {
			continue
		}
		sp := shortPkg(pk.Pkg.Path())
		name := fn.Name()
		if o := fn.Origin(); o != nil {
			name = o.Name()
		}
		switch {
		case name == "main" && strings.HasPrefix(sp, "cmd/"):
			out = append(out, fn)
		case name == "init":
			out = append(out, fn)
		case (sp == "bkl" || sp == "wrapper") && ast.IsExported(name):
			if recv := fn.Signature.Recv(); recv != nil {
				t := recv.Type()
				if pt, ok := t.(*types.Pointer); ok {
					t = pt.Elem()
				}
				if nt, ok := t.(*types.Named); ok && !nt.Obj().Exported() {
					continue
				}
			}
			out = append(out, fn)
		}
	}
	return out
}
