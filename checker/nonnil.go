package main

// NN — container non-nilness.
//
// Two structural facts that the behaviour relies on and that no test pins down for every input:
//
//   (nilmap)  a write into a map never hits a nil map (that is a run-time panic: C08);
//   (typednil) no nil map or nil slice is ever boxed into an `any` that becomes part of a document
//             tree. A typed nil inside an interface is != nil, so the "nothing here" tests of the
//             tools keep it, and the encoders print it as null: an empty map or list silently
//             turns into null (C05/C06/C16 "empty maps and lists survive").
//
// Both are decided by one interprocedural may-be-nil analysis over SSA: a value of map or slice type
// is non-nil if it is built by make / a literal / append with at least one element / a call whose
// successful returns are all non-nil / a parameter that every call site fills with a non-nil value /
// a type assertion from `any` (inductively: `any` values never hold typed nils — that is exactly what
// (typednil) establishes for repo code, and what the decoders guarantee for input).
// Summaries (parameters, results, struct fields) start optimistic and are lowered to a fixpoint.

import (
	"fmt"
	"go/constant"
	"go/token"
	"go/types"
	"sort"
	"strings"

	"golang.org/x/tools/go/ssa"
)

type nnResKey struct {
	fn *ssa.Function
	i  int
}

type NN struct {
	p        *Prog
	paramBad map[*ssa.Parameter]string // parameter -> why it may be nil
	resBad   map[nnResKey]string
	fieldBad map[string]string // "pkg.Type.field" -> why
	changed  bool
	funcs    []*ssa.Function
}

func isContainer(t types.Type) bool {
	switch t.Underlying().(type) {
	case *types.Map, *types.Slice:
		return true
	}
	return false
}

// isTreeContainer: map[string]any, []any, and typed nestings of them ([]map[string]any, ...).
func isTreeContainer(t types.Type) bool {
	var elem types.Type
	switch u := t.Underlying().(type) {
	case *types.Map:
		elem = u.Elem()
	case *types.Slice:
		elem = u.Elem()
	default:
		return false
	}
	if it, ok := elem.Underlying().(*types.Interface); ok {
		return it.NumMethods() == 0
	}
	return isTreeContainer(elem)
}

func (p *Prog) NN() *NN {
	if p.nn != nil {
		return p.nn
	}
	n := &NN{p: p, paramBad: map[*ssa.Parameter]string{}, resBad: map[nnResKey]string{}, fieldBad: map[string]string{}}
	for _, fn := range p.Funcs {
		n.funcs = append(n.funcs, fn)
		for _, an := range allAnon(fn) {
			n.funcs = append(n.funcs, an)
		}
	}
	// API entry points: container parameters come from outside
	entry := map[*ssa.Function]bool{}
	for _, fn := range p.Entries() {
		entry[fn] = true
	}
	g := p.CG()
	for _, fn := range n.funcs {
		if entry[fn] {
			for _, par := range fn.Params {
				if isContainer(par.Type()) {
					n.paramBad[par] = "parameter of an exported entry point (filled by the caller of the library)"
				}
			}
		}
	}
	for round := 0; round < 50; round++ {
		n.changed = false
		for _, fn := range n.funcs {
			// parameters: every incoming call
			for _, e := range g.In[fn] {
				if !p.InRepo(e.Caller) {
					for _, par := range fn.Params {
						if isContainer(par.Type()) {
							n.lowerParam(par, "called from outside the repository ("+e.Kind+")")
						}
					}
					continue
				}
				args := e.Site.Common().Args
				if e.Site.Common().IsInvoke() || len(args) != len(fn.Params) {
					// bound method / closure with a different arity: be conservative
					for _, par := range fn.Params {
						if isContainer(par.Type()) {
							n.lowerParam(par, "called through a value with a different arity at "+p.InstrPos(e.Site))
						}
					}
					continue
				}
				for i, par := range fn.Params {
					if !isContainer(par.Type()) {
						continue
					}
					if ok, why := n.nonNilAt(args[i], e.Site.Block()); !ok {
						n.lowerParam(par, "argument at "+p.InstrPos(e.Site)+" may be nil: "+why)
					}
				}
			}
			// results
			n.summariseResults(fn)
			// struct fields
			for _, b := range fn.Blocks {
				for _, in := range b.Instrs {
					st, ok := in.(*ssa.Store)
					if !ok {
						continue
					}
					fa, ok := st.Addr.(*ssa.FieldAddr)
					if !ok || !isContainer(st.Val.Type()) {
						continue
					}
					if ok, why := n.nonNilAt(st.Val, st.Block()); !ok {
						n.lowerField(nnFieldName(fa), "stored at "+p.InstrPos(st)+" may be nil: "+why)
					}
				}
			}
		}
		if !n.changed {
			break
		}
	}
	// struct values built without the field: zero value is nil
	for _, fn := range n.funcs {
		for _, b := range fn.Blocks {
			for _, in := range b.Instrs {
				al, ok := in.(*ssa.Alloc)
				if !ok {
					continue
				}
				stt, ok := al.Type().(*types.Pointer).Elem().Underlying().(*types.Struct)
				if !ok {
					continue
				}
				named, _ := al.Type().(*types.Pointer).Elem().(*types.Named)
				if named == nil || named.Obj().Pkg() == nil || !isRepoPkgPath(named.Obj().Pkg().Path()) {
					continue
				}
				set := map[int]bool{}
				whole := false
				for _, ref := range *al.Referrers() {
					switch r := ref.(type) {
					case *ssa.FieldAddr:
						for _, r2 := range *r.Referrers() {
							// only an unconditional initialisation counts (same block as the allocation: the composite literal)
							if st, ok := r2.(*ssa.Store); ok && st.Addr == ssa.Value(r) && st.Block() == al.Block() {
								set[r.Field] = true
							}
						}
					case *ssa.Store:
						if r.Addr == ssa.Value(al) {
							whole = true // *p = someStructValue
						}
					}
				}
				if whole {
					continue
				}
				for i := 0; i < stt.NumFields(); i++ {
					if isContainer(stt.Field(i).Type()) && !set[i] {
						key := named.Obj().Pkg().Path() + "." + named.Obj().Name() + "." + stt.Field(i).Name()
						if _, bad := n.fieldBad[key]; !bad {
							n.fieldBad[key] = "a " + named.Obj().Name() + " is built at " + p.InstrPos(al) + " without setting " + stt.Field(i).Name() + " (zero value: nil)"
						}
					}
				}
			}
		}
	}
	p.nn = n
	return n
}

func allAnon(fn *ssa.Function) []*ssa.Function {
	var out []*ssa.Function
	for _, an := range fn.AnonFuncs {
		out = append(out, an)
		out = append(out, allAnon(an)...)
	}
	return out
}

func nnFieldName(fa *ssa.FieldAddr) string {
	pt, ok := fa.X.Type().Underlying().(*types.Pointer)
	if !ok {
		return "?"
	}
	st, ok := pt.Elem().Underlying().(*types.Struct)
	if !ok {
		return "?"
	}
	name := "?"
	if nm, ok := pt.Elem().(*types.Named); ok && nm.Obj().Pkg() != nil {
		name = nm.Obj().Pkg().Path() + "." + nm.Obj().Name()
	}
	return name + "." + st.Field(fa.Field).Name()
}

func (n *NN) lowerParam(par *ssa.Parameter, why string) {
	if _, ok := n.paramBad[par]; !ok {
		n.paramBad[par] = why
		n.changed = true
	}
}

func (n *NN) lowerField(f, why string) {
	if _, ok := n.fieldBad[f]; !ok {
		n.fieldBad[f] = why
		n.changed = true
	}
}

// failureReturn: the Return hands back a non-nil error (its other results are don't-cares).
func failureReturn(ret *ssa.Return) bool {
	sig := ret.Parent().Signature
	k := sig.Results().Len()
	if k == 0 || !nnIsErrorType(sig.Results().At(k-1).Type()) {
		return false
	}
	ev := retValue(ret, k-1)
	return errNonNilAt(ev, ret.Block())
}

func nnIsErrorType(t types.Type) bool {
	nm, ok := t.(*types.Named)
	return ok && nm.Obj().Pkg() == nil && nm.Obj().Name() == "error"
}

func errNonNilAt(ev ssa.Value, b *ssa.BasicBlock) bool {
	switch x := ev.(type) {
	case *ssa.Const:
		return false
	case *ssa.MakeInterface:
		return true
	case *ssa.UnOp:
		if _, ok := x.X.(*ssa.Global); ok && x.Op == token.MUL {
			return true // sentinel error variable
		}
	case *ssa.Call:
		if f := x.Call.StaticCallee(); f != nil && f.Pkg != nil {
			full := f.Pkg.Pkg.Path() + "." + f.Name()
			if full == "fmt.Errorf" || full == "errors.New" {
				return true
			}
		}
	}
	// dominated by the true branch of "ev != nil" (or the false branch of "ev == nil")
	for d := b; d != nil; d = d.Idom() {
		id := d.Idom()
		if id == nil {
			break
		}
		iff, ok := id.Instrs[len(id.Instrs)-1].(*ssa.If)
		if !ok {
			continue
		}
		bo, ok := iff.Cond.(*ssa.BinOp)
		if !ok || (bo.Op != token.NEQ && bo.Op != token.EQL) {
			continue
		}
		c, isC := bo.Y.(*ssa.Const)
		if !isC || !c.IsNil() || bo.X != ev {
			continue
		}
		want := id.Succs[0]
		if bo.Op == token.EQL {
			want = id.Succs[1]
		}
		if want == d && len(d.Preds) == 1 {
			return true
		}
	}
	return false
}

func (n *NN) summariseResults(fn *ssa.Function) {
	res := fn.Signature.Results()
	for i := 0; i < res.Len(); i++ {
		if !isContainer(res.At(i).Type()) {
			continue
		}
		key := nnResKey{fn, i}
		if _, bad := n.resBad[key]; bad {
			continue
		}
		for _, b := range fn.Blocks {
			ret, ok := b.Instrs[len(b.Instrs)-1].(*ssa.Return)
			if !ok {
				continue
			}
			if ok, why, where := n.returnNonNil(ret, i); !ok {
				n.resBad[key] = "returned at " + where + " with a nil error: " + why
				n.changed = true
				break
			}
		}
	}
}

// resultCell: the Return reads result i from a cell (functions with defer or with a range-over-func
// loop keep their results in cells that the loop body closures assign before leaving).
func resultCell(ret *ssa.Return, i int) *ssa.Alloc {
	u, ok := ret.Results[i].(*ssa.UnOp)
	if !ok || u.Op != token.MUL {
		return nil
	}
	al, _ := u.X.(*ssa.Alloc)
	return al
}

// cellStoresEverywhere: stores to the cell in its function and in every closure that captures it.
func cellStoresEverywhere(a *ssa.Alloc) []*ssa.Store {
	var out []*ssa.Store
	for _, ref := range *a.Referrers() {
		switch r := ref.(type) {
		case *ssa.Store:
			if r.Addr == ssa.Value(a) {
				out = append(out, r)
			}
		case *ssa.MakeClosure:
			cl := r.Fn.(*ssa.Function)
			for j, bd := range r.Bindings {
				if bd == ssa.Value(a) {
					out = append(out, freeVarStores(cl, cl.FreeVars[j])...)
				}
			}
		}
	}
	return out
}

// returnNonNil: result i of this Return is non-nil whenever the error result is nil.
func (n *NN) returnNonNil(ret *ssa.Return, i int) (bool, string, string) {
	sig := ret.Parent().Signature
	k := sig.Results().Len()
	hasErr := k > 0 && nnIsErrorType(sig.Results().At(k-1).Type())
	cell := resultCell(ret, i)
	if cell == nil {
		if failureReturn(ret) {
			return true, "", ""
		}
		ok, why := n.nonNilAt(ret.Results[i], ret.Block())
		return ok, why, n.p.InstrPos(ret)
	}
	var errCell *ssa.Alloc
	if hasErr {
		errCell = resultCell(ret, k-1)
	}
	stores := cellStoresEverywhere(cell)
	if len(stores) == 0 {
		return false, "the result cell is never assigned", n.p.InstrPos(ret)
	}
	for _, st := range stores {
		// the error assigned together with it (same block)
		if errCell != nil {
			failed := false
			for _, in := range st.Block().Instrs {
				es, ok := in.(*ssa.Store)
				if !ok {
					continue
				}
				same := es.Addr == ssa.Value(errCell)
				if fv, ok := es.Addr.(*ssa.FreeVar); ok && !same {
					same = bindingOf(fv) == ssa.Value(errCell)
				}
				if same && errNonNilAt(es.Val, st.Block()) {
					failed = true
				}
			}
			if failed {
				continue
			}
		}
		if ok, why := n.nonNilAt(st.Val, st.Block()); !ok {
			return false, why, n.p.InstrPos(st)
		}
	}
	return true, "", ""
}

// bindingOf: the value a free variable is bound to where its closure is created (outermost).
func bindingOf(fv *ssa.FreeVar) ssa.Value {
	cl := fv.Parent()
	parent := cl.Parent()
	if parent == nil {
		return nil
	}
	idx := -1
	for i, f := range cl.FreeVars {
		if f == fv {
			idx = i
		}
	}
	for _, b := range parent.Blocks {
		for _, in := range b.Instrs {
			if mc, ok := in.(*ssa.MakeClosure); ok && mc.Fn == ssa.Value(cl) && idx >= 0 && idx < len(mc.Bindings) {
				if inner, ok := mc.Bindings[idx].(*ssa.FreeVar); ok {
					return bindingOf(inner)
				}
				return mc.Bindings[idx]
			}
		}
	}
	return nil
}

// nonNilAt: v is non-nil at the given block — either in general, or because the block is only reached
// after a test that v is not nil (v != nil, v == nil on the other branch, len(v) != 0 / > 0).
func (n *NN) nonNilAt(v ssa.Value, at *ssa.BasicBlock) (bool, string) {
	ok, why := n.nonNil(v, map[ssa.Value]bool{})
	if ok || at == nil {
		return ok, why
	}
	for d := at; d != nil; d = d.Idom() {
		id := d.Idom()
		if id == nil {
			break
		}
		iff, isIf := id.Instrs[len(id.Instrs)-1].(*ssa.If)
		if !isIf || len(d.Preds) != 1 {
			continue
		}
		bo, isB := iff.Cond.(*ssa.BinOp)
		if !isB {
			continue
		}
		onTrue := id.Succs[0] == d
		c, isC := bo.Y.(*ssa.Const)
		if !isC {
			continue
		}
		if bo.X == v && c.IsNil() {
			if bo.Op == token.NEQ && onTrue || bo.Op == token.EQL && !onTrue {
				return true, ""
			}
		}
		// slices.Concat(a, b, ...) under a test that len(a)+len(b)+... is not zero
		if cc, isCC := v.(*ssa.Call); isCC && c.Value != nil && c.Value.Kind() == constant.Int {
			if nm, _ := calleeFullName(&cc.Call); nm == "slices.Concat" && len(cc.Call.Args) == 1 {
				if k, _ := constant.Int64Val(c.Value); k == 0 && sumOfLens(bo.X, concatOperands(cc)) {
					if bo.Op == token.NEQ && onTrue || bo.Op == token.EQL && !onTrue || bo.Op == token.GTR && onTrue || bo.Op == token.LEQ && !onTrue {
						return true, ""
					}
				}
			}
		}
		if call, isCall := bo.X.(*ssa.Call); isCall {
			if b, isBi := call.Call.Value.(*ssa.Builtin); isBi && b.Name() == "len" && call.Call.Args[0] == v && c.Value != nil && c.Value.Kind() == constant.Int {
				k, _ := constant.Int64Val(c.Value)
				if k == 0 && (bo.Op == token.NEQ && onTrue || bo.Op == token.EQL && !onTrue || bo.Op == token.GTR && onTrue || bo.Op == token.LEQ && !onTrue) {
					return true, ""
				}
			}
		}
	}
	return false, why
}

// extNonNil: external functions whose container result is non-nil (possibly depending on an argument).
// value: -1 always non-nil, k >= 0: non-nil iff argument k is.
var extNonNil = map[string]int{
	"strings.Split": -1, "strings.SplitN": -1, "strings.Fields": -1, "strings.SplitAfter": -1,
	"maps.Clone": 0, "slices.Clone": 0, "slices.Clip": 0,
	"regexp.(*Regexp).FindAllStringSubmatchIndex": -2, // may be nil
	"os.Environ": -1,
}

// nonNil reports whether v (a map or slice) is certainly non-nil, with a reason when it is not.
func (n *NN) nonNil(v ssa.Value, seen map[ssa.Value]bool) (bool, string) {
	if seen[v] {
		return true, "" // optimistic on cycles (phi of itself)
	}
	seen[v] = true
	switch x := v.(type) {
	case *ssa.Const:
		if x.IsNil() || x.Value == nil {
			return false, "nil " + x.Type().String()
		}
		if x.Value.Kind() == constant.String {
			return true, ""
		}
		return false, "constant"
	case *ssa.MakeMap, *ssa.MakeSlice:
		return true, ""
	case *ssa.Slice:
		if _, ok := x.X.Type().Underlying().(*types.Pointer); ok {
			return true, "" // slice of an array (literal)
		}
		if _, ok := x.X.Type().Underlying().(*types.Basic); ok {
			return true, ""
		}
		return n.nonNil(x.X, seen)
	case *ssa.ChangeType:
		return n.nonNil(x.X, seen)
	case *ssa.Convert:
		if isContainer(x.X.Type()) {
			return n.nonNil(x.X, seen)
		}
		return true, "" // []byte(string) etc.: content conversion; emptiness is not nilness for our sinks
	case *ssa.Phi:
		for i, e := range x.Edges {
			if ok, why := n.nonNil(e, seen); !ok {
				// "var c T; if m != nil { c = copy of m }" with m known to be non-nil: the nil edge is the failing
				// side of a nil test on a value that is never nil, so it is never taken
				if c, isC := e.(*ssa.Const); isC && c.IsNil() && i < len(x.Block().Preds) && n.edgeNeedsNil(x.Block().Preds[i], x.Block(), seen) {
					continue
				}
				return false, why
			}
		}
		return true, ""
	case *ssa.Parameter:
		if why, bad := n.paramBad[x]; bad {
			return false, "parameter " + x.Name() + " of " + n.p.FuncName(x.Parent()) + ": " + why
		}
		return true, ""
	case *ssa.FreeVar:
		return false, "captured variable " + x.Name()
	case *ssa.TypeAssert:
		return true, "" // `any` values never hold typed nil containers (the invariant itself)
	case *ssa.Extract:
		if c, ok := x.Tuple.(*ssa.Call); ok {
			return n.callResult(c, x.Index, seen)
		}
		if _, ok := x.Tuple.(*ssa.TypeAssert); ok {
			return true, ""
		}
		if _, ok := x.Tuple.(*ssa.Next); ok {
			return true, "" // element of a ranged container of containers (element rule)
		}
		return false, "tuple component"
	case *ssa.Call:
		return n.callResult(x, 0, seen)
	case *ssa.UnOp:
		if x.Op != token.MUL {
			return false, "unary op"
		}
		switch a := x.X.(type) {
		case *ssa.Alloc:
			return n.cellNonNil(a, x, seen)
		case *ssa.FieldAddr:
			f := nnFieldName(a)
			// assigned a non-nil value just before, in the same block, with no call in between
			if blk := x.Block(); blk != nil {
				idx := instrIndex(x)
				for i := idx - 1; i >= 0; i-- {
					in := blk.Instrs[i]
					if _, isCall := in.(ssa.CallInstruction); isCall {
						break
					}
					if st, ok := in.(*ssa.Store); ok {
						if fa2, ok := st.Addr.(*ssa.FieldAddr); ok && fa2.X == a.X && fa2.Field == a.Field {
							return n.nonNil(st.Val, seen)
						}
					}
				}
			}
			if why, bad := n.fieldBad[f]; bad {
				return false, "field " + f + ": " + why
			}
			return true, ""
		case *ssa.Global:
			return false, "global " + a.Name()
		case *ssa.FreeVar:
			// captured cell: all stores anywhere must be non-nil and it must be initialised non-nil before the closure is made
			return n.capturedNonNil(a, seen, 0)
		}
		if _, ok := x.X.(*ssa.IndexAddr); ok {
			return true, "" // element of a slice of containers (element rule)
		}
		return false, "load through " + fmt.Sprintf("%T", x.X)
	case *ssa.Lookup:
		if x.CommaOk {
			return false, "map element (comma-ok tuple)"
		}
		return false, "map element (nil when the key is absent)"
	case *ssa.Index:
		return true, "" // element of a slice of containers: non-nil by the element rule (ruleTypedNil checks every element store)
	}
	return false, fmt.Sprintf("%T", v)
}

// edgeNeedsNil: control takes the edge pred -> blk only when a map or slice that the analysis knows to be non-nil
// compared equal to nil (pred ends in that test, or is reached only through it by unconditional jumps).
func (n *NN) edgeNeedsNil(pred, blk *ssa.BasicBlock, seen map[ssa.Value]bool) bool {
	for hops := 0; hops < 3 && pred != nil; hops++ {
		if iff, ok := pred.Instrs[len(pred.Instrs)-1].(*ssa.If); ok {
			bo, isB := iff.Cond.(*ssa.BinOp)
			if !isB || len(pred.Succs) != 2 || pred.Succs[0] == pred.Succs[1] {
				return false
			}
			c, isC := bo.Y.(*ssa.Const)
			if !isC || !c.IsNil() || !isContainer(bo.X.Type()) {
				return false
			}
			nilSide := pred.Succs[0] // X == nil
			if bo.Op == token.NEQ {
				nilSide = pred.Succs[1]
			} else if bo.Op != token.EQL {
				return false
			}
			if nilSide != blk {
				return false
			}
			seen2 := map[ssa.Value]bool{}
			for k, v := range seen {
				seen2[k] = v
			}
			ok2, _ := n.nonNil(bo.X, seen2)
			return ok2
		}
		if _, isJump := pred.Instrs[len(pred.Instrs)-1].(*ssa.Jump); !isJump || len(pred.Preds) != 1 || len(pred.Instrs) != 1 {
			return false
		}
		blk, pred = pred, pred.Preds[0]
	}
	return false
}

func (n *NN) cellNonNil(a *ssa.Alloc, load *ssa.UnOp, seen map[ssa.Value]bool) (bool, string) {
	return n.cellNonNilAt(a, load, seen)
}

// capturedNonNil: the cell behind a captured variable holds a non-nil container whenever the closure runs:
// it is assigned a non-nil value before the closure is created, and every other assignment (in the
// declaring function or in any closure sharing it) is non-nil too.
func (n *NN) capturedNonNil(fv *ssa.FreeVar, seen map[ssa.Value]bool, depth int) (bool, string) {
	if depth > 4 {
		return false, "deeply nested capture of " + fv.Name()
	}
	cl := fv.Parent()
	parent := cl.Parent()
	if parent == nil {
		return false, "captured cell " + fv.Name()
	}
	idx := -1
	for i, f := range cl.FreeVars {
		if f == fv {
			idx = i
		}
	}
	for _, b := range parent.Blocks {
		for _, in := range b.Instrs {
			mc, ok := in.(*ssa.MakeClosure)
			if !ok || mc.Fn != ssa.Value(cl) || idx < 0 || idx >= len(mc.Bindings) {
				continue
			}
			switch bd := mc.Bindings[idx].(type) {
			case *ssa.Alloc:
				return n.cellNonNilAt(bd, mc, seen)
			case *ssa.FreeVar:
				return n.capturedNonNil(bd, seen, depth+1)
			}
			return false, "captured value " + fv.Name()
		}
	}
	return false, "captured cell " + fv.Name() + " (closure creation not found)"
}

// cellNonNilAt: like cellNonNil, for a use at instruction `at` in the declaring function.
func (n *NN) cellNonNilAt(a *ssa.Alloc, at ssa.Instruction, seen map[ssa.Value]bool) (bool, string) {
	var stores []*ssa.Store
	for _, ref := range *a.Referrers() {
		switch r := ref.(type) {
		case *ssa.Store:
			if r.Addr == ssa.Value(a) {
				stores = append(stores, r)
			} else {
				return false, "the variable's address is stored"
			}
		case *ssa.UnOp, *ssa.DebugRef:
		case *ssa.MakeClosure:
			cl := r.Fn.(*ssa.Function)
			for i, bd := range r.Bindings {
				if bd != ssa.Value(a) {
					continue
				}
				stores = append(stores, freeVarStores(cl, cl.FreeVars[i])...)
			}
		default:
			return false, "the variable's address escapes"
		}
	}
	dominated := false
	for _, st := range stores {
		if ok, why := n.nonNil(st.Val, seen); !ok {
			return false, why
		}
		if st.Parent() == at.Parent() && (st.Block() == at.Block() && instrIndex(st) < instrIndex(at) || st.Block() != at.Block() && st.Block().Dominates(at.Block())) {
			dominated = true
		}
	}
	if !dominated {
		return false, "variable " + a.Comment + " may still hold its zero value (nil) here"
	}
	return true, ""
}

// freeVarStores: stores through a captured cell in the closure and the closures nested in it.
func freeVarStores(cl *ssa.Function, fv *ssa.FreeVar) []*ssa.Store {
	var out []*ssa.Store
	for _, ref := range *fv.Referrers() {
		switch r := ref.(type) {
		case *ssa.Store:
			if r.Addr == ssa.Value(fv) {
				out = append(out, r)
			}
		case *ssa.MakeClosure:
			inner := r.Fn.(*ssa.Function)
			for i, bd := range r.Bindings {
				if bd == ssa.Value(fv) {
					out = append(out, freeVarStores(inner, inner.FreeVars[i])...)
				}
			}
		}
	}
	return out
}

func instrIndex(in ssa.Instruction) int {
	for i, x := range in.Block().Instrs {
		if x == in {
			return i
		}
	}
	return -1
}

func (n *NN) callResult(c *ssa.Call, idx int, seen map[ssa.Value]bool) (bool, string) {
	if b, ok := c.Call.Value.(*ssa.Builtin); ok {
		if b.Name() == "append" {
			if ok, _ := n.nonNil(c.Call.Args[0], seen); ok {
				return true, ""
			}
			if len(c.Call.Args) == 2 {
				if sl, ok := c.Call.Args[1].(*ssa.Slice); ok {
					if al, ok := sl.X.(*ssa.Alloc); ok {
						if arr, ok := al.Type().(*types.Pointer).Elem().Underlying().(*types.Array); ok && arr.Len() > 0 {
							return true, "" // at least one element is appended
						}
					}
				}
			}
			return false, "append to a possibly nil slice of possibly no elements"
		}
		return false, "builtin " + b.Name()
	}
	callee := c.Call.StaticCallee()
	if callee == nil {
		return false, "result of a dynamic call"
	}
	if n.p.InRepo(callee) {
		if why, bad := n.resBad[nnResKey{callee, idx}]; bad {
			return false, "result of " + n.p.FuncName(callee) + ": " + why
		}
		return true, ""
	}
	name, _ := calleeFullName(&c.Call)
	if name == "slices.Concat" {
		// non-nil as soon as one of the slices is non-empty; certainly so when one of them is a non-empty literal
		if len(c.Call.Args) == 1 {
			if sl, ok := c.Call.Args[0].(*ssa.Slice); ok {
				if al, ok := sl.X.(*ssa.Alloc); ok {
					for _, e := range literalElems(al) {
						if lit, ok := e.(*ssa.Slice); ok {
							if la, ok := lit.X.(*ssa.Alloc); ok {
								if arr, ok := la.Type().(*types.Pointer).Elem().Underlying().(*types.Array); ok && arr.Len() > 0 {
									return true, ""
								}
							}
						}
					}
				}
			}
		}
		return false, "concatenation of slices that may all be empty"
	}
	if k, ok := extNonNil[name]; ok {
		switch {
		case k == -1:
			return true, ""
		case k >= 0:
			return n.nonNil(c.Call.Args[k], seen)
		}
	}
	return false, "result of " + name
}

// formattingOnly: the boxed value is only handed to fmt / log / errors functions (diagnostics).
func formattingOnly(mi *ssa.MakeInterface) bool {
	refs := mi.Referrers()
	if refs == nil || len(*refs) == 0 {
		return false
	}
	var check func(v ssa.Value, refs []ssa.Instruction, depth int) bool
	check = func(v ssa.Value, refs []ssa.Instruction, depth int) bool {
		if depth > 4 {
			return false
		}
		for _, ref := range refs {
			switch r := ref.(type) {
			case *ssa.DebugRef:
			case *ssa.Store:
				// stored into a varargs array that is then sliced and passed on
				ia, ok := r.Addr.(*ssa.IndexAddr)
				if !ok || r.Val != v {
					return false
				}
				al, ok := ia.X.(*ssa.Alloc)
				if !ok {
					return false
				}
				for _, r2 := range *al.Referrers() {
					sl, ok := r2.(*ssa.Slice)
					if !ok {
						continue
					}
					if !check(sl, *sl.Referrers(), depth+1) {
						return false
					}
				}
			case ssa.CallInstruction:
				name, _ := calleeFullName(r.Common())
				if !(strings.HasPrefix(name, "fmt.") || strings.HasPrefix(name, "log.") || strings.HasPrefix(name, "errors.") || strings.HasSuffix(name, ".log") || strings.HasSuffix(name, ".debug")) {
					return false
				}
			default:
				return false
			}
		}
		return true
	}
	return check(mi, *refs, 0)
}

// ruleNilMap (C08.nilmap): a map that is written is never nil.
func ruleNilMap(p *Prog, r *Result) {
	n := p.NN()
	cnt := 0
	for _, fn := range n.funcs {
		for _, b := range fn.Blocks {
			for _, in := range b.Instrs {
				mu, ok := in.(*ssa.MapUpdate)
				if !ok {
					continue
				}
				cnt++
				key := fmt.Sprintf("%s / write into %s", p.FuncName(fn), valueLabel(mu.Map))
				if ok, why := n.nonNilAt(mu.Map, mu.Block()); ok {
					r.OK("C08.nilmap", key, p.InstrPos(mu), "the map written is non-nil on every path (made, cloned from non-nil, asserted out of a tree value, or a parameter every caller fills with such a map)")
				} else {
					r.Fail("C08.nilmap", key, p.InstrPos(mu), "assignment to an entry of a map that may be nil (run-time panic): "+why)
				}
			}
		}
	}
	r.Count("map_writes", cnt)
	r.Floor("C08.nilmap", "map writes examined", cnt, 25)
}

// ruleTypedNil (<prop>.typednil): no possibly-nil map or slice is boxed into a tree value.
func ruleTypedNil(rule string) func(p *Prog, r *Result) {
	return func(p *Prog, r *Result) {
		n := p.NN()
		cnt, diag := 0, 0
		seenKey := map[string]int{}
		for _, fn := range n.funcs {
			for _, b := range fn.Blocks {
				for _, in := range b.Instrs {
					// elements of containers of containers (map[string][]any, []map[string]any, ...): same rule,
					// which is what lets element loads be taken as non-nil
					var elem ssa.Value
					switch st := in.(type) {
					case *ssa.MapUpdate:
						if isTreeContainer(st.Value.Type()) {
							elem = st.Value
						}
					case *ssa.Store:
						if ia, isIA := st.Addr.(*ssa.IndexAddr); isIA && isTreeContainer(st.Val.Type()) && !varargsArray(ia.X) {
							elem = st.Val
						}
					}
					if elem != nil {
						cnt++
						key := fmt.Sprintf("%s / stores element %s %s", p.FuncName(fn), elem.Type().String(), valueLabel(elem))
						seenKey[key]++
						if seenKey[key] > 1 {
							key = fmt.Sprintf("%s #%d", key, seenKey[key])
						}
						if ok, why := n.nonNilAt(elem, in.Block()); ok {
							r.OK(rule, key, p.InstrPos(in), "the container stored as an element is never nil")
						} else {
							r.Fail(rule, key, p.InstrPos(in), "a map or slice that may be nil is stored as an element of a typed container and can reach a tree value from there: "+why)
						}
						continue
					}
					mi, ok := in.(*ssa.MakeInterface)
					if !ok || !isContainer(mi.X.Type()) {
						continue
					}
					if formattingOnly(mi) || failureOnly(mi) {
						diag++
						continue
					}
					cnt++
					key := fmt.Sprintf("%s / boxes %s %s", p.FuncName(fn), mi.X.Type().String(), valueLabel(mi.X))
					seenKey[key]++
					if seenKey[key] > 1 {
						key = fmt.Sprintf("%s #%d", key, seenKey[key])
					}
					if ok, why := n.nonNilAt(mi.X, mi.Block()); ok {
						r.OK(rule, key, p.InstrPos(mi), "the container stored as a tree value is never nil (an empty map/list stays a map/list)")
					} else {
						r.Fail(rule, key, p.InstrPos(mi), "a map or slice that may be nil is stored in an `any`: a typed nil is != nil for the presence tests and is written as null by the encoders, so an empty container turns into null: "+why)
					}
				}
			}
		}
		r.Count("boxed_containers", cnt)
		r.Count("boxed_for_diagnostics_only", diag)
		r.Floor(rule, "container boxing sites examined", cnt, 30)
	}
}

func valueLabel(v ssa.Value) string {
	switch x := v.(type) {
	case *ssa.Parameter:
		return "parameter " + x.Name()
	case *ssa.MakeMap:
		return "a fresh map"
	case *ssa.MakeSlice:
		return "a fresh slice"
	case *ssa.Phi:
		if x.Comment != "" {
			return "variable " + x.Comment
		}
	case *ssa.Call:
		name, _ := calleeFullName(&x.Call)
		return "result of " + name
	case *ssa.Extract:
		if c, ok := x.Tuple.(*ssa.Call); ok {
			name, _ := calleeFullName(&c.Call)
			return fmt.Sprintf("result #%d of %s", x.Index, name)
		}
		if _, ok := x.Tuple.(*ssa.TypeAssert); ok {
			return "an asserted tree value"
		}
	case *ssa.TypeAssert:
		return "an asserted tree value"
	case *ssa.UnOp:
		if fa, ok := x.X.(*ssa.FieldAddr); ok {
			return "field " + nnFieldName(fa)
		}
		if al, ok := x.X.(*ssa.Alloc); ok {
			return "variable " + al.Comment
		}
	case *ssa.Slice:
		return "a slice expression"
	case *ssa.Const:
		return "constant " + x.String()
	}
	return strings.TrimPrefix(fmt.Sprintf("%T", v), "*ssa.")
}

var _ = sort.Strings

// failureOnly: the boxed value is only ever returned next to a non-nil error (the "nil, err" of a function
// whose result type is `any` but whose local is a typed container): callers that check the error never see it.
func failureOnly(mi *ssa.MakeInterface) bool {
	refs := mi.Referrers()
	if refs == nil || len(*refs) == 0 {
		return false
	}
	for _, ref := range *refs {
		switch r := ref.(type) {
		case *ssa.DebugRef:
		case *ssa.Return:
			if !failureReturn(r) {
				return false
			}
		case *ssa.Store:
			// result cell of a function with defer / range-over-func: the error cell assigned in the same block decides
			// (in the body of a range-over-func loop the cell is a captured variable of the enclosing function)
			switch a := r.Addr.(type) {
			case *ssa.Alloc:
			case *ssa.FreeVar:
				if !isResultCellName(a.Parent(), a.Name()) {
					return false
				}
			default:
				return false
			}
			failed := false
			for _, in := range r.Block().Instrs {
				if es, ok := in.(*ssa.Store); ok && es != r && nnIsErrorType(es.Val.Type()) && errNonNilAt(es.Val, r.Block()) {
					failed = true
				}
			}
			if !failed {
				return false
			}
		default:
			return false
		}
	}
	return true
}

// varargsArray: the array only backs the variadic argument of a call (it is sliced and handed to a callee).
func varargsArray(v ssa.Value) bool {
	al, ok := v.(*ssa.Alloc)
	if !ok || al.Referrers() == nil {
		return false
	}
	used := false
	for _, ref := range *al.Referrers() {
		switch r := ref.(type) {
		case *ssa.IndexAddr, *ssa.DebugRef:
		case *ssa.Slice:
			if r.Referrers() == nil {
				return false
			}
			for _, r2 := range *r.Referrers() {
				if _, isCall := r2.(ssa.CallInstruction); !isCall {
					return false
				}
				used = true
			}
		default:
			return false
		}
	}
	return used
}

// concatOperands: the slices handed to slices.Concat(a, b, ...).
func concatOperands(c *ssa.Call) []ssa.Value {
	sl, ok := c.Call.Args[0].(*ssa.Slice)
	if !ok {
		return nil
	}
	al, ok := sl.X.(*ssa.Alloc)
	if !ok {
		return nil
	}
	return literalElems(al)
}

// sumOfLens: v is len(x1)+len(x2)+... over exactly the given operands (any order).
func sumOfLens(v ssa.Value, ops []ssa.Value) bool {
	if len(ops) == 0 {
		return false
	}
	var terms []ssa.Value
	var walk func(x ssa.Value) bool
	walk = func(x ssa.Value) bool {
		if bo, ok := x.(*ssa.BinOp); ok && bo.Op == token.ADD {
			return walk(bo.X) && walk(bo.Y)
		}
		c, ok := x.(*ssa.Call)
		if !ok {
			return false
		}
		bi, ok := c.Call.Value.(*ssa.Builtin)
		if !ok || bi.Name() != "len" {
			return false
		}
		terms = append(terms, c.Call.Args[0])
		return true
	}
	if !walk(v) || len(terms) != len(ops) {
		return false
	}
	for _, o := range ops {
		found := false
		for _, t := range terms {
			if t == o {
				found = true
			}
		}
		if !found {
			return false
		}
	}
	return true
}

// isResultCellName: name is "" (the cell of an unnamed result) or the name of a result of an enclosing function.
func isResultCellName(fn *ssa.Function, name string) bool {
	if name == "" {
		return true
	}
	for f := fn; f != nil; f = f.Parent() {
		res := f.Signature.Results()
		for i := 0; i < res.Len(); i++ {
			if res.At(i).Name() == name {
				return true
			}
		}
	}
	return false
}
