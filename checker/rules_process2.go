package main

// Phase-2 evaluation: C12 ($repeat), C13 (interpolation, $env), C14 ($encode/$decode), C07.encode.

import (
	"fmt"
	"go/types"
	"sort"
	"strings"

	"golang.org/x/tools/go/ssa"
)

func splitParts(t *T) bool {
	return t.Op == "call" && t.Name == "strings.Split" && len(t.Args) == 2 && t.Args[0].IsParam("v") && mStr(":")(t.Args[1])
}

func cmdTerm(t *T) bool {
	return t.Op == "index" && len(t.Args) == 2 && splitParts(t.Args[0]) && t.Args[1].IsConst("0")
}

func partN(n string) TM {
	return func(t *T) bool {
		return t.Op == "index" && len(t.Args) == 2 && splitParts(t.Args[0]) && t.Args[1].IsConst(n)
	}
}

// transformOf: which transform constant the path has selected (positive streq on parts[0]).
func transformOf(pa *Path) string {
	for _, g := range pa.Guards {
		if g.Kind == "streq" && !g.Neg && cmdTerm(g.A) {
			s, _ := strconvUnquote(g.Const)
			return s
		}
	}
	return ""
}

var encodeStringOpts = PSOpts{NoInline: map[string]bool{"bkl.process2EncodeAny": true, "bkl.GetFormat": true}}

func ruleC14(p *Prog, r *Result) {
	pr := newPSRule(p, r, "C14.impl", "bkl.process2EncodeString", encodeStringOpts)
	byT := map[string][]*Path{}
	for _, pa := range pr.paths {
		byT[transformOf(pa)] = append(byT[transformOf(pa)], pa)
	}
	want := []string{"base64", "flags", "flatten", "join", "prefix", "sha256", "tolist", "values"}
	for _, w := range want {
		if len(byT[w]) == 0 {
			r.Fail("C14.impl", "bkl.process2EncodeString / transform "+w, pr.pos(), "the documented transform "+w+" is no longer dispatched on")
		}
	}
	// --- arity (sibling cross-check): every branch decides on len(parts) before producing anything
	ar := &psRule{p: p, r: r, rule: "C14.arity", fn: pr.fn, paths: pr.paths, carried: pr.carried}
	var names []string
	for n := range byT {
		names = append(names, n)
	}
	sort.Strings(names)
	for _, name := range names {
		label := name
		if name == "" {
			label = "<format name>"
		}
		ar.all("transform "+label+" checks its argument count", byT[name], "every path tests len(parts); a wrong count wraps ErrInvalidArguments", func(pa *Path) (bool, string) {
			lenSeen := false
			for _, g := range pa.Guards {
				if g.Kind == "len" && splitParts(g.A) {
					lenSeen = true
				}
			}
			if !lenSeen {
				return false, "the transform accepts any number of ':'-separated arguments (e.g. " + label + ":zzz is not an error), unlike its siblings"
			}
			return true, ""
		})
		ar.some("transform "+label+" rejects a wrong argument count", byT[name], "a failing len(parts) test returns ErrInvalidArguments", "no path of the transform returns ErrInvalidArguments", func(pa *Path) bool {
			return isFailure(pa) && wraps(lastResult(pa), "ErrInvalidArguments")
		})
	}
	objP := mParam("obj")
	sprintV := func(of TM) TM {
		return func(t *T) bool {
			return t.Op == "call" && t.Name == "fmt.Sprintf" && mStr("%v")(t.Args[0]) && t.Args[1].Op == "lit" && len(t.Args[1].Args) == 1 && of(t.Args[1].Args[0])
		}
	}
	bytesOf := func(of TM) TM {
		return func(t *T) bool { return t.Op == "convert" && t.Name == "[]byte" && of(t.Args[0]) }
	}
	// --- base64
	pr.all("base64 is standard base64 of the value's %v text", selectPaths(byT["base64"], isSuccess), "base64.StdEncoding.EncodeToString([]byte(fmt.Sprintf(\"%v\", obj)))", func(pa *Path) (bool, string) {
		res := pa.Results[0]
		if res.Op == "call" && res.Name == "(*encoding/base64.Encoding).EncodeToString" && res.Args[0].Op == "global" && res.Args[0].Name == "StdEncoding" && bytesOf(sprintV(objP))(res.Args[1]) {
			return true, ""
		}
		return false, "not the standard (padded, +/) base64 of the value: " + res.String()
	})
	// --- sha256
	pr.all("sha256 is the hex SHA-256 of the value's %v text", selectPaths(byT["sha256"], isSuccess), "hex(sha256(fmt.Sprintf(\"%v\", obj)))", func(pa *Path) (bool, string) {
		res := pa.Results[0]
		if !(res.Op == "call" && res.Name == "encoding/hex.EncodeToString") {
			// fmt.Sprintf("%x", sum) is equally fine
			if !(res.Op == "call" && res.Name == "fmt.Sprintf" && mStr("%x")(res.Args[0])) {
				return false, "result is not lower-case hex: " + res.String()
			}
		}
		usesSHA := len(res.Find(func(x *T) bool {
			return x.Op == "call" && (x.Name == "crypto/sha256.New" || x.Name == "crypto/sha256.Sum256")
		})) > 0
		if !usesSHA {
			return false, "the digest is not computed by crypto/sha256"
		}
		fed := false
		for _, e := range pa.Effects {
			if e.Kind == "invoke" && e.Callee == "Write" && len(e.Args) == 2 && bytesOf(sprintV(objP))(e.Args[1]) {
				fed = true
			}
		}
		if !fed && len(res.Find(func(x *T) bool { return x.Name == "crypto/sha256.Sum256" && bytesOf(sprintV(objP))(x.Args[0]) })) == 0 {
			return false, "what is hashed is not the %v text of the value"
		}
		return true, ""
	})
	// --- join
	pr.all("join concatenates the items' %v texts with the delimiter", selectPaths(byT["join"], isSuccess), "strings.Join(items, parts[1] or \"\")", func(pa *Path) (bool, string) {
		res := pa.Results[0]
		if !(res.Op == "call" && res.Name == "strings.Join" && len(res.Args) == 2) {
			return false, "result is not strings.Join: " + res.String()
		}
		two := guardPol(pa, "len", splitParts, "==2")
		if two == 1 && !partN("1")(res.Args[1]) {
			return false, "with an argument the delimiter must be that argument, got " + res.Args[1].String()
		}
		if two != 1 && !mStr("")(res.Args[1]) {
			return false, "without an argument the delimiter must be empty, got " + res.Args[1].String()
		}
		items := res.Args[0]
		if items.Op != "carried" {
			return false, "joined items are not the converted list"
		}
		for _, s := range pr.carried[items.N].Src {
			if s.Op != "append" || s.Args[0].String() != items.String() || s.Args[1].Op != "lit" || len(s.Args[1].Args) != 1 || !sprintV(mElemOf(objP))(s.Args[1].Args[0]) {
				return false, "items are not the %v texts of the list entries in order: " + s.String()
			}
		}
		return true, ""
	})
	// --- prefix
	pr.all("prefix puts the argument before each item", selectPaths(byT["prefix"], isSuccess), "fmt.Sprintf(\"%s%s\", prefix, item) for each item in order", func(pa *Path) (bool, string) {
		res := pa.Results[0]
		if res.Op != "carried" {
			return false, "result is not the accumulated list"
		}
		for _, s := range pr.carried[res.N].Src {
			ok := s.Op == "append" && s.Args[0].String() == res.String() && s.Args[1].Op == "lit" && len(s.Args[1].Args) == 1
			if ok {
				f := s.Args[1].Args[0]
				ok = mConcat(partN("1"), func(x *T) bool { return x.Op == "elem" })(f)
			}
			if !ok {
				return false, "an item is not rendered as prefix followed by the item: " + s.String()
			}
		}
		return true, ""
	})
	// --- flatten: one level of nesting is dissolved, whatever the nested list holds (also nothing)
	pr.all("flatten splices the entries of every nested list into the result and keeps every other entry as it is", selectPaths(byT["flatten"], func(pa *Path) bool {
		return pa.End == "iter" && guardPol(pa, "itermore", mOp("range", objP), nil) == 1
	}), "list entry -> its entries (possibly none); anything else -> the entry", func(pa *Path) (bool, string) {
		el := mElemOf(objP)
		isList := guardPol(pa, "kind", TM(el), "list")
		var upd *T
		for _, v := range pa.Carried {
			if v.Op == "append" {
				upd = v
			}
		}
		if upd == nil {
			if isList == 1 {
				return false, "a nested list contributes nothing at all, not even its entries"
			}
			return false, "an entry is dropped"
		}
		// unwrap nested appends: collect what is added, in order
		var added []*T
		for t := upd; t != nil && t.Op == "append" && len(t.Args) == 2; t = t.Args[0] {
			added = append([]*T{t.Args[1]}, added...)
		}
		switch isList {
		case 1:
			for _, a := range added {
				if a.Op == "lit" {
					return false, "a nested list is kept as an entry of the result instead of being dissolved (an empty nested list leaves [] behind)"
				}
				if !el(a) {
					return false, "what is spliced in is not the nested list's entries: " + truncate(a.String(), 60)
				}
			}
			return true, ""
		case -1:
			for _, a := range added {
				if a.Op == "lit" && len(a.Args) == 1 && el(a.Args[0]) {
					return true, ""
				}
			}
			return false, "an entry that is not a list is not kept as it is"
		}
		return false, "whether the entry is a list is not tested"
	})
	// --- flags
	pr.all("flags is tolist:= followed by prefix:--", selectPaths(byT["flags"], func(pa *Path) bool { return pa.End == "return" && !isFailure2(pa) }), "process2EncodeAny(obj, [\"tolist:=\", \"prefix:--\"])", func(pa *Path) (bool, string) {
		for _, e := range pa.Effects {
			if e.Callee == "bkl.process2EncodeAny" && len(e.Args) >= 4 {
				l := e.Args[3]
				if objP(e.Args[0]) && l.Op == "lit" && len(l.Args) == 2 && mStr("tolist:=")(l.Args[0]) && mStr("prefix:--")(l.Args[1]) {
					if mResOf(0, mCall("bkl.process2EncodeAny"))(pa.Results[0]) {
						return true, ""
					}
				}
				return false, "flags expands to " + l.String() + " instead of [tolist:=, prefix:--]"
			}
		}
		return false, "flags does not delegate to the transform stack"
	})
	// --- tolist / values iterate in sorted key order
	for _, tname := range []string{"tolist", "values"} {
		pr.all(tname+" visits map entries in sorted key order", selectPaths(byT[tname], func(pa *Path) bool {
			for _, g := range pa.Guards {
				if g.Kind == "itermore" && !g.Neg && strings.Contains(g.A.String(), "maps.Keys") {
					return true
				}
			}
			return false
		}), "range sortedMap(obj)", func(pa *Path) (bool, string) { return true, "" })
		pr.all(tname+" never ranges a map natively", byT[tname], "no native map range", func(pa *Path) (bool, string) {
			for _, g := range pa.Guards {
				if g.Kind == "itermore" && len(g.A.Args) == 1 && g.A.Args[0].Typ != nil && kindName(g.A.Args[0].Typ.Underlying()) == "map" {
					return false, "entries are visited in Go map order: the output list order differs between runs"
				}
			}
			return true, ""
		})
	}
	// --- type errors
	ty := &psRule{p: p, r: r, rule: "C14.type", fn: pr.fn, paths: pr.paths, carried: pr.carried}
	ty.all("flatten of a non-list is an error", selectPaths(byT["flatten"], func(pa *Path) bool { return guardPol(pa, "kind", objP, "list") == -1 }), "ErrInvalidType", func(pa *Path) (bool, string) {
		return isFailure(pa) && wraps(lastResult(pa), "ErrInvalidType"), "flatten accepts a non-list"
	})
	ty.all("values of a non-map is an error", selectPaths(byT["values"], func(pa *Path) bool { return guardPol(pa, "kind", objP, "map") == -1 }), "ErrInvalidType", func(pa *Path) (bool, string) {
		return isFailure(pa) && wraps(lastResult(pa), "ErrInvalidType"), "values accepts a non-map"
	})
	ty.all("tolist of a value that is neither list nor map is an error", selectPaths(byT["tolist"], func(pa *Path) bool {
		return guardPol(pa, "kind", objP, "list") == -1 && guardPol(pa, "kind", objP, "map") == -1
	}), "ErrInvalidType", func(pa *Path) (bool, string) {
		return isFailure(pa) && wraps(lastResult(pa), "ErrInvalidType"), "tolist accepts a scalar"
	})
	// --- format encoders: default branch
	pr.all("any other name is an output format: the value is encoded as a one-document stream of that format", selectPaths(byT[""], isSuccess), "string(GetFormat(name).MarshalStream([obj]))", func(pa *Path) (bool, string) {
		gf := false
		ms := false
		for _, e := range pa.Effects {
			if e.Callee == "bkl.GetFormat" && len(e.Args) == 1 && cmdTerm(e.Args[0]) {
				gf = true
			}
			if e.Kind == "dyncall" && strings.Contains(e.Callee, "MarshalStream") && len(e.Args) == 2 && e.Args[1].Op == "lit" && len(e.Args[1].Args) == 1 && objP(e.Args[1].Args[0]) {
				ms = true
			}
		}
		if !gf {
			return false, "the codec is not looked up by the transform's name"
		}
		if !ms {
			return false, "the value is not encoded as a single-document stream"
		}
		res := pa.Results[0]
		if !(res.Op == "convert" && res.Name == "string") {
			return false, "the encoded bytes are not returned as a string: " + res.String()
		}
		return true, ""
	})
	// --- fold
	fo := newPSRule(p, r, "C14.fold", "bkl.process2EncodeAny", PSOpts{NoInline: map[string]bool{"bkl.process2EncodeString": true}})
	vP := mParam("v")
	fo.all("a list of transforms is applied left to right, each to the previous result", selectPaths(fo.paths, func(pa *Path) bool {
		return guardPol(pa, "kind", vP, "list") == 1 && pa.End == "iter"
	}), "obj = encode(obj, v[i]) in index order", func(pa *Path) (bool, string) {
		for id, v := range pa.Carried {
			info := fo.carried[id]
			if info.Init != nil && info.Init.IsParam("obj") {
				acc := &T{Op: "carried", Name: "obj", N: id}
				_ = acc
				if !mResOf(0, mCall("bkl.process2EncodeAny", func(t *T) bool { return t.Op == "carried" && t.N == id }, mAny(), mAny(), mElemOf(vP)))(v) {
					return false, "a step does not take the previous step's output as its input: " + v.String()
				}
				return true, ""
			}
		}
		return false, "the running value is not carried from step to step"
	})
	fo.all("a transform that is neither string nor list is an error", consSel(fo, aKind(pT("v"), "string", true), aKind(pT("v"), "list", true)), "ErrInvalidType", func(pa *Path) (bool, string) {
		return isFailure(pa) && wraps(lastResult(pa), "ErrInvalidType"), "a non-string, non-list $encode argument is accepted"
	})
}

// ruleC07Encode: $encode validates the evaluated subtree before encoding it.
func ruleC07Encode(rule string) func(p *Prog, r *Result) {
	return func(p *Prog, r *Result) {
		// who may call the encoders: only the validating entry point and the encoder family itself
		allowed := map[string]map[string]bool{
			"bkl.process2EncodeAny":    {"bkl.process2Encode": true, "bkl.process2EncodeAny": true, "bkl.process2EncodeString": true},
			"bkl.process2EncodeString": {"bkl.process2EncodeAny": true, "bkl.process2EncodeString": true},
		}
		for callee, who := range allowed {
			fn := p.Func(callee)
			n := 0
			for _, e := range p.CG().In[fn] {
				caller := p.FuncName(topFunc(e.Caller))
				n++
				if who[caller] {
					continue
				}
				// a helper of the encoder family: reachable only through the validating entry point
				if gate := p.Func("bkl.process2Encode"); gate != nil && p.OnlyThrough(topFunc(e.Caller), gate) {
					continue
				}
				r.Fail(rule, caller+" / calls "+callee+" directly", p.InstrPos(e.Site), "an encoder is reached without passing process2Encode, which is where the evaluated input is validated: an unresolved $required or stray directive inside the encoded subtree disappears into the encoded text")
			}
			if n > 0 {
				r.OK(rule, callee+" / callers", p.Pos(fn.Pos()), "only reachable through the validating entry point process2Encode (and the encoder family itself)")
			}
		}
		pr := newPSRule(p, r, rule, "bkl.process2Encode", PSOpts{NoInline: map[string]bool{"bkl.process2": true, "bkl.process2EncodeAny": true, "bkl.validate": true}})
		pr.all("$encode: the evaluated input is validated before it is encoded", selectPaths(pr.paths, func(pa *Path) bool { return hasCallEffect(pa, "bkl.process2EncodeAny") }),
			"validate(process2(obj)) == nil precedes process2EncodeAny on the same value", func(pa *Path) (bool, string) {
				var enc *Effect
				vi, ei := -1, -1
				for i, e := range pa.Effects {
					if e.Callee == "bkl.process2EncodeAny" {
						enc = &pa.Effects[i]
						ei = i
					}
				}
				for i, e := range pa.Effects {
					if e.Callee == "bkl.validate" && len(e.Args) == 1 && e.Args[0].String() == enc.Args[0].String() {
						vi = i
					}
				}
				if vi < 0 || vi > ei {
					return false, "what is encoded was not validated first: an unresolved $required or stray directive inside the $encode subtree ends up in the encoded text"
				}
				if guardPol(pa, "err", mCall("bkl.validate"), nil) != -1 {
					return false, "the validation result is ignored"
				}
				if !mResOf(0, mCall("bkl.process2"))(enc.Args[0]) {
					return false, "what is encoded is not the evaluated subtree"
				}
				return true, ""
			})
	}
}

// ruleC14Decode: $decode argument/host type errors, single document, codec table shared with $encode.
func ruleC14Decode(p *Prog, r *Result) {
	pr := newPSRule(p, r, "C14.decode", "bkl.process2Decode", PSOpts{NoInline: map[string]bool{"bkl.process2": true, "bkl.GetFormat": true, "bkl.normalize": true}})
	vP, objP := mParam("v"), mParam("obj")
	fails := func(sentinel, what string) func(*Path) (bool, string) {
		return func(pa *Path) (bool, string) {
			if isFailure(pa) && wraps(lastResult(pa), sentinel) {
				return true, ""
			}
			return false, what + " is accepted (expected " + sentinel + ", got " + pa.End + " " + errClass(lastResult(pa)) + ")"
		}
	}
	pr.all("$decode argument must be a string", selectPaths(pr.paths, func(pa *Path) bool { return guardPol(pa, "kind", vP, "string") == -1 }), "ErrInvalidType", fails("ErrInvalidType", "a non-string $decode argument"))
	pr.all("$decode host must be a map", selectPaths(pr.paths, func(pa *Path) bool {
		return guardPol(pa, "kind", vP, "string") == 1 && guardPol(pa, "kind", objP, "map") == -1
	}), "ErrInvalidType", fails("ErrInvalidType", "a non-map host"))
	host := selectPaths(pr.paths, func(pa *Path) bool { return guardPol(pa, "kind", objP, "map") == 1 })
	hasVal := func(pa *Path) int { return guardPol(pa, "has", objP, TM(mStr("$value"))) }
	pr.all("$decode without $value is an error", selectPaths(host, func(pa *Path) bool { return hasVal(pa) == -1 }), "ErrInvalidType", fails("ErrInvalidType", "a host without $value"))
	valT := mLookup(objP, mStr("$value"))
	pr.all("$decode of a non-string $value is an error", selectPaths(host, func(pa *Path) bool { return hasVal(pa) == 1 && guardPol(pa, "kind", valT, "string") == -1 }), "ErrInvalidType", fails("ErrInvalidType", "a non-string $value"))
	pr.all("$decode host with extra keys is an error", selectPaths(host, func(pa *Path) bool {
		return hasVal(pa) == 1 && guardPol(pa, "kind", valT, "string") == 1 && guardPol(pa, "len", mOp("clone", objP), "==0") == -1
	}), "ErrExtraKeys", fails("ErrExtraKeys", "a host with keys besides $value"))
	ok := selectPaths(host, func(pa *Path) bool { return hasCallEffect(pa, "bkl.process2") })
	pr.all("$decode decodes exactly one document of the named format, normalises it and evaluates it", ok, "GetFormat(v).UnmarshalStream([]byte($value)); len == 1; normalize; process2", func(pa *Path) (bool, string) {
		gf, us, nz := false, false, false
		for _, e := range pa.Effects {
			if e.Callee == "bkl.GetFormat" && len(e.Args) == 1 && vP(e.Args[0]) {
				gf = true
			}
			if e.Kind == "dyncall" && strings.Contains(e.Callee, "UnmarshalStream") && len(e.Args) == 2 && e.Args[1].Op == "convert" && valT(e.Args[1].Args[0]) {
				us = true
			}
			if e.Callee == "bkl.normalize" {
				nz = true
			}
		}
		if !gf {
			return false, "the codec is not the one named by the $decode argument (the same table $encode uses)"
		}
		if !us {
			return false, "what is decoded is not the $value text"
		}
		if !nz {
			return false, "the decoded document is not normalised (numbers keep a decoder-specific type)"
		}
		one := false
		for _, g := range pa.Guards {
			if g.Kind == "len" && g.Const == "==1" && !g.Neg {
				one = true
			}
			if g.Kind == "len" && g.Const == "!=1" && g.Neg {
				one = true
			}
		}
		if !one {
			return false, "the decoded stream is not required to hold exactly one document"
		}
		return true, ""
	})
	pr.some("$decode of a stream that is not exactly one document is an error", host, "ErrUnmarshal", "a $value holding several (or no) documents is accepted", func(pa *Path) bool {
		return isFailure(pa) && wraps(lastResult(pa), "ErrUnmarshal")
	})
}

// ---- C12 ----------------------------------------------------------------------------------------

// countedLoop: the SSA shape of "for i := 0; i < n; i++" in fn: returns the induction phi, the bound value.
func countedLoops(fn *ssa.Function) (out []struct {
	phi   *ssa.Phi
	bound ssa.Value
	hdr   *ssa.BasicBlock
}) {
	for _, b := range fn.Blocks {
		for _, in := range b.Instrs {
			phi, ok := in.(*ssa.Phi)
			if !ok || len(phi.Edges) != 2 {
				continue
			}
			init, isC := constInt(phi.Edges[0])
			step := phi.Edges[1]
			if !isC {
				init, isC = constInt(phi.Edges[1])
				step = phi.Edges[0]
			}
			if !isC {
				continue
			}
			bo, ok := step.(*ssa.BinOp)
			if !ok || bo.Op.String() != "+" || bo.X != ssa.Value(phi) {
				continue
			}
			inc, ok := constInt(bo.Y)
			if !ok {
				continue
			}
			// "for i := range n" is lowered as a rotated loop: the test is on i+1 at the bottom, with 0 < n checked
			// once before entering
			if init == 0 && inc == 1 && bo.Referrers() != nil {
				for _, ref := range *bo.Referrers() {
					cmp, ok := ref.(*ssa.BinOp)
					if !ok || cmp.X != ssa.Value(bo) || cmp.Op.String() != "<" {
						continue
					}
					if rotatedEntryGuard(b, cmp.Y) {
						out = append(out, struct {
							phi   *ssa.Phi
							bound ssa.Value
							hdr   *ssa.BasicBlock
						}{phi, cmp.Y, b})
					}
				}
			}
			for _, ref := range *phi.Referrers() {
				cmp, ok := ref.(*ssa.BinOp)
				if !ok || cmp.X != ssa.Value(phi) {
					continue
				}
				if cmp.Op.String() == "<" && init == 0 && inc == 1 {
					out = append(out, struct {
						phi   *ssa.Phi
						bound ssa.Value
						hdr   *ssa.BasicBlock
					}{phi, cmp.Y, b})
				}
			}
		}
	}
	return
}

// indexBoundOnClone: idx is boxed and stored as Vars[key] of a context that (*EvalContext).Clone() produced at a call
// accepted by where; the clone-and-bind may sit in a helper that receives idx and returns the clone it bound it on.
func indexBoundOnClone(p *Prog, idx ssa.Value, where func(*ssa.Call) bool, varKey string, depth int) bool {
	refs := idx.Referrers()
	if refs == nil || depth > 2 {
		return false
	}
	for _, ref := range *refs {
		switch x := ref.(type) {
		case *ssa.MakeInterface:
			for _, r2 := range *x.Referrers() {
				mu, ok := r2.(*ssa.MapUpdate)
				if !ok || mu.Value != ssa.Value(x) {
					continue
				}
				u, ok := mu.Map.(*ssa.UnOp)
				if !ok {
					continue
				}
				fa, ok := u.X.(*ssa.FieldAddr)
				if !ok {
					continue
				}
				c, ok := fa.X.(*ssa.Call)
				if !ok {
					continue
				}
				sc := c.Common().StaticCallee()
				if sc == nil || !p.InRepo(sc) || p.FuncName(sc) != "bkl.(*EvalContext).Clone" || !where(c) {
					continue
				}
				switch k := mu.Key.(type) {
				case *ssa.Const:
					if varKey != "" && k.Value != nil && strings.Trim(k.Value.ExactString(), `"`) == varKey {
						return true
					}
				case *ssa.Parameter:
					if varKey == "" && p.ParamName(k) == "name" {
						return true
					}
				}
			}
		case *ssa.Call:
			sc := x.Common().StaticCallee()
			if sc == nil || !p.InRepo(sc) || sc.Blocks == nil || !where(x) || x.Common().IsInvoke() {
				continue
			}
			for ai, a := range x.Common().Args {
				if a != idx || ai >= len(sc.Params) {
					continue
				}
				// the helper binds the index on a clone it makes itself, and that clone is what it evaluates with
				// (handed to a call) or hands back (returned)
				used := func(c *ssa.Call) bool {
					if c.Parent() != sc || c.Referrers() == nil {
						return false
					}
					for _, ref := range *c.Referrers() {
						switch u := ref.(type) {
						case *ssa.Return:
							return true
						case ssa.CallInstruction:
							for _, a := range u.Common().Args {
								if a == ssa.Value(c) {
									return true
								}
							}
						}
					}
					return false
				}
				if indexBoundOnClone(p, sc.Params[ai], used, varKey, depth+1) {
					return true
				}
			}
		}
	}
	return false
}

func ruleC12Loops(p *Prog, r *Result) {
	type spec struct {
		fn, varKey string
	}
	for _, s := range []spec{{"bkl.repeatDocGenFromInt", ""}, {"bkl.process2RepeatObjList", "$repeat"}, {"bkl.process2RepeatObjMap", "$repeat"}} {
		fn := p.Func(s.fn)
		pos := p.Pos(fn.Pos())
		loops := countedLoops(fn)
		// every loop of the function with a numeric induction variable must be 0 <= i < n, step 1
		nInd := 0
		for _, h := range loopHeaders(fn) {
			for _, in := range h.Instrs {
				// integer induction variables of explicit for-loops (range loops carry the synthetic rangeindex)
				if phi, ok := in.(*ssa.Phi); ok && phi.Comment != "" && phi.Comment != "rangeindex" {
					if bt, isB := phi.Type().Underlying().(*types.Basic); isB && bt.Info()&types.IsInteger != 0 {
						nInd++
					}
				}
			}
		}
		if len(loops) != 1 || nInd != 1 {
			r.Fail("C12.loop", s.fn+" / copies are produced by one loop i = 0 .. n-1, step 1", pos, fmt.Sprintf("found %d well-formed counted loops for %d induction variables: the number of copies or their indices are off (e.g. starts at 1, <=, step 2)", len(loops), nInd))
			continue
		}
		l := loops[0]
		// bound is the count: an int parameter or the comma-ok assertion of the count to int
		okBound := false
		switch b := l.bound.(type) {
		case *ssa.Parameter:
			okBound = p.ParamName(b) == "count"
		default:
			okBound = intOfParam(p, l.bound, "r", 0)
		}
		r.Check(okBound, "C12.loop", s.fn+" / loop bound is the $repeat count", pos, "i < n with n the count", "the loop bound is not the $repeat count itself")
		// the index bound to the variable is i itself, on a context cloned inside the iteration
		okBind := indexBoundOnClone(p, l.phi, func(c *ssa.Call) bool { return inLoop(l.hdr, c.Block()) }, s.varKey, 0)
		r.Check(okBind, "C12.loop", s.fn+" / each copy sees its own index", pos, "Vars[name] = i on a context cloned inside the iteration", "the index is not bound (as i itself, under the variable's name) on a per-copy clone of the context: copies share a context or see a shifted index")
	}
	// sibling cross-check through PS: results appended in iteration order / stored under the evaluated key
	pr := newPSRule(p, r, "C12.copies", "bkl.process2RepeatObjList", PSOpts{NoInline: map[string]bool{"bkl.process2": true}})
	pr.all("list $repeat: each evaluated copy is appended in index order; nil copies are dropped", selectPaths(pr.paths, func(pa *Path) bool { return pa.End == "iter" }), "ret = append(ret, process2(v, ec_i))", func(pa *Path) (bool, string) {
		rec := mCall("bkl.process2", mParam("v"))
		isNil := guardPol(pa, "kind", mResOf(0, rec), "nil")
		app := false
		for _, v := range pa.Carried {
			if v.Op == "append" && len(v.Args) == 2 && v.Args[1].Op == "lit" && len(v.Args[1].Args) == 1 && mResOf(0, rec)(v.Args[1].Args[0]) && v.Args[0].Op == "carried" {
				app = true
			}
		}
		if !hasCallEffect(pa, "bkl.process2", mParam("v")) {
			return false, "a copy is not evaluated"
		}
		if isNil == -1 && !app {
			return false, "an evaluated copy is not appended"
		}
		if isNil == 1 && app {
			return false, "a nil copy is appended"
		}
		return true, ""
	})
	pr.all("non-integer count is an error", selectPaths(pr.paths, func(pa *Path) bool { return guardPol(pa, "kind", mParam("r"), "int") == -1 }), "ErrInvalidType / ErrInvalidRepeat", func(pa *Path) (bool, string) {
		if isFailure(pa) && (wraps(lastResult(pa), "ErrInvalidType") || wraps(lastResult(pa), "ErrInvalidRepeat")) {
			return true, ""
		}
		return false, "a $repeat count that is not an int is accepted or coerced"
	})
	pm := newPSRule(p, r, "C12.copies", "bkl.process2RepeatObjMap", PSOpts{NoInline: map[string]bool{"bkl.process2": true}})
	pm.all("map $repeat: each evaluated copy is stored under its evaluated key", selectPaths(pm.paths, func(pa *Path) bool { return pa.End == "iter" }), "ret[process2(k, ec_i)] = process2(v, ec_i)", func(pa *Path) (bool, string) {
		recV := mCall("bkl.process2", mParam("v"))
		recK := mCall("bkl.process2", mParam("k"))
		isNil := guardPol(pa, "kind", mResOf(0, recV), "nil")
		set := false
		for _, e := range pa.Effects {
			if e.Kind == "mapset" && e.Args[0].Op == "fresh" {
				if !mResOf(0, recK)(e.Args[1]) || !mResOf(0, recV)(e.Args[2]) {
					return false, "a copy is stored under something other than its evaluated key: " + e.String()
				}
				set = true
			}
		}
		if isNil == -1 && !set {
			return false, "an evaluated copy is dropped"
		}
		if isNil == 1 && set {
			return false, "a nil copy is stored"
		}
		return true, ""
	})
	pm.all("non-integer count is an error", selectPaths(pm.paths, func(pa *Path) bool { return guardPol(pa, "kind", mParam("r"), "int") == -1 }), "ErrInvalidType / ErrInvalidRepeat", func(pa *Path) (bool, string) {
		if isFailure(pa) && (wraps(lastResult(pa), "ErrInvalidType") || wraps(lastResult(pa), "ErrInvalidRepeat")) {
			return true, ""
		}
		return false, "a $repeat count that is not an int is accepted or coerced"
	})
}

// ruleC12Docs: document-level expansion: n clones + n contexts in lockstep, product order.
func ruleC12Docs(p *Prog, r *Result) {
	pr := newPSRule(p, r, "C12.docs", "bkl.repeatDocGenFromInt", PSOpts{NoInline: map[string]bool{"bkl.(*Document).Clone": true}})
	pr.all("each iteration clones the document and the context and appends both", selectPaths(pr.paths, func(pa *Path) bool { return pa.End == "iter" }), "docs += doc.Clone(..); ecs += ec.Clone() with Vars[name] = i", func(pa *Path) (bool, string) {
		nd, ne := 0, 0
		for _, v := range pa.Carried {
			if v.Op != "append" || len(v.Args) != 2 || v.Args[1].Op != "lit" || len(v.Args[1].Args) != 1 {
				continue
			}
			el := v.Args[1].Args[0]
			if mResOf(0, mCall("bkl.(*Document).Clone", mParam("doc")))(el) {
				nd++
			}
			if el.Op == "fresh" && el.Name == "struct" {
				ne++
			}
		}
		if nd != 1 || ne != 1 {
			return false, fmt.Sprintf("per iteration %d document clones and %d fresh contexts are appended (expected one each): documents and contexts get out of step", nd, ne)
		}
		return true, ""
	})
	pr.some("a failing clone aborts the expansion", pr.paths, "error from Clone is returned", "an error from Clone is ignored", func(pa *Path) bool {
		return isFailure(pa) && strings.HasPrefix(errClass(lastResult(pa)), "from:bkl.(*Document).Clone")
	})
	// product order: names via sortedMap, existing-major / new-minor
	pm := newPSRule(p, r, "C12.product", "bkl.repeatDocGenFromMap", PSOpts{NoInline: map[string]bool{"bkl.repeatDocGenFromInt": true}})
	rsP := mParam("rs")
	pm.all("named counts are expanded name by name in sorted order; every existing (document, context) pair is expanded in order", selectPaths(pm.paths, func(pa *Path) bool {
		return hasCallEffect(pa, "bkl.repeatDocGenFromInt")
	}), `repeatDocGenFromInt(d_i, ecs[i], "$repeat:"+name, count)`, func(pa *Path) (bool, string) {
		for _, e := range pa.Effects {
			if e.Callee != "bkl.repeatDocGenFromInt" {
				continue
			}
			if e.Args[0].Op != "elem" {
				return false, "the document expanded is not the one being visited"
			}
			if !(e.Args[1].Op == "index" || e.Args[1].Op == "elem") {
				return false, "the context expanded is not the one at the same position as the document"
			}
			nm := e.Args[2]
			if !mConcat(mStr("$repeat:"), mKeyOf(rsP))(nm) {
				return false, "the variable bound is not $repeat:<name>: " + nm.String()
			}
			if _, sorted := sortedKeyOf(concatParts(nm)[1]); !sorted {
				return false, "names are not visited in sorted order: the order of the cartesian product depends on map order"
			}
			cnt := e.Args[3]
			if !mElemOf(rsP)(cnt) {
				return false, "the count used is not the one given for that name: " + cnt.String()
			}
			if guardPol(pa, "kind", mElemOf(rsP), "int") != 1 {
				return false, "the count is used without checking that it is an int"
			}
		}
		return true, ""
	})
	// no name is skipped: an iteration over the names ends only after every existing pair went through the
	// expansion for that name (a shortcut for "count 1" that binds the variable on one shared context leaves
	// the copies made for earlier names without it)
	pm.all("every name expands every existing (document, context) pair, whatever its count", selectPaths(pm.paths, func(pa *Path) bool {
		if pa.End != "iter" {
			return false
		}
		rg := pa.LoopRange[pa.Loop]
		return strings.Contains(rg, "slices.Sorted") && strings.Contains(rg, "param:rs")
	}), "the names loop continues only after the loop over the pairs is exhausted", func(pa *Path) (bool, string) {
		inner := false
		for _, g := range pa.Guards {
			if g.Kind == "itermore" && g.Neg && g.A != nil && len(g.A.Find(func(t *T) bool { return t.Op == "carried" })) > 0 {
				inner = true
			}
		}
		if !inner {
			return false, "a name is dealt with without expanding the pairs built so far: the per-copy contexts do not receive $repeat:<name> (or the product misses a factor)"
		}
		for _, e := range pa.Effects {
			if e.Kind == "mapset" && len(e.Loops) > 0 && len(e.Args) > 0 && len(e.Args[0].Find(func(t *T) bool { return t.IsParam("ec") })) > 0 && len(e.Loops) == 1 {
				_ = e
			}
		}
		return true, ""
	})
	pm.allIfAny("every named count is looked at: the loop over the names is left early only with an error", selectPaths(pm.paths, func(pa *Path) bool {
		if pa.End != "return" {
			return false
		}
		for _, g := range pa.Guards {
			if g.Kind == "itermore" && !g.Neg && g.A != nil && strings.Contains(g.A.String(), "slices.Sorted") && strings.Contains(g.A.String(), "param:rs") {
				return true
			}
		}
		return false
	}), "no break / early success inside the loop over the names", func(pa *Path) (bool, string) {
		if isFailure(pa) {
			return true, ""
		}
		return false, "the expansion stops before the last name has been looked at: a later count that is not an integer is no longer an error, and its variable is never bound"
	})
	pm.some("a named count that is not an int is an error", pm.paths, "ErrInvalidRepeat", "a non-integer named count is accepted", func(pa *Path) bool {
		return isFailure(pa) && wraps(lastResult(pa), "ErrInvalidRepeat") && guardPol(pa, "kind", mElemOf(rsP), "int") == -1
	})
	// trigger + type dispatch
	pg := newPSRule(p, r, "C12.trigger", "bkl.repeatDoc", PSOpts{NoInline: map[string]bool{"bkl.repeatDocGenFromInt": true, "bkl.repeatDocGenFromMap": true}})
	pg.some("root map key $repeat with an int expands by count", pg.paths, "repeatDocGenFromInt(doc, ec, \"$repeat\", n)", "an integer $repeat at the document root is no longer expanded", func(pa *Path) bool {
		return hasCallEffect(pa, "bkl.repeatDocGenFromInt", mParam("doc"), mAny(), mStr("$repeat"), mLookup(mAny(), mStr("$repeat")))
	})
	pg.some("root map key $repeat with a map expands named counts", pg.paths, "repeatDocGenFromMap", "a map-valued $repeat is no longer expanded", func(pa *Path) bool {
		return hasCallEffect(pa, "bkl.repeatDocGenFromMap")
	})
	pg.all("any other count type is an error", selectPaths(pg.paths, func(pa *Path) bool {
		for _, g := range pa.Guards {
			if g.Kind == "kind" && g.Neg && g.Const == "int" {
				for _, g2 := range pa.Guards {
					if g2.Kind == "kind" && g2.Neg && g2.Const == "map" && g2.A.String() == g.A.String() {
						return true
					}
				}
			}
		}
		return false
	}), "ErrInvalidRepeat", func(pa *Path) (bool, string) {
		if isFailure(pa) && wraps(lastResult(pa), "ErrInvalidRepeat") {
			return true, ""
		}
		return false, "a $repeat that is neither int nor map is accepted"
	})
	pg.all("the $repeat key is removed from the document that is expanded", selectPaths(pg.paths, func(pa *Path) bool {
		return hasCallEffect(pa, "bkl.repeatDocGenFromInt") || hasCallEffect(pa, "bkl.repeatDocGenFromMap")
	}), "doc.Data = data without $repeat", func(pa *Path) (bool, string) {
		for _, e := range pa.Effects {
			if e.Kind == "fieldset" && strings.HasSuffix(e.Callee, "Document.Data") && mParam("doc")(e.Args[0]) {
				return true, ""
			}
		}
		return false, "the copies still carry the $repeat key"
	})
}

// ---- C13 ----------------------------------------------------------------------------------------

func ruleC13(p *Prog, r *Result) {
	pr := newPSRule(p, r, "C13.string", "bkl.process2String", PSOpts{NoInline: map[string]bool{"bkl.process2StringInterp": true}})
	objP := mParam("obj")
	interp := func(pa *Path) int {
		a := guardPol(pa, "prefix", objP, q(`$"`))
		b := guardPol(pa, "suffix", objP, q(`"`))
		if a == 1 && b == 1 {
			return 1
		}
		if a == -1 || b == -1 {
			return -1
		}
		return 0
	}
	pr.all(`$"..." strings are interpolated`, selectPaths(pr.paths, func(pa *Path) bool { return interp(pa) == 1 }), "delegates to process2StringInterp", func(pa *Path) (bool, string) {
		if hasCallEffect(pa, "bkl.process2StringInterp", objP) && mCall("bkl.process2StringInterp")(pa.Results[0]) {
			return true, ""
		}
		return false, `a $"..." string is not interpolated`
	})
	isVar := func(pa *Path) int {
		a := guardPol(pa, "prefix", objP, q("$env:"))
		b := guardPol(pa, "streq", objP, q("$repeat"))
		if a == 1 || b == 1 {
			return 1
		}
		if a == -1 && b == -1 {
			return -1
		}
		return 0
	}
	pr.all("$env:NAME and $repeat are replaced by the variable's value; a missing variable is an error", selectPaths(pr.paths, func(pa *Path) bool { return interp(pa) != 1 && isVar(pa) == 1 }), "ec.GetVar(obj)", func(pa *Path) (bool, string) {
		if pa.End != "return" {
			return false, "unexpected end"
		}
		found := guardPol(pa, "has", mOp("field", mParam("ec")), TM(objP))
		switch found {
		case 1:
			if isSuccess(pa) && mLookup(mOp("field", mParam("ec")), objP)(pa.Results[0]) {
				return true, ""
			}
			return false, "the value substituted is not the variable's value: " + pa.Results[0].String()
		case -1:
			if isFailure(pa) && wraps(lastResult(pa), "ErrVariableNotFound") {
				return true, ""
			}
			return false, "an unset variable does not produce ErrVariableNotFound (empty substitution?)"
		}
		return false, "the variable table is not consulted"
	})
	pr.all("any other string is left unchanged", selectPaths(pr.paths, func(pa *Path) bool { return interp(pa) == -1 && isVar(pa) == -1 }), "returns obj", returnsExactly(objP, "the string itself"))
	// the template handed to the replacement is the string minus exactly its `$"` opener and its closing quote:
	// literal text, including quotes and dollars at either end of the body, is output unchanged (seed C13-k:
	// strings.Trim with the cutset `$"` also strips those)
	pt := newPSRule(p, r, "C13.template", "bkl.process2StringInterp", PSOpts{})
	tObj := mParam("obj")
	stripped := func(t *T) bool {
		isCall := func(x *T, name, lit string) *T {
			if x != nil && x.Op == "call" && x.Name == name && len(x.Args) == 2 && mStr(lit)(x.Args[1]) {
				return x.Args[0]
			}
			return nil
		}
		if in := isCall(t, "strings.TrimSuffix", `"`); in != nil {
			if in2 := isCall(in, "strings.TrimPrefix", `$"`); in2 != nil && tObj(in2) {
				return true
			}
		}
		if in := isCall(t, "strings.TrimPrefix", `$"`); in != nil {
			if in2 := isCall(in, "strings.TrimSuffix", `"`); in2 != nil && tObj(in2) {
				return true
			}
		}
		// obj[2 : len(obj)-1]
		if t != nil && t.Op == "slice" && len(t.Args) == 3 && tObj(t.Args[0]) && t.Args[1].IsConst("2") {
			hi := t.Args[2]
			if hi.Op == "binop" && hi.Name == "-" && len(hi.Args) == 2 && hi.Args[1].IsConst("1") && hi.Args[0].Op == "len" && len(hi.Args[0].Args) == 1 && tObj(hi.Args[0].Args[0]) {
				return true
			}
		}
		return false
	}
	pt.all(`the interpolated text is the string between $" and the closing quote, nothing else removed`, pt.paths, "ReplaceAllStringFunc runs over TrimSuffix(TrimPrefix(obj, `$\"`), `\"`)", func(pa *Path) (bool, string) {
		n := 0
		for _, e := range pa.Effects {
			if (e.Kind == "extcall" || e.Kind == "call") && e.Callee == "(*regexp.Regexp).ReplaceAllStringFunc" && len(e.Args) == 3 {
				n++
				if !stripped(e.Args[1]) {
					return false, "the text scanned for references is not the string minus one `$\"` prefix and one `\"` suffix: " + truncate(e.Args[1].String(), 140)
				}
			}
		}
		if n != 1 {
			return false, fmt.Sprintf("expected exactly one replacement pass over the template, found %d", n)
		}
		return true, ""
	})
	pt.all("the result of a successful interpolation is the replaced text itself", selectPaths(pt.paths, isSuccess), "returns what ReplaceAllStringFunc produced", func(pa *Path) (bool, string) {
		if res := pa.Results[0]; res.Op == "call" && res.Name == "(*regexp.Regexp).ReplaceAllStringFunc" {
			return true, ""
		}
		return false, "the interpolated text is changed after the replacement: " + truncate(pa.Results[0].String(), 140)
	})
	// interpolation: error discipline via cells
	fn := p.Func("bkl.process2StringInterp")
	// the replacement callback: the function value handed to ReplaceAllStringFunc — a function literal that shares
	// an error variable with its parent, or a method bound to an object that carries the error in a field
	var closure *ssa.Function
	slotKind, slotName := "", ""
	for _, cs := range allCalls([]*ssa.Function{fn}) {
		if cs.Name != "(*regexp.Regexp).ReplaceAllStringFunc" || len(cs.Instr.Common().Args) != 3 {
			continue
		}
		mc, ok := cs.Instr.Common().Args[2].(*ssa.MakeClosure)
		if !ok {
			continue
		}
		cf, _ := mc.Fn.(*ssa.Function)
		if cf == nil {
			continue
		}
		if strings.Contains(cf.Synthetic, "bound method wrapper") {
			for _, c2 := range allCalls([]*ssa.Function{cf}) {
				if c2.Callee != nil && p.InRepo(c2.Callee) {
					closure = c2.Callee
				}
			}
			if closure != nil && closure.Signature.Recv() != nil {
				rt := closure.Signature.Recv().Type()
				if pt, isPtr := rt.(*types.Pointer); isPtr {
					rt = pt.Elem()
				}
				if stt, isStruct := rt.Underlying().(*types.Struct); isStruct {
					n := 0
					for i := 0; i < stt.NumFields(); i++ {
						if nnIsErrorType(stt.Field(i).Type()) {
							slotKind, slotName = "field", stt.Field(i).Name()
							n++
						}
					}
					if n != 1 {
						slotKind = ""
					}
				}
			}
		} else {
			closure = cf
			n := 0
			for _, fv := range cf.FreeVars {
				if pt, isPtr := fv.Type().(*types.Pointer); isPtr && nnIsErrorType(pt.Elem()) {
					slotKind, slotName = "cell", fv.Name()
					n++
				}
			}
			if n != 1 {
				slotKind = ""
			}
		}
	}
	if closure == nil || slotKind == "" {
		r.Undecided("C13.error", "bkl.process2StringInterp / replacement callback", p.Pos(fn.Pos()), "callback not found (a function literal or bound method handed to ReplaceAllStringFunc, with exactly one shared error variable or field)")
		return
	}
	isRecv := func(t *T) bool {
		return t != nil && t.Op == "param" && len(closure.Params) > 0 && t.V == ssa.Value(closure.Params[0])
	}
	// the value an effect stores into the shared error, or nil
	slotSet := func(e Effect) *T {
		switch slotKind {
		case "cell":
			if e.Kind == "cellset" && e.Callee == slotName && len(e.Args) == 1 {
				return e.Args[0]
			}
		case "field":
			if e.Kind == "fieldset" && strings.HasSuffix(e.Callee, "."+slotName) && len(e.Args) == 2 && isRecv(e.Args[0]) {
				return e.Args[1]
			}
		}
		return nil
	}
	ci := newPSRule(p, r, "C13.error", p.FuncName(closure), PSOpts{NoInline: map[string]bool{"bkl.getWithVar": true, "bkl.process2": true, "bkl.process2String": true}})
	nested := mOr(mCall("bkl.process2"), mCall("bkl.process2String")) // the evaluator applied to a looked-up string
	cellEntry := func(t *T) bool {
		if t == nil {
			return false
		}
		if slotKind == "cell" {
			return t.Op == "freeval" && t.Name == slotName
		}
		return t.Op == "field" && t.Name == slotName && len(t.Args) == 1 && isRecv(t.Args[0])
	}
	ci.all("a failed lookup or nested evaluation is recorded in the captured error", selectPaths(ci.paths, func(pa *Path) bool {
		return guardPol(pa, "err", mCall("bkl.getWithVar"), nil) == 1 || guardPol(pa, "err", nested, nil) == 1
	}), "err cell receives the error", func(pa *Path) (bool, string) {
		if guardPol(pa, "err", cellEntry, nil) == 1 {
			return true, "" // an earlier reference's error is already recorded and is kept
		}
		// what is recorded must be the error of the step that failed: the lookup's own assignment does not
		// record a failure of the nested evaluation (seed C08-l: `v3, err := process2(...)` declares a new err)
		lookupFailed := guardPol(pa, "err", mCall("bkl.getWithVar"), nil) == 1
		for _, e := range pa.Effects {
			v := slotSet(e)
			if v == nil {
				continue
			}
			if lookupFailed && (mCall("bkl.getWithVar")(v) || mResOf(1, mCall("bkl.getWithVar"))(v)) {
				return true, ""
			}
			if !lookupFailed && (nested(v) || mResOf(1, nested)(v)) {
				return true, ""
			}
		}
		if !lookupFailed {
			return false, "the nested evaluation of a looked-up string fails and its error is not stored in the shared error (a shadowed err?): the text {ERROR} is substituted and evaluation succeeds"
		}
		return false, "a failing reference is replaced by text without recording the error (empty/garbage substitution instead of an error)"
	})
	// the callback runs once per reference and shares one error cell: an error recorded by an earlier
	// reference must survive the later ones (a later successful lookup must not reset it to nil)
	ci.all("an error recorded by an earlier reference is not overwritten by a later one", ci.paths, "the callback writes the error cell only when it was nil on entry, or writes a non-nil error", func(pa *Path) (bool, string) {
		if guardPol(pa, "err", cellEntry, nil) == -1 {
			return true, ""
		}
		var last *T
		for _, e := range pa.Effects {
			if v := slotSet(e); v != nil {
				last = v
			}
		}
		if last == nil {
			return true, ""
		}
		if last.Op == "call" && (last.Name == "fmt.Errorf" || last.Name == "errors.New") {
			return true, ""
		}
		if !last.IsNil() && guardPol(pa, "err", mIs(last), nil) == 1 {
			return true, ""
		}
		return false, "the shared error cell may hold an earlier reference's error on entry and is overwritten with " + truncate(last.String(), 80) + " (possibly nil): a failing reference followed by a resolvable one evaluates successfully"
	})
	ci.all("a successful reference is rendered with %v", selectPaths(ci.paths, func(pa *Path) bool {
		return guardPol(pa, "err", mCall("bkl.getWithVar"), nil) == -1 && guardPol(pa, "err", nested, nil) != 1 && pa.End == "return"
	}), `fmt.Sprintf("%v", value)`, func(pa *Path) (bool, string) {
		res := pa.Results[0]
		if res.Op == "call" && res.Name == "fmt.Sprintf" && mStr("%v")(res.Args[0]) {
			v := res.Args[1].Args[0]
			if mResOf(0, mCall("bkl.getWithVar"))(v) || mResOf(0, nested)(v) {
				return true, ""
			}
			return false, "what is rendered is not the looked-up value: " + v.String()
		}
		return false, "the substitution is not the %v text of the value: " + res.String()
	})
	ci.all("the reference is the text between the braces", selectPaths(ci.paths, func(pa *Path) bool { return hasCallEffect(pa, "bkl.getWithVar") }), `getWithVar(.., TrimSuffix(TrimPrefix(m, "{"), "}"))`, func(pa *Path) (bool, string) {
		for _, e := range pa.Effects {
			if e.Callee == "bkl.getWithVar" {
				a := e.Args[3]
				if a.Op == "call" && a.Name == "strings.TrimSuffix" && mStr("}")(a.Args[1]) && a.Args[0].Op == "call" && a.Args[0].Name == "strings.TrimPrefix" && mStr("{")(a.Args[0].Args[1]) && mParam("m")(a.Args[0].Args[0]) {
					return true, ""
				}
				return false, "the reference looked up is " + a.String()
			}
		}
		return false, ""
	})
	// parent: returns the captured error whenever it is set
	pp := newPSRule(p, r, "C13.error", "bkl.process2StringInterp", PSOpts{})
	pp.all("interpolation fails whenever a reference failed", selectPaths(pp.paths, func(pa *Path) bool { return pa.End == "return" }), "if err != nil return err, on every path", func(pa *Path) (bool, string) {
		res := lastResult(pa)
		// success must be guarded by the error cell being nil
		if res.IsNil() {
			for _, g := range pa.Guards {
				if !(g.Kind == "kind" || g.Kind == "nil" || g.Kind == "err") || g.A == nil {
					continue
				}
				if slotKind == "cell" && g.A.Op == "carried" && strings.Contains(g.A.Name, slotName) {
					return true, ""
				}
				if slotKind == "field" && g.A.Op == "field" && g.A.Name == slotName && len(g.A.Args) == 1 && g.A.Args[0].Op == "fresh" {
					return true, ""
				}
			}
			return false, "success is returned without testing the error recorded by the replacement callback"
		}
		return true, ""
	})
	// pattern literal
	okPat := false
	for _, cs := range allCalls(p.Funcs) {
		if cs.Name == "regexp.MustCompile" && isInitFunc(cs.Fn) {
			if c, ok := cs.Instr.Common().Args[0].(*ssa.Const); ok && c.Value != nil {
				pat := strings.Trim(c.Value.ExactString(), `"`)
				if st, ok := cs.Instr.(*ssa.Call); ok {
					for _, ref := range *st.Referrers() {
						if s, ok := ref.(*ssa.Store); ok {
							if g, ok := s.Addr.(*ssa.Global); ok && g.Name() == "interpRE" {
								okPat = interpPatternOK(pat)
								r.Check(okPat, "C13.trigger", "bkl.interpRE / pattern", p.InstrPos(cs.Instr), "matches '{', the shortest run of characters, '}'", fmt.Sprintf("the interpolation pattern %q is not a non-greedy {...} match", pat))
							}
						}
					}
				}
			}
		}
	}
	if !okPat {
		r.Check(false, "C13.trigger", "bkl.interpRE / pattern present", "", "", "interpolation pattern not found or wrong")
	}
}

// getWithVar fallback and envVars
func ruleC13Vars(p *Prog, r *Result) {
	pr := newPSRule(p, r, "C13.fallback", "bkl.getWithVar", PSOpts{NoInline: map[string]bool{"bkl.get": true}})
	mP := mParam("m")
	pr.all("a reference that is not a document path falls back to the variable table; if that fails too it is an error", selectPaths(pr.paths, func(pa *Path) bool {
		return guardPol(pa, "err", mCall("bkl.get"), nil) == 1 && guardPol(pa, "kind", mP, "string") == 1
	}), "ec.GetVar(ref): value or ErrVariableNotFound", func(pa *Path) (bool, string) {
		found := guardPol(pa, "has", mOp("field", mParam("ec")), TM(mP))
		if found == 1 && isSuccess(pa) && mLookup(mOp("field", mParam("ec")), mP)(pa.Results[0]) {
			return true, ""
		}
		if found == -1 && isFailure(pa) && wraps(lastResult(pa), "ErrVariableNotFound") {
			return true, ""
		}
		return false, "a missing reference is not an error, or the wrong value is substituted"
	})
	pr.all("a successful document lookup wins", selectPaths(pr.paths, func(pa *Path) bool { return guardPol(pa, "err", mCall("bkl.get"), nil) == -1 }), "returns get's result", func(pa *Path) (bool, string) {
		if isSuccess(pa) && mResOf(0, mCall("bkl.get"))(pa.Results[0]) {
			return true, ""
		}
		return false, "the document value is not what is returned"
	})
	// envVars boxes only strings
	ev := p.Func("bkl.envVars")
	for tn, ins := range boxedTypes(p, []*ssa.Function{ev}) {
		r.Check(tn == "string", "C13.string", "bkl.envVars / boxes "+tn, p.InstrPos(ins[0]), "environment values are strings", "an environment value is stored as "+tn+": $env:NAME no longer always yields a string")
	}
	// every environment entry is entered under $env:<name>
	pe := newPSRule(p, r, "C13.env", "bkl.envVars", PSOpts{})
	pe.all("every environment entry NAME=value is available as $env:NAME", selectPaths(pe.paths, func(pa *Path) bool { return pa.End == "iter" }), `vars["$env:"+name] = value`, func(pa *Path) (bool, string) {
		for _, e := range pa.Effects {
			if e.Kind == "mapset" {
				k := e.Args[1]
				if mConcat(mStr("$env:"), mAny())(k) {
					return true, ""
				}
				return false, "the key is " + k.String()
			}
		}
		return false, "an environment entry is skipped"
	})
}

func interpPatternOK(pat string) bool {
	// accept the documented pattern and trivially equivalent spellings
	switch pat {
	case `{.*?}`, `\{.*?\}`, `{.*?\}`, `\{.*?}`, `{[^}]*}`, `\{[^}]*\}`:
		return true
	}
	return false
}

// isFailure2: the error result is a constructed error (not a propagated callee result).
func isFailure2(pa *Path) bool {
	e := lastResult(pa)
	return e != nil && strings.HasPrefix(errClass(e), "wraps:")
}

// intOfParam: v is the parameter named name asserted to int — directly (v, ok := name.(int)) or through a
// private helper that does exactly that with its own parameter and returns it on every successful return.
func intOfParam(p *Prog, v ssa.Value, name string, depth int) bool {
	if depth > 2 {
		return false
	}
	ex, ok := v.(*ssa.Extract)
	if !ok || ex.Index != 0 {
		return false
	}
	switch t := ex.Tuple.(type) {
	case *ssa.TypeAssert:
		par, ok := t.X.(*ssa.Parameter)
		return ok && p.ParamName(par) == name && t.AssertedType.String() == "int"
	case *ssa.Call:
		callee := t.Call.StaticCallee()
		if callee == nil || !p.InRepo(callee) || len(callee.Blocks) == 0 {
			return false
		}
		// which callee parameter receives our parameter?
		inner := ""
		for i, a := range t.Call.Args {
			if par, ok := a.(*ssa.Parameter); ok && p.ParamName(par) == name && i < len(callee.Params) {
				inner = p.ParamName(callee.Params[i])
			}
		}
		if inner == "" {
			return false
		}
		n := 0
		for _, b := range callee.Blocks {
			ret, ok := b.Instrs[len(b.Instrs)-1].(*ssa.Return)
			if !ok {
				continue
			}
			if failureReturn(ret) {
				continue
			}
			n++
			if !intOfParam(p, retValue(ret, 0), inner, depth+1) {
				return false
			}
		}
		return n > 0
	}
	return false
}

// rotatedEntryGuard: the loop whose header is h is entered only under "0 < bound" (the pre-check of a rotated
// counted loop such as the lowering of "for i := range n").
func rotatedEntryGuard(h *ssa.BasicBlock, bound ssa.Value) bool {
	for d := h.Idom(); d != nil; d = d.Idom() {
		iff, ok := d.Instrs[len(d.Instrs)-1].(*ssa.If)
		if !ok {
			continue
		}
		cmp, ok := iff.Cond.(*ssa.BinOp)
		if !ok || cmp.Y != bound || cmp.Op.String() != "<" {
			continue
		}
		if k, ok := constInt(cmp.X); ok && k == 0 && iff.Block().Succs[0].Dominates(h) {
			return true
		}
	}
	return false
}
