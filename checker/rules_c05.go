package main

// C05 — writer/reader codec agreement per format, separators match splitters, streams lose no document.

import (
	"fmt"
	"go/constant"
	"go/types"
	"regexp"
	"sort"
	"strings"

	"golang.org/x/tools/go/ssa"
)

type formatEntry struct {
	key              string
	marshal, unmarsh *ssa.Function
	pos              ssa.Instruction
}

// formatTable reads the formatByExtension literal from the package initialiser.
func formatTable(p *Prog) []formatEntry {
	var out []formatEntry
	for _, fn := range p.Funcs {
		if !isInitFunc(fn) || fnPkg(fn) == nil || shortPkg(fnPkg(fn).Pkg.Path()) != "bkl" {
			continue
		}
		for _, b := range fn.Blocks {
			for _, in := range b.Instrs {
				mu, ok := in.(*ssa.MapUpdate)
				if !ok {
					continue
				}
				k, ok := mu.Key.(*ssa.Const)
				if !ok || k.Value == nil || k.Value.Kind() != constant.String {
					continue
				}
				ld, ok := mu.Value.(*ssa.UnOp)
				if !ok {
					continue
				}
				al, ok := ld.X.(*ssa.Alloc)
				if !ok || !strings.HasSuffix(al.Type().String(), "bkl.Format") {
					continue
				}
				e := formatEntry{key: constant.StringVal(k.Value), pos: in}
				for _, ref := range *al.Referrers() {
					fa, ok := ref.(*ssa.FieldAddr)
					if !ok {
						continue
					}
					for _, r2 := range *fa.Referrers() {
						st, ok := r2.(*ssa.Store)
						if !ok {
							continue
						}
						f, _ := st.Val.(*ssa.Function)
						if fa.Field == 0 {
							e.marshal = f
						} else {
							e.unmarsh = f
						}
					}
				}
				out = append(out, e)
			}
		}
	}
	sort.Slice(out, func(i, j int) bool { return out[i].key < out[j].key })
	return out
}

var codecFamilies = map[string]string{
	"encoding/json":                   "json",
	"gopkg.in/yaml.v3":                "yaml",
	"github.com/pelletier/go-toml/v2": "toml",
}

// codecOf: which codec library the function calls into — directly, or through private helpers defined in the
// same source file (jsonMarshalStream -> jsonEncodeStream -> encoding/json).
func codecOf(fn *ssa.Function) map[string]bool {
	out := map[string]bool{}
	if fn == nil {
		return out
	}
	file := func(f *ssa.Function) string {
		if f == nil || f.Prog == nil || !f.Pos().IsValid() {
			return ""
		}
		return f.Prog.Fset.Position(f.Pos()).Filename
	}
	group := []*ssa.Function{fn}
	seen := map[*ssa.Function]bool{fn: true}
	for i := 0; i < len(group); i++ {
		cur := append([]*ssa.Function{group[i]}, allAnon(group[i])...)
		for _, cs := range allCalls(cur) {
			if cs.Callee != nil && !seen[cs.Callee] && file(cs.Callee) != "" && file(cs.Callee) == file(fn) {
				seen[cs.Callee] = true
				group = append(group, cs.Callee)
			}
			// a function handed to a (possibly shared) helper as its per-document encoder / decoder
			for _, a := range cs.Instr.Common().Args {
				var f *ssa.Function
				switch x := a.(type) {
				case *ssa.Function:
					f = x
				case *ssa.MakeClosure:
					f, _ = x.Fn.(*ssa.Function)
				}
				if f != nil && !seen[f] && f.Blocks != nil {
					seen[f] = true
					group = append(group, f)
				}
			}
		}
	}
	var all []*ssa.Function
	for _, g := range group {
		all = append(all, g)
		all = append(all, allAnon(g)...)
	}
	for _, cs := range allCalls(all) {
		if cs.Callee == nil || cs.Callee.Pkg == nil {
			if cs.Callee != nil && cs.Callee.Origin() != nil && cs.Callee.Origin().Pkg != nil {
				if fam, ok := codecFamilies[cs.Callee.Origin().Pkg.Pkg.Path()]; ok {
					out[fam] = true
				}
			}
			continue
		}
		if fam, ok := codecFamilies[cs.Callee.Pkg.Pkg.Path()]; ok {
			out[fam] = true
		}
	}
	return out
}

func ruleC05Table(p *Prog, r *Result) {
	tbl := formatTable(p)
	want := map[string]string{"json": "json", "jsonl": "json", "json-pretty": "json", "yaml": "yaml", "yml": "yaml", "toml": "toml"}
	seen := map[string]formatEntry{}
	for _, e := range tbl {
		seen[e.key] = e
		pos := p.InstrPos(e.pos)
		mf, uf := codecOf(e.marshal), codecOf(e.unmarsh)
		fam, known := want[e.key]
		if !known {
			// a new format: writer and reader must at least agree with each other
			ok := len(mf) == 1 && len(uf) == 1 && setString(mf) == setString(uf)
			r.Check(ok, "C05.table", "format "+e.key, pos, "writer and reader use the same codec", fmt.Sprintf("format %q is written with %s but read with %s", e.key, setString(mf), setString(uf)))
			continue
		}
		ok := len(mf) == 1 && mf[fam] && len(uf) == 1 && uf[fam]
		r.Check(ok, "C05.table", "format "+e.key, pos, fmt.Sprintf("written by %s and read by %s, both %s", p.FuncName(e.marshal), p.FuncName(e.unmarsh), fam),
			fmt.Sprintf("format %q must be written and read with the %s codec, but the writer uses {%s} and the reader {%s}: what bkl writes does not read back", e.key, fam, setString(mf), setString(uf)))
	}
	for k := range want {
		if _, ok := seen[k]; !ok {
			r.Fail("C05.table", "format "+k, "", "the documented format "+k+" is missing from the format table")
		}
	}
	// aliases
	for _, pair := range [][2]string{{"yml", "yaml"}, {"jsonl", "json"}} {
		a, b := seen[pair[0]], seen[pair[1]]
		r.Check(a.marshal == b.marshal && a.unmarsh == b.unmarsh && a.marshal != nil, "C05.table", pair[0]+" is an alias of "+pair[1], "", "identical writer and reader", pair[0]+" and "+pair[1]+" use different codecs")
	}
	// json-pretty reads like json
	r.Check(seen["json-pretty"].unmarsh == seen["json"].unmarsh && seen["json"].unmarsh != nil, "C05.table", "json-pretty is read like json", "", "same reader", "json-pretty output is not read back by the json reader")
	r.Floor("C05.table", "formats in the table", len(tbl), 6)
}

// regexpOfGlobal: the pattern compiled into package variable name.
func regexpOfGlobal(p *Prog, name string) (string, bool) {
	for _, cs := range allCalls(p.Funcs) {
		if cs.Name != "regexp.MustCompile" || !isInitFunc(cs.Fn) {
			continue
		}
		c, ok := cs.Instr.Common().Args[0].(*ssa.Const)
		if !ok || c.Value == nil {
			continue
		}
		call, ok := cs.Instr.(*ssa.Call)
		if !ok {
			continue
		}
		for _, ref := range *call.Referrers() {
			if st, ok := ref.(*ssa.Store); ok {
				if g, ok := st.Addr.(*ssa.Global); ok && g.Name() == name {
					return constant.StringVal(c.Value), true
				}
			}
		}
	}
	return "", false
}

func ruleC05Sep(p *Prog, r *Result) {
	for _, f := range []struct{ writer, re string }{{"bkl.tomlMarshalStream", "tomlRE"}, {"bkl.yamlMarshalStream", "yamlRE"}} {
		fn := p.Func(f.writer)
		pat, ok := regexpOfGlobal(p, f.re)
		if !ok {
			r.Undecided("C05.sep", f.writer+" / splitter pattern", "", "pattern of "+f.re+" not found")
			continue
		}
		re, err := regexp.Compile(pat)
		if err != nil {
			r.Fail("C05.sep", f.re+" / pattern compiles", "", err.Error())
			continue
		}
		n := 0
		for _, cs := range allCalls([]*ssa.Function{fn}) {
			if cs.Name != "(*bytes.Buffer).Write" && cs.Name != "(*bytes.Buffer).WriteString" {
				continue
			}
			arg := cs.Instr.Common().Args[1]
			if cv, ok := arg.(*ssa.Convert); ok {
				arg = cv.X
			}
			c, ok := arg.(*ssa.Const)
			if !ok || c.Value == nil || c.Value.Kind() != constant.String {
				r.Fail("C05.sep", f.writer+" / separator literal", p.InstrPos(cs.Instr), "the separator written between documents is not a constant")
				continue
			}
			n++
			sep := constant.StringVal(c.Value)
			okSep := strings.HasSuffix(sep, "\n") && !strings.Contains(strings.TrimSuffix(sep, "\n"), "\n") && re.MatchString("x: 1\n"+sep+"y: 2\n") && len(re.Split("x: 1\n"+sep+"y: 2\n", -1)) == 2
			r.Check(okSep, "C05.sep", fmt.Sprintf("%s / separator %q is recognised by %s", f.writer, sep, f.re), p.InstrPos(cs.Instr), fmt.Sprintf("the reader's pattern %q splits a stream at this separator", pat),
				fmt.Sprintf("the writer separates documents with %q but the reader splits on %q: a multi-document stream written by bkl is not read back as the same documents", sep, pat))
		}
		if f.re == "tomlRE" {
			r.Floor("C05.sep", f.writer+" separator writes", n, 1)
		}
		// the reader splits with that pattern
		rd := strings.Replace(f.writer, "Marshal", "Unmarshal", 1)
		uses := false
		for _, sp := range splittersOf(p, p.Func(rd)) {
			if g := globalOf(sp.recv); g != nil && g.Name() == f.re {
				uses = true
			}
		}
		r.Check(uses, "C05.sep", rd+" / splits on "+f.re, p.Pos(p.Func(rd).Pos()), "the reader splits the stream with the pattern the separator was checked against", "the reader does not split on "+f.re)
	}
}

func ruleC05All(p *Prog, r *Result) {
	// writers: every element of vs is encoded, in order; an error aborts
	for _, w := range []string{"bkl.jsonMarshalStream", "bkl.jsonMarshalStreamPretty", "bkl.yamlMarshalStream", "bkl.tomlMarshalStream"} {
		pr := newPSRule(p, r, "C05.all", w, PSOpts{})
		vs := mParam("vs")
		pr.all("every document of the stream is encoded, in order", selectPaths(pr.paths, func(pa *Path) bool { return guardPol(pa, "itermore", mOp("range", vs), nil) == 1 }),
			"Encode(elem) once per element (YAML: or the empty-document separator); an encoder error aborts", func(pa *Path) (bool, string) {
				n := 0
				var enc TM
				for _, e := range pa.Effects {
					if strings.HasSuffix(e.Callee, ".Encode") && len(e.Args) == 2 && mElemOf(vs)(e.Args[1]) && len(e.Loops) > 0 {
						n++
						enc = mCall(e.Callee)
					}
				}
				if w == "bkl.yamlMarshalStream" && guardPol(pa, "kind", mElemOf(vs), "nil") == 1 {
					// empty document: separator unless first
					first := firstness(pr, pa)
					wrote := false
					for _, e := range pa.Effects {
						if (e.Callee == "(*bytes.Buffer).Write" || e.Callee == "(*bytes.Buffer).WriteString") && len(e.Loops) > 0 {
							wrote = true
						}
					}
					if n != 0 {
						return false, "a nil document is encoded (as 'null') instead of being written as an empty document"
					}
					if first != 1 && !wrote {
						return false, "an empty document after the first is dropped from the stream"
					}
					if first == 1 && wrote {
						return false, "a leading empty document writes a separator"
					}
					return true, ""
				}
				if n != 1 {
					return false, fmt.Sprintf("%d Encode calls for one document", n)
				}
				g := guardPol(pa, "err", enc, nil)
				if g == 1 && !isFailure(pa) {
					return false, "an encoding error is ignored"
				}
				if g == 0 {
					return false, "the encoder's error is not checked"
				}
				if g == -1 && pa.End != "iter" {
					return false, "the loop stops before the last document"
				}
				return true, ""
			})
		pr.all("the encoded bytes are returned after the last document", selectPaths(pr.paths, isSuccess), "buf.Bytes()", func(pa *Path) (bool, string) {
			if guardPol(pa, "itermore", mOp("range", vs), nil) != -1 {
				return false, "returns before the last document"
			}
			if !mCall("(*bytes.Buffer).Bytes")(pa.Results[0]) {
				return false, "what is returned is not the buffer's content"
			}
			return true, ""
		})
	}
	// toml writer: separator before every document but the first
	pt := newPSRule(p, r, "C05.all", "bkl.tomlMarshalStream", PSOpts{})
	pt.all("TOML: a separator precedes every document except the first", selectPaths(pt.paths, func(pa *Path) bool { return pa.End == "iter" }), "first -> no separator; later -> separator then Encode", func(pa *Path) (bool, string) {
		first := firstness(pt, pa)
		wi, ei := -1, -1
		for i, e := range pa.Effects {
			if e.Callee == "(*bytes.Buffer).Write" || e.Callee == "(*bytes.Buffer).WriteString" {
				wi = i
			}
			if strings.HasSuffix(e.Callee, ".Encode") {
				ei = i
			}
		}
		if first == 1 && wi >= 0 {
			return false, "the first document is preceded by a separator"
		}
		if first == -1 && (wi < 0 || wi > ei) {
			return false, "a later document is not preceded by a separator: two documents run together"
		}
		if first == 0 {
			return false, "first/later documents are not distinguished"
		}
		return true, ""
	})
	// readers
	for _, rd := range []string{"bkl.yamlUnmarshalStream", "bkl.tomlUnmarshalStream"} {
		pr := newPSRule(p, r, "C05.all", rd, PSOpts{NoInline: map[string]bool{"bkl.yamlTranslateNode": true}})
		parts := mCall("(*regexp.Regexp).Split")
		pr.all("every part of the split stream is decoded and appended, in order; a decoding error aborts", selectPaths(pr.paths, func(pa *Path) bool { return guardPol(pa, "itermore", mOp("range", parts), nil) == 1 }),
			"ret = append(ret, decode(part))", func(pa *Path) (bool, string) {
				if isFailure(pa) {
					return true, ""
				}
				if pa.End != "iter" {
					return false, "the loop over the documents is left early"
				}
				appended := false
				for _, v := range pa.Carried {
					if v.Op == "append" && len(v.Args) == 2 && v.Args[0].Op == "carried" && v.Args[1].Op == "lit" && len(v.Args[1].Args) == 1 {
						appended = true
					}
				}
				if !appended {
					return false, "a decoded document is not appended to the result"
				}
				// what is handed to the decoder is the part itself, byte for byte
				part := mElemOf(parts)
				decoded := false
				for _, e := range pa.Effects {
					if !strings.HasSuffix(e.Callee, ".Unmarshal") || len(e.Args) < 1 {
						continue
					}
					a := e.Args[0]
					if a.Op == "convert" && len(a.Args) == 1 && part(a.Args[0]) {
						decoded = true
						continue
					}
					return false, "the text handed to the decoder is not the document as it stands in the stream (" + truncate(a.String(), 70) + "): leading or trailing characters that belong to a value (a block scalar's final line breaks) are lost on reading back"
				}
				if !decoded {
					return false, "a part of the stream is turned into a document without being decoded"
				}
				return true, ""
			})
		pr.all("the stream is split on the format's separator pattern over the whole input", selectPaths(pr.paths, isSuccess), "re.Split(string(in), -1)", func(pa *Path) (bool, string) {
			for _, e := range pa.Effects {
				if e.Callee == "(*regexp.Regexp).Split" {
					if e.Args[1].Op == "convert" && e.Args[1].Args[0].IsParam("in") && e.Args[2].IsConst("-1") {
						return true, ""
					}
					return false, "the input is not split completely: " + e.String()
				}
			}
			return false, "the input is not split into documents"
		})
	}
	pj := newPSRule(p, r, "C05.all", "bkl.jsonUnmarshalStream", PSOpts{})
	dec := mCall("(*encoding/json.Decoder).Decode")
	pj.all("JSON: values are decoded until EOF; every value is appended; any other error aborts", pj.paths, "for { Decode; EOF -> done; err -> fail; append }", func(pa *Path) (bool, string) {
		eof := guardPol(pa, "truth", mCall("errors.Is", dec), nil)
		switch {
		case eof == 1:
			if isSuccess(pa) && pa.Results[0].Op == "carried" {
				return true, ""
			}
			return false, "EOF does not end the stream with the collected values"
		case eof == -1 && guardPol(pa, "err", dec, nil) == 1:
			return isFailure(pa), "a decoding error is ignored"
		case eof == -1 && guardPol(pa, "err", dec, nil) == -1:
			if pa.End != "iter" {
				return false, "decoding stops before EOF"
			}
			for _, v := range pa.Carried {
				if v.Op == "append" && len(v.Args) == 2 && v.Args[1].Op == "lit" && len(v.Args[1].Args) == 1 && v.Args[1].Args[0].Op == "out" {
					return true, ""
				}
			}
			return false, "a decoded value is not appended"
		}
		return false, "EOF / error are not distinguished"
	})
}

// ruleC05File (C05.file): a file that bkl writes output into is opened truncating (os.Create, or OpenFile with
// O_TRUNC): otherwise the tail of a longer, older file survives behind the new stream and what was written
// does not read back as what was evaluated.
func ruleC05File(p *Prog, r *Result) {
	var trunc, wronly, rdwr int64 = -1, -1, -1
	for _, pk := range p.Pkgs {
		if pk.Types == nil {
			continue
		}
		for _, imp := range pk.Types.Imports() {
			if imp.Path() != "os" {
				continue
			}
			get := func(name string) int64 {
				if c, ok := imp.Scope().Lookup(name).(*types.Const); ok {
					if v, ok := constant.Int64Val(c.Val()); ok {
						return v
					}
				}
				return -1
			}
			trunc, wronly, rdwr = get("O_TRUNC"), get("O_WRONLY"), get("O_RDWR")
		}
	}
	if trunc <= 0 {
		r.Undecided("C05.file", "os.O_TRUNC", "", "constant not found")
		return
	}
	n := 0
	for _, cs := range allCalls(p.Funcs) {
		pk := fnPkg(cs.Fn)
		if pk == nil || shortPkg(pk.Pkg.Path()) != "bkl" || cs.Name != "os.OpenFile" {
			continue
		}
		flag, ok := constInt(cs.Instr.Common().Args[1])
		key := p.FuncName(cs.Fn) + " / os.OpenFile for writing"
		if !ok {
			r.Fail("C05.file", key, p.InstrPos(cs.Instr), "the open flags are computed: whether an existing file is truncated cannot be decided")
			continue
		}
		if flag&(wronly|rdwr) == 0 {
			continue // read-only
		}
		n++
		r.Check(flag&trunc != 0, "C05.file", key, p.InstrPos(cs.Instr), "opened with O_TRUNC: nothing of an earlier file survives",
			"an output file is opened for writing without O_TRUNC: when the path already holds a longer file, its tail stays behind the new output, which then does not read back as the evaluated stream")
	}
	r.Floor("C05.file", "output files opened by the library", n, 1)
}

// firstness: is this iteration known to be the first one of the stream (1), a later one (-1), or is that not
// decided on the path (0)? Recognised through a monotone flag (starts true and is only cleared, or starts
// false and is only set) or through a test of the position (i > 0, i == 0, ...).
func firstness(pt *psRule, pa *Path) int {
	first := 0
	for _, g := range pa.Guards {
		if g.Kind == "truth" && g.A.Op == "carried" {
			// a flag: starts true and is only ever cleared ("first"), or starts false and is only ever set ("seen one")
			info := pt.carried[g.A.N]
			allSrc := func(want string) bool {
				for _, s := range info.Src {
					if !s.IsConst(want) {
						return false
					}
				}
				return len(info.Src) > 0
			}
			switch {
			case info.Init != nil && info.Init.IsConst("true") && allSrc("false"):
				first = 1
				if g.Neg {
					first = -1
				}
			case info.Init != nil && info.Init.IsConst("false") && allSrc("true"):
				first = -1
				if g.Neg {
					first = 1
				}
			}
		}
		// or the position in the stream: i > 0, i != 0, i >= 1 (later) and their negations (first)
		if g.Kind == "cmp" && g.A != nil && g.A.Op == "idx" && g.B != nil && g.B.Op == "const" {
			later := 0
			switch {
			case g.Const == ">" && g.B.Name == "0", g.Const == ">=" && g.B.Name == "1":
				later = 1
			case g.Const == "<" && g.B.Name == "1", g.Const == "<=" && g.B.Name == "0":
				later = -1
			}
			if g.Neg {
				later = -later
			}
			if later != 0 {
				first = -later
			}
		}
		if g.Kind == "eq" && g.A != nil && g.A.Op == "idx" && g.B != nil && g.B.IsConst("0") {
			first = 1
			if g.Neg {
				first = -1
			}
		}
	}
	return first
}

// splitter: how a stream reader cuts its input into documents: the regular expression value whose Split is applied.
type splitter struct {
	recv ssa.Value // the *regexp.Regexp value (in the reader's own frame)
	site ssa.CallInstruction
}

// splittersOf: the Split calls of the reader itself, and those of a helper the reader hands its pattern to (the
// helper calls Split on the parameter that receives it).
func splittersOf(p *Prog, reader *ssa.Function) []splitter {
	var out []splitter
	if reader == nil {
		return out
	}
	fns := append([]*ssa.Function{reader}, allAnon(reader)...)
	for _, cs := range allCalls(fns) {
		if cs.Name == "(*regexp.Regexp).Split" {
			out = append(out, splitter{cs.Instr.Common().Args[0], cs.Instr})
			continue
		}
		h := cs.Callee
		if h == nil || !p.InRepo(h) || h.Blocks == nil || cs.Instr.Common().IsInvoke() {
			continue
		}
		for _, hs := range allCalls(append([]*ssa.Function{h}, allAnon(h)...)) {
			if hs.Name != "(*regexp.Regexp).Split" {
				continue
			}
			par, ok := hs.Instr.Common().Args[0].(*ssa.Parameter)
			if !ok {
				continue
			}
			for i, q := range h.Params {
				if q == par && i < len(cs.Instr.Common().Args) {
					out = append(out, splitter{cs.Instr.Common().Args[i], cs.Instr})
				}
			}
		}
	}
	return out
}
