package main

// Contracts of the small marker helpers in util.go that the merge rules (list "$replace: true"), the
// $output rules and the tools take for granted.

import (
	"fmt"
	"go/types"
	"strings"
)

// ruleMarkerHelpers(prefix): <prefix>.marker
func ruleMarkerHelpers(rule string) func(p *Prog, r *Result) {
	return func(p *Prog, r *Result) {
		// hasMapBoolValue(m, k, v): m[k] is the boolean v
		pm := newPSRule(p, r, rule, "bkl.hasMapBoolValue", PSOpts{})
		mP, kP, vP := mParam("m"), mParam("k"), mParam("v")
		look := mLookup(mP, kP)
		pm.all("a map carries the marker k: v exactly when m[k] is a boolean equal to v", selectPaths(pm.paths, func(pa *Path) bool { return pa.End == "return" }),
			"absent or non-boolean -> false; otherwise m[k] == v", func(pa *Path) (bool, string) {
				res := pa.Results[0]
				has := guardPol(pa, "has", mP, TM(kP))
				isBool := guardPol(pa, "kind", look, "bool")
				switch {
				case has == -1, has == 1 && isBool == -1:
					if res.IsConst("false") {
						return true, ""
					}
					return false, "a missing or non-boolean entry counts as a marker"
				case has == 1 && isBool == 1:
					if res.Op == "binop" && res.Name == "==" && ((look(res.Args[0]) && vP(res.Args[1])) || (look(res.Args[1]) && vP(res.Args[0]))) {
						return true, ""
					}
					if g := guardPol(pa, "eq", mOr(look, vP), nil); g != 0 && (res.IsConst("true") || res.IsConst("false")) && (g == 1) == res.IsConst("true") {
						return true, ""
					}
					return false, "the marker's value is not compared with the value asked for: " + truncate(res.String(), 60)
				}
				return false, "the entry is not looked up and tested for being a boolean"
			})
		// hasListMapBoolValue(l, k, v): some map entry of l carries the marker
		pl := newPSRule(p, r, rule, "bkl.hasListMapBoolValue", PSOpts{})
		lP := mParam("l")
		el := mElemOf(lP)
		hit := func(pa *Path) int {
			h := guardPol(pa, "has", TM(el), TM(kP))
			b := guardPol(pa, "kind", mLookup(el, kP), "bool")
			e := guardPol(pa, "eq", mOr(mLookup(el, kP), vP), nil)
			if h != -1 && b == 1 && e == 1 {
				return 1
			}
			if h == -1 || b == -1 || e == -1 || guardPol(pa, "kind", TM(el), "map") == -1 {
				return -1
			}
			return 0
		}
		pl.all("a list carries the marker exactly when one of its map entries does, whatever its position", selectPaths(pl.paths, func(pa *Path) bool { return pa.End == "return" }),
			"true only at an entry carrying the marker; false only after the last entry", func(pa *Path) (bool, string) {
				res := pa.Results[0]
				more := guardPol(pa, "itermore", mOp("range", lP), nil)
				switch {
				case res.IsConst("true"):
					if more == 1 && hit(pa) == 1 {
						return true, ""
					}
					return false, "the list is said to carry the marker although the entry at hand does not"
				case res.IsConst("false"):
					if more == -1 {
						return true, ""
					}
					return false, "the search gives up before the last entry: a marker that is not the first map entry of the list is overlooked"
				}
				return false, "the verdict for the whole list is the verdict for a single entry (" + truncate(res.String(), 50) + "): a marker placed after another map entry is overlooked"
			})
		pl.all("entries without the marker do not end the search", selectPaths(pl.paths, func(pa *Path) bool {
			return guardPol(pa, "itermore", mOp("range", lP), nil) == 1 && hit(pa) == -1
		}), "continue with the next entry", func(pa *Path) (bool, string) {
			if pa.End == "iter" {
				return true, ""
			}
			return false, "an entry without the marker ends the search (" + pa.End + ")"
		})
	}
}

// rulePopListMarker(rule): popListMapBoolValue(l, k, v) — the list form of the $output / $replace markers. When
// the list carries the marker, every entry that carries it is either the bare marker entry (removed) or an error
// (a marker next to other keys); it is never kept, and entries without the marker are kept as they are.
func rulePopListMarker(rule string) func(p *Prog, r *Result) {
	return func(p *Prog, r *Result) {
		pr := newPSRule(p, r, rule, "bkl.popListMapBoolValue", PSOpts{})
		kP, vP := mParam("k"), mParam("v")
		// the element the filtering loop (the last loop entered) is looking at
		cur := func(pa *Path) TM {
			n, loops := -1, map[int]bool{}
			for _, g := range pa.Guards {
				if g.Kind == "itermore" && !g.Neg && g.A != nil && g.A.Op == "range" {
					n = g.A.N
					loops[g.A.N] = true
				}
			}
			if len(loops) < 2 {
				return nil // still in the search that decides whether the list carries the marker at all
			}
			return func(t *T) bool { return t != nil && t.Op == "elem" && t.N == n }
		}
		marker := func(pa *Path, el TM) int {
			m := guardPol(pa, "kind", el, "map")
			h := guardPol(pa, "has", el, TM(kP))
			b := guardPol(pa, "kind", mLookup(el, kP), "bool")
			e := guardPol(pa, "eq", mOr(mLookup(el, kP), vP), nil)
			if m == 1 && h == 1 && b == 1 && e == 1 {
				return 1
			}
			if m == -1 || h == -1 || b == -1 || e == -1 {
				return -1
			}
			return 0
		}
		inFilter := selectPaths(pr.paths, func(pa *Path) bool { return cur(pa) != nil && (pa.End == "iter" || isFailure(pa)) })
		kept := func(pa *Path, el TM) (n int, self bool) {
			self = true
			for _, c := range pa.Carried {
				if c.Op != "append" || len(c.Args) != 2 || c.Args[1].IsNil() {
					continue
				}
				if c.Args[1].Op == "lit" {
					for _, x := range c.Args[1].Args {
						n++
						if !el(x) {
							self = false
						}
					}
					continue
				}
				n++
				self = false
			}
			return
		}
		pr.all("an entry carrying the marker is removed when it is the bare marker, an error when it has other keys, never kept", selectPaths(inFilter, func(pa *Path) bool { return marker(pa, cur(pa)) == 1 }),
			"dropped with no other keys; ErrExtraKeys otherwise", func(pa *Path) (bool, string) {
				el := cur(pa)
				if isFailure(pa) {
					if wraps(lastResult(pa), "ErrExtraKeys") {
						return true, ""
					}
					return false, "unexpected error " + errClass(lastResult(pa))
				}
				if n, _ := kept(pa, el); n != 0 {
					return false, "an entry that carries the marker next to other keys stays in the list while the list is treated as marked: the whole list is selected (or hidden) although no marker entry asked for it"
				}
				bare := false
				for _, g := range pa.Guards {
					if g.Kind == "len" && g.Const == "==0" && !g.Neg {
						bare = true
					}
					if g.Kind == "len" && g.Const == "==1" && !g.Neg && g.A != nil && el(g.A) {
						bare = true
					}
				}
				if !bare {
					return false, "a marker entry with other keys is dropped silently"
				}
				return true, ""
			})
		pr.all("an entry is kept only when it is known not to carry the marker", selectPaths(inFilter, func(pa *Path) bool {
			n, _ := kept(pa, cur(pa))
			return pa.End == "iter" && n > 0
		}), "kept entries were tested: not a map, key absent, not a boolean, or the other value", func(pa *Path) (bool, string) {
			if marker(pa, cur(pa)) == -1 {
				return true, ""
			}
			return false, "an entry is kept without looking whether it carries the marker (for instance because it has other keys): the list counts as marked although that entry stays in it"
		})
		pr.all("entries without the marker are kept as they are", selectPaths(inFilter, func(pa *Path) bool { return marker(pa, cur(pa)) == -1 }), "appended unchanged", func(pa *Path) (bool, string) {
			if isFailure(pa) {
				return false, "an entry without the marker is an error"
			}
			if n, self := kept(pa, cur(pa)); n != 1 || !self {
				return false, "an entry without the marker is dropped or altered"
			}
			return true, ""
		})
	}
}

// ruleStripMarker(rule): popListString(l, v) removes every entry equal to v, keeps all others in order and
// reports whether anything was removed. It is what clears a parent list's "$required" (and recognises the
// "$replace" string marker), so a marker that survives it reaches the validator — or bklr's skeleton —
// although it was overridden.
func ruleStripMarker(rule string) func(p *Prog, r *Result) {
	return func(p *Prog, r *Result) {
		pr := newPSRule(p, r, rule, "bkl.popListString", PSOpts{})
		lP, vP := mParam("l"), mParam("v")
		el := mElemOf(lP)
		iter := selectPaths(pr.paths, func(pa *Path) bool { return pa.End == "iter" && guardPol(pa, "itermore", mOp("range", lP), nil) == 1 })
		appended := func(pa *Path) (int, bool) {
			n, self := 0, true
			for _, c := range pa.Carried {
				if c.Op != "append" || len(c.Args) != 2 {
					continue
				}
				a := c.Args[1]
				if a.IsNil() {
					continue
				}
				if a.Op == "lit" {
					for _, x := range a.Args {
						n++
						if !el(x) {
							self = false
						}
					}
					continue
				}
				n++
				self = false
			}
			return n, self
		}
		isMarker := func(pa *Path) int {
			k := guardPol(pa, "kind", TM(el), "string")
			e := guardPol(pa, "eq", mOr(TM(el), vP), nil)
			if k == 1 && e == 1 {
				return 1
			}
			if k == -1 || e == -1 {
				return -1
			}
			return 0
		}
		pr.all("every entry equal to the marker is removed, wherever it stands", selectPaths(iter, func(pa *Path) bool { return isMarker(pa) == 1 }), "nothing is appended for it and the found flag is raised", func(pa *Path) (bool, string) {
			if n, _ := appended(pa); n != 0 {
				return false, "an entry equal to the marker is kept"
			}
			if !hasEffect(pa, "cellset") {
				for _, c := range pa.Carried {
					if c.IsConst("true") {
						return true, ""
					}
				}
				return false, "a removed marker is not reported as found"
			}
			return true, ""
		})
		pr.all("every other entry is kept, once, in place", selectPaths(iter, func(pa *Path) bool { return isMarker(pa) == -1 }), "exactly the entry itself is appended", func(pa *Path) (bool, string) {
			n, self := appended(pa)
			if n == 1 && self {
				return true, ""
			}
			return false, fmt.Sprintf("an entry that is not the marker is not carried over unchanged (%d values appended)", n)
		})
		pr.all("the whole list is examined", selectPaths(pr.paths, func(pa *Path) bool { return pa.End == "return" }), "the result is returned only after the last entry", func(pa *Path) (bool, string) {
			if guardPol(pa, "itermore", mOp("range", lP), nil) == -1 && pa.Results[1].Op == "carried" {
				return true, ""
			}
			return false, "the result is produced before every entry was examined, or is not the filtered list: a second marker survives"
		})
	}
}

// ruleSmallContracts(rule, which...): one-line helpers whose meaning other rules assume.
//
//	matchdoc : matchDoc(doc, pat) is match(doc.Data, pat)
//	getcopy  : getCopy resolves the reference against (current document, document list) and returns a deep copy of what it found
//	getformat: GetFormat(name) is the entry of the format table under exactly that name, unknown names are errors
//	stdin    : isStdin(path) compares the base name without its extension with "-"
func ruleSmallContracts(rule string, which ...string) func(p *Prog, r *Result) {
	return func(p *Prog, r *Result) {
		for _, w := range which {
			switch w {
			case "matchdoc":
				pr := newPSRule(p, r, rule, "bkl.matchDoc", PSOpts{NoInline: map[string]bool{"bkl.match": true}})
				pr.all("a document matches a pattern exactly when its data does", pr.paths, "match(doc.Data, pat)", func(pa *Path) (bool, string) {
					want := mCall("bkl.match", mOp("field", mParam("doc")), mParam("pat"))
					if pa.End == "return" && want(pa.Results[0]) {
						return true, ""
					}
					return false, "the document's data is not what is matched against the pattern: " + truncate(pa.Results[0].String(), 70)
				})
			case "getcopy":
				pr := newPSRule(p, r, rule, "bkl.getCopy", PSOpts{NoInline: map[string]bool{"bkl.get": true, "bkl.deepClone": true}})
				g := mCall("bkl.get", mParam("mergeFrom"), mParam("mergeFromDocs"), mParam("v"))
				pr.all("the copy handed out is a deep copy of exactly what the reference resolves to", pr.paths, "get(mergeFrom, mergeFromDocs, v), error propagated, deepClone of its result", func(pa *Path) (bool, string) {
					if !hasCallEffect(pa, "bkl.get", mParam("mergeFrom"), mParam("mergeFromDocs"), mParam("v")) {
						return false, "the reference is not resolved against the current document and the document list"
					}
					switch guardPol(pa, "err", g, nil) {
					case 1:
						if isFailure(pa) && mResOf(1, g)(lastResult(pa)) {
							return true, ""
						}
						return false, "a reference that does not resolve is not an error"
					case -1:
						c := mCall("bkl.deepClone", mResOf(0, g))
						if mResOf(0, c)(pa.Results[0]) && mResOf(1, c)(lastResult(pa)) {
							return true, ""
						}
						return false, "what is returned is not a deep copy of the resolved value: " + truncate(pa.Results[0].String(), 70)
					}
					return false, "the lookup's error is not checked"
				})
			case "getformat":
				pr := newPSRule(p, r, rule, "bkl.GetFormat", PSOpts{})
				tbl := func(t *T) bool { return t.Op == "global" && t.Name == "formatByExtension" }
				pr.all("a format is found under exactly the name asked for", pr.paths, "formatByExtension[name], else ErrUnknownFormat", func(pa *Path) (bool, string) {
					switch guardPol(pa, "has", tbl, TM(mParam("name"))) {
					case 1:
						if !isSuccess(pa) {
							return false, "a known format name is rejected"
						}
						for _, e := range pa.Effects {
							if e.Kind == "ptrset" && len(e.Args) == 2 && e.Args[0].String() == pa.Results[0].String() && mLookup(tbl, mParam("name"))(e.Args[1]) {
								return true, ""
							}
						}
						if mLookup(tbl, mParam("name"))(pa.Results[0]) {
							return true, ""
						}
						return false, "the format returned is not the table entry of that name"
					case -1:
						if isFailure(pa) && wraps(lastResult(pa), "ErrUnknownFormat") {
							return true, ""
						}
						return false, "an unknown format name is accepted"
					}
					return false, "the name is not looked up in the format table"
				})
			case "pophelpers":
				// the pop*/get*/has* helpers of util.go look at (and pop from a copy of) their argument: the tree they
				// are handed — a live document during evaluation, the shared body of a $repeat — is never written
				o := p.Own()
				n := 0
				for _, fn := range p.Funcs {
					pk := fnPkg(fn)
					if pk == nil || shortPkg(pk.Pkg.Path()) != "bkl" || fn.Parent() != nil || len(fn.Params) == 0 {
						continue
					}
					name := p.FuncName(fn)
					base := strings.TrimPrefix(name, "bkl.")
					if !(strings.HasPrefix(base, "pop") || strings.HasPrefix(base, "has") || strings.HasPrefix(base, "get")) || strings.Contains(base, ".") {
						continue
					}
					if _, pinned := loadAnchors().Params[name]; !pinned {
						continue // a helper added later: its contract is not one the rules rely on
					}
					// the lookup family (get, getPath*, getCross*, getWithVar ...) reads every argument: the reference's own
					// argument map is part of the document too
					allParams := strings.HasPrefix(base, "get") && !strings.HasPrefix(base, "getMap") && !strings.HasPrefix(base, "getList")
					for i, q := range fn.Params {
						if (i > 0 && !allParams) || !isRefType(q.Type()) {
							continue
						}
						if pt, isPtr := q.Type().Underlying().(*types.Pointer); isPtr {
							if _, isStruct := pt.Elem().Underlying().(*types.Struct); isStruct && i > 0 {
								// documents and contexts handed along: what may be written through them is other rules' business
								continue
							}
						}
						n++
						key := name + " / leaves its argument as it found it"
						if i > 0 {
							key = fmt.Sprintf("%s / leaves argument %s as it found it", name, p.ParamName(q))
						}
						if mut, why := o.Mut(fn, i); mut {
							r.Fail(rule, key, p.Pos(fn.Pos()), "the helper writes into the container it is handed ("+why+"): popping a marker or directive key changes the caller's tree (a referenced subtree, the argument of a reference, the body shared by the copies of a $repeat, a document kept by the parser)")
						} else {
							r.OK(rule, key, p.Pos(fn.Pos()), "no write reaches the parameter (mutation summary)")
						}
					}
				}
				r.Floor(rule, "pop/has/get helpers examined", n, 8)
			case "stdin":
				pr := newPSRule(p, r, rule, "bkl.isStdin", PSOpts{})
				pr.all("only the name - (with any extension) stands for standard input", pr.paths, `a comparison of the path's base name, minus its extension, with "-"`, func(pa *Path) (bool, string) {
					res := pa.Results[0]
					if res.Op == "binop" && res.Name == "==" {
						for i := 0; i < 2; i++ {
							if mStr("-")(res.Args[i]) && len(res.Args[1-i].Find(func(t *T) bool { return t.Op == "call" && t.Name == "path/filepath.Base" && t.Args[0].IsParam("path") })) > 0 {
								return true, ""
							}
						}
					}
					if g := guardPol(pa, "streq", func(t *T) bool {
						return len(t.Find(func(x *T) bool { return x.Op == "call" && x.Name == "path/filepath.Base" })) > 0
					}, q("-")); g != 0 && (res.IsConst("true") || res.IsConst("false")) && (g == 1) == res.IsConst("true") {
						return true, ""
					}
					return false, "standard input is recognised by something other than the base name being -: " + truncate(res.String(), 70)
				})
			}
		}
	}
}
