package main

// C03 — the inheritance chain is resolved from filenames and $parent, base first.

import (
	"strings"
)

func ruleC03(p *Prog, r *Result) {
	// --- order: parents (each with its own chain) first, the file itself last
	lf := newPSRule(p, r, "C03.order", "bkl.(*Parser).loadFileAndParents", PSOpts{NoInline: map[string]bool{"bkl.(*Parser).loadFile": true, "bkl.(*file).parents": true}})
	f := mResOf(0, mCall("bkl.(*Parser).loadFile", mParam("p"), mParam("path"), mParam("child")))
	parents := mResOf(0, mCall("bkl.(*file).parents", f))
	rec := mCall("bkl.(*Parser).loadFileAndParents", mParam("p"), mElemOf(parents), f)
	lf.all("the resolved chain is every parent's chain, in the order the parents are named, followed by the file itself", selectPaths(lf.paths, isSuccess), "files = concat(chain(parent_i)...) + [f]", func(pa *Path) (bool, string) {
		res := pa.Results[0]
		if res.Op != "append" || len(res.Args) != 2 || res.Args[0].Op != "carried" || res.Args[1].Op != "lit" || len(res.Args[1].Args) != 1 || !f(res.Args[1].Args[0]) {
			return false, "the file itself is not the last element of its chain: " + res.String()
		}
		acc := res.Args[0]
		info := lf.carried[acc.N]
		if info.Init == nil || info.Init.Op != "lit" || len(info.Init.Args) != 0 {
			return false, "the chain does not start empty"
		}
		for _, s := range info.Src {
			if s.Op == "carried" && s.N == acc.N {
				continue
			}
			if s.Op != "append" || s.Args[0].String() != acc.String() || !mResOf(0, rec)(s.Args[1]) {
				return false, "a parent's chain is not appended after the chains of the parents named before it: " + s.String()
			}
		}
		if guardPol(pa, "itermore", mOp("range", parents), nil) != -1 {
			return false, "not every parent was loaded"
		}
		return true, ""
	})
	lf.all("every parent is loaded recursively with this file as its child; a failure aborts", selectPaths(lf.paths, func(pa *Path) bool {
		return guardPol(pa, "itermore", mOp("range", parents), nil) == 1
	}), "loadFileAndParents(parent, f)", func(pa *Path) (bool, string) {
		if !hasCallEffect(pa, "bkl.(*Parser).loadFileAndParents", mParam("p"), mElemOf(parents), f) {
			return false, "a parent is not loaded (or not with this file as its child)"
		}
		g := guardPol(pa, "err", rec, nil)
		if g == 1 && !isFailure(pa) {
			return false, "a parent that fails to load is skipped"
		}
		if g == 0 {
			return false, "the result of loading a parent is not checked"
		}
		return true, ""
	})
	// MergeFileLayers merges in index order
	ml := newPSRule(p, r, "C03.order", "bkl.(*Parser).MergeFileLayers", PSOpts{NoInline: map[string]bool{"bkl.(*Parser).loadFileAndParents": true, "bkl.(*Parser).mergeFile": true}})
	files := mResOf(0, mCall("bkl.(*Parser).loadFileAndParents", mParam("p"), mParam("path"), mNil()))
	ml.all("the chain is merged base first", selectPaths(ml.paths, func(pa *Path) bool { return guardPol(pa, "itermore", mOp("range", files), nil) == 1 }), "for f in chain (index order): mergeFile(f); an error aborts", func(pa *Path) (bool, string) {
		if !hasCallEffect(pa, "bkl.(*Parser).mergeFile", mParam("p"), mElemOf(files)) {
			return false, "a file of the chain is not merged"
		}
		g := guardPol(pa, "err", mCall("bkl.(*Parser).mergeFile"), nil)
		if g == 1 && !isFailure(pa) {
			return false, "a file that fails to merge is skipped"
		}
		if g == 0 {
			return false, "the merge result is not checked"
		}
		return true, ""
	})
	// --- priority: directive, then symlink, then filename
	pp := newPSRule(p, r, "C03.priority", "bkl.(*file).parents", PSOpts{NoInline: map[string]bool{"bkl.(*file).parentsFromDirective": true, "bkl.(*file).parentsFromSymlink": true, "bkl.(*file).parentsFromFilename": true}})
	dir := mCall("bkl.(*file).parentsFromDirective")
	sym := mCall("bkl.(*file).parentsFromSymlink")
	fnm := mCall("bkl.(*file).parentsFromFilename")
	pp.all("$parent wins over the symlink rule, which wins over the filename rule", selectPaths(pp.paths, func(pa *Path) bool { return pa.End == "return" }), "first non-nil of directive, symlink, filename", func(pa *Path) (bool, string) {
		res := pa.Results[0]
		switch {
		case isFailure(pa):
			return true, ""
		case mResOf(0, dir)(res):
			if guardPol(pa, "nil", mResOf(0, dir), nil) != -1 {
				return false, "the directive's result is used although it is nil"
			}
		case mResOf(0, sym)(res):
			if guardPol(pa, "nil", mResOf(0, dir), nil) != 1 || guardPol(pa, "nil", mResOf(0, sym), nil) != -1 {
				return false, "the symlink rule is used although the file has a $parent directive (or the rule gave nothing)"
			}
		case mResOf(0, fnm)(res):
			if guardPol(pa, "nil", mResOf(0, dir), nil) != 1 || guardPol(pa, "nil", mResOf(0, sym), nil) != 1 {
				return false, "the filename rule is used although a directive or symlink decides"
			}
		default:
			return false, "parents come from somewhere else: " + res.String()
		}
		return true, ""
	})
	// --- directive table
	pd := newPSRule(p, r, "C03.directive", "bkl.(*file).parentsFromDirective", PSOpts{NoInline: map[string]bool{"bkl.(*file).toAbsolutePaths": true, "bkl.(*Document).PopMapValue": true}})
	docs := func(t *T) bool { return t.Op == "field" && t.Name == "docs" }
	pop := mCall("bkl.(*Document).PopMapValue", mElemOf(docs), mStr("$parent"))
	val := mResOf(1, pop)
	iter := selectPaths(pd.paths, func(pa *Path) bool { return guardPol(pa, "itermore", mOp("range", docs), nil) == 1 })
	pd.all("$parent is removed from every document of the file", iter, "PopMapValue(\"$parent\") on each document", func(pa *Path) (bool, string) {
		if hasCallEffect(pa, "bkl.(*Document).PopMapValue", mElemOf(docs), mStr("$parent")) {
			return true, ""
		}
		return false, "a document keeps its $parent key"
	})
	pd.all("every document of the file is looked at: the loop over the documents is left early only with an error", selectPaths(iter, func(pa *Path) bool { return pa.End == "return" }), "no break / early success inside the loop", func(pa *Path) (bool, string) {
		if isFailure(pa) {
			return true, ""
		}
		return false, "the scan stops before the last document of the file: a $parent in a later document is neither honoured nor removed"
	})
	pd.all("$parent: true is an error", selectPaths(iter, func(pa *Path) bool {
		return guardPol(pa, "kind", val, "bool") == 1 && guardPol(pa, "truth", val, nil) == 1
	}), "ErrInvalidParent", func(pa *Path) (bool, string) {
		return isFailure(pa) && wraps(lastResult(pa), "ErrInvalidParent"), "$parent: true is accepted"
	})
	pd.all("a $parent list must hold strings only", selectPaths(iter, func(pa *Path) bool {
		return guardPol(pa, "kind", val, "list") == 1 && guardPol(pa, "kind", mElemOf(mIsRes(val)), "string") == -1
	}), "ErrInvalidParent", func(pa *Path) (bool, string) {
		return isFailure(pa) && wraps(lastResult(pa), "ErrInvalidParent"), "a non-string entry in a $parent list is accepted"
	})
	pd.some("a $parent string names one parent", iter, "parents += value", "a string $parent is ignored", func(pa *Path) bool {
		if guardPol(pa, "kind", val, "string") != 1 {
			return false
		}
		for _, v := range pa.Carried {
			if v.Op == "append" && len(v.Args) == 2 && v.Args[1].Op == "lit" && len(v.Args[1].Args) == 1 && val(v.Args[1].Args[0]) {
				return true
			}
		}
		return false
	})
	done := selectPaths(pd.paths, func(pa *Path) bool {
		return guardPol(pa, "itermore", mOp("range", docs), nil) == -1 && pa.End == "return"
	})
	// the names collected over the documents of the file only ever grow: what an earlier document named is
	// still there after a later document has been looked at (string or list form alike)
	acc := -1
	for _, pa := range done {
		for _, e := range pa.Effects {
			if e.Callee == "bkl.(*file).toAbsolutePaths" && len(e.Args) >= 2 && e.Args[1].Op == "carried" {
				acc = e.Args[1].N
			}
		}
	}
	if acc < 0 {
		r.Undecided("C03.directive", "bkl.(*file).parentsFromDirective / accumulator of named parents", pd.pos(), "the list handed to toAbsolutePaths is not a loop-carried accumulator")
	} else {
		pd.all("names given by different documents of one file accumulate", iter, "each document appends to the names collected so far", func(pa *Path) (bool, string) {
			for id, v := range pa.Carried {
				if id != acc {
					continue
				}
				if v.Op == "carried" && v.N == acc {
					continue
				}
				if v.Op == "append" && len(v.Args) == 2 && v.Args[0].Op == "carried" && v.Args[0].N == acc {
					continue
				}
				return false, "the names collected from earlier documents are replaced, not extended (" + truncate(v.String(), 70) + "): a layer named by an earlier document of the file is silently skipped"
			}
			return true, ""
		})
	}
	noParent := func(pa *Path) int {
		for _, g := range pa.Guards {
			if g.Kind == "truth" && g.A.Op == "carried" && raisedFlag(pd, g.A) {
				if g.Neg {
					return -1
				}
				return 1
			}
		}
		return 0
	}
	anyNamed := func(pa *Path) int {
		for _, g := range pa.Guards {
			if g.Kind == "len" && g.A.Op == "carried" && (g.Const == "==0" || g.Const == ">0") {
				v := -1
				if g.Neg != (g.Const == ">0") {
					v = 1
				}
				return v // +1: some parents named
			}
		}
		return 0
	}
	pd.all("false/null together with a named parent is a conflict", selectPaths(done, func(pa *Path) bool { return noParent(pa) == 1 && anyNamed(pa) == 1 }), "ErrConflictingParent", func(pa *Path) (bool, string) {
		return isFailure(pa) && wraps(lastResult(pa), "ErrConflictingParent"), "$parent: false next to a named $parent in the same file is accepted"
	})
	pd.all("false/null disables inheritance", selectPaths(done, func(pa *Path) bool { return noParent(pa) == 1 && anyNamed(pa) == -1 }), "returns an empty, non-nil list", func(pa *Path) (bool, string) {
		if isSuccess(pa) && pa.Results[0].Op == "lit" && len(pa.Results[0].Args) == 0 {
			return true, ""
		}
		return false, "$parent: false does not yield 'no parents' (a nil result would fall through to the filename rule)"
	})
	pd.all("no directive at all falls through to the other rules", selectPaths(done, func(pa *Path) bool { return noParent(pa) == -1 && anyNamed(pa) == -1 }), "returns nil", func(pa *Path) (bool, string) {
		return isSuccess(pa) && pa.Results[0].IsNil(), "a file without $parent does not fall through to the symlink/filename rules"
	})
	pd.all("named parents are resolved relative to the file", selectPaths(done, func(pa *Path) bool { return noParent(pa) == -1 && anyNamed(pa) == 1 }), "toAbsolutePaths(parents)", func(pa *Path) (bool, string) {
		if hasCallEffect(pa, "bkl.(*file).toAbsolutePaths", mParam("f")) && mCall("bkl.(*file).toAbsolutePaths")(pa.Results[0]) {
			return true, ""
		}
		return false, "named parents are not resolved"
	})
	// --- missing layers are errors
	pf := newPSRule(p, r, "C03.missing", "bkl.(*file).parentsFromFilename", PSOpts{NoInline: map[string]bool{"bkl.findFile": true}})
	ff := mCall("bkl.findFile")
	pf.all("a.b.<ext> inherits from a.<ext'>; if no such file exists that is an error", selectPaths(pf.paths, func(pa *Path) bool { return guardPol(pa, "streq", ff, q("")) != 0 }), "findFile == \"\" -> ErrMissingFile", func(pa *Path) (bool, string) {
		if guardPol(pa, "streq", ff, q("")) == 1 {
			return isFailure(pa) && wraps(lastResult(pa), "ErrMissingFile"), "a missing base layer is silently skipped"
		}
		res := pa.Results[0]
		if isSuccess(pa) && res.Op == "lit" && len(res.Args) == 1 && ff(res.Args[0]) {
			return true, ""
		}
		return false, "the parent is not the file found for the shortened name"
	})
	pf.some("the parent's name drops the last name component", pf.paths, "Join(dir, Join(parts[:len-2], \".\"))", "the filename rule no longer strips exactly one component", func(pa *Path) bool {
		for _, e := range pa.Effects {
			if e.Callee == "bkl.findFile" {
				s := e.Args[0].String()
				return strings.Contains(s, "path/filepath.Dir") && strings.Contains(s, "strings.Join") && strings.Contains(s, "binop<->(len(") && strings.Contains(s, ", 2)")
			}
		}
		return false
	})
	pf.all("a plain name.ext has no parent", selectPaths(pf.paths, func(pa *Path) bool {
		for _, g := range pa.Guards {
			if g.Kind == "len" && g.Const == "==2" && !g.Neg {
				return true
			}
		}
		return false
	}), "returns an empty list", func(pa *Path) (bool, string) {
		return isSuccess(pa) && pa.Results[0].Op == "lit" && len(pa.Results[0].Args) == 0, "name.ext is given a parent"
	})
	pt := newPSRule(p, r, "C03.missing", "bkl.(*file).toAbsolutePaths", PSOpts{NoInline: map[string]bool{"bkl.globFiles": true}})
	gl := mCall("bkl.globFiles")
	pt.all("a named parent that matches no file is an error", selectPaths(pt.paths, func(pa *Path) bool { return guardPol(pa, "len", mResOf(0, gl), "==0") == 1 }), "ErrMissingFile", func(pa *Path) (bool, string) {
		return isFailure(pa) && wraps(lastResult(pa), "ErrMissingFile"), "a $parent that matches nothing is silently skipped"
	})
	pt.all("named parents are looked up next to the file, in the order given", selectPaths(pt.paths, func(pa *Path) bool { return hasCallEffect(pa, "bkl.globFiles") }), "globFiles(Join(Dir(f.path), name))", func(pa *Path) (bool, string) {
		for _, e := range pa.Effects {
			if e.Callee == "bkl.globFiles" {
				a := e.Args[0]
				if a.Op == "call" && a.Name == "path/filepath.Join" && a.Args[0].Op == "lit" && len(a.Args[0].Args) == 2 && mCall("path/filepath.Dir")(a.Args[0].Args[0]) && mElemOf(mParam("paths"))(a.Args[0].Args[1]) {
					return true, ""
				}
				return false, "the lookup path is " + a.String()
			}
		}
		return false, ""
	})
	// --- glob: wildcard does not cross dots; only supported extensions
	pg := newPSRule(p, r, "C03.glob", "bkl.globFiles", PSOpts{})
	pg.all("a wildcard match is kept only if it has as many dots as the pattern and a supported extension", selectPaths(pg.paths, func(pa *Path) bool { return pa.End == "iter" }), "Count(match, \".\") == Count(pattern, \".\") && ext in formats", func(pa *Path) (bool, string) {
		kept := false
		for _, v := range pa.Carried {
			if v.Op == "append" {
				kept = true
			}
		}
		dots := 0
		for _, g := range pa.Guards {
			if g.Kind == "eq" && strings.Contains(g.A.String(), "strings.Count") && g.B != nil && strings.Contains(g.B.String(), "strings.Count") {
				dots = 1
				if g.Neg {
					dots = -1
				}
			}
		}
		sup := 0
		for _, g := range pa.Guards {
			if g.Kind == "has" && g.A.Op == "global" && g.A.Name == "formatByExtension" {
				sup = 1
				if g.Neg {
					sup = -1
				}
			}
		}
		if kept && !(dots == 1 && sup == 1) {
			return false, "a match is kept without both tests (dots, supported extension) succeeding"
		}
		if !kept && dots == 1 && sup == 1 {
			return false, "a valid match is dropped"
		}
		return true, ""
	})
	// --- symlink
	ps := newPSRule(p, r, "C03.symlink", "bkl.(*file).parentsFromSymlink", PSOpts{NoInline: map[string]bool{"bkl.(*file).parentsFromFilename": true, "bkl.isStdin": true}})
	ev := mCall("path/filepath.EvalSymlinks")
	ps.all("a regular file is not a link; a link inherits from its target's name", selectPaths(ps.paths, func(pa *Path) bool { return guardPol(pa, "err", ev, nil) == -1 }), "dest == path -> nil; else f.path = dest and the filename rule applies", func(pa *Path) (bool, string) {
		same := 0
		for _, g := range pa.Guards {
			if g.Kind == "eq" && (mResOf(0, ev)(g.A) || mResOf(0, ev)(g.B)) {
				same = 1
				if g.Neg {
					same = -1
				}
			}
		}
		switch same {
		case 1:
			return isSuccess(pa) && pa.Results[0].IsNil(), "a file that is not a link does not fall through"
		case -1:
			set := false
			for _, e := range pa.Effects {
				if e.Kind == "fieldset" && strings.HasSuffix(e.Callee, "file.path") && mResOf(0, ev)(e.Args[1]) {
					set = true
				}
			}
			if !set || !hasCallEffect(pa, "bkl.(*file).parentsFromFilename", mParam("f")) {
				return false, "the target's name is not what the filename rule is applied to"
			}
			return true, ""
		}
		return false, "the resolved path is not compared with the original"
	})
}

// mIsRes adapts a matcher for use as the collection of mElemOf.
func mIsRes(m TM) TM { return m }

// ruleC03Strip: $parent never reaches the merge (MergeFile path, -P).
func ruleC03Strip(p *Prog, r *Result) {
	pr := newPSRule(p, r, "C03.strip", "bkl.(*Parser).MergeFile", PSOpts{NoInline: map[string]bool{"bkl.(*Parser).loadFile": true, "bkl.(*Parser).mergeFile": true, "bkl.(*Document).PopMapValue": true, "bkl.(*file).parentsFromDirective": true, "bkl.(*file).parents": true}})
	f := mResOf(0, mCall("bkl.(*Parser).loadFile"))
	merging := selectPaths(pr.paths, func(pa *Path) bool { return hasCallEffect(pa, "bkl.(*Parser).mergeFile") })
	pr.all("MergeFile (-P) removes $parent from the file's documents before merging them", merging, "$parent popped from every document of f before mergeFile(f)", func(pa *Path) (bool, string) {
		// either an explicit loop popping $parent over f.docs that ran to completion, or a call that does so
		if hasCallEffect(pa, "bkl.(*file).parentsFromDirective", f) || hasCallEffect(pa, "bkl.(*file).parents", f) {
			return true, ""
		}
		docs := func(t *T) bool { return t.Op == "field" && t.Name == "docs" && f(t.Args[0]) }
		if guardPol(pa, "itermore", mOp("range", docs), nil) == -1 {
			// the loop exists; its iterations must pop
			for _, it := range pr.paths {
				if it.End == "iter" && guardPol(it, "itermore", mOp("range", docs), nil) == 1 {
					if !hasCallEffect(it, "bkl.(*Document).PopMapValue", mElemOf(docs), mStr("$parent")) {
						return false, "a document keeps its $parent"
					}
				}
			}
			return true, ""
		}
		return false, "with -P the $parent key stays in the data and evaluation fails with '$parent: invalid directive' (or the directive leaks into the output)"
	})
}

// raisedFlag: a loop-carried boolean that starts false and is only ever set to true.
func raisedFlag(pr *psRule, t *T) bool {
	info, ok := pr.carried[t.N]
	if !ok || info.Init == nil || !info.Init.IsConst("false") || len(info.Src) == 0 {
		return false
	}
	for _, s := range info.Src {
		if !(s.IsConst("true") || (s.Op == "carried" && s.N == t.N)) {
			return false
		}
	}
	return true
}
