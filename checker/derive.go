package main

// "derives from": which parameter of the enclosing top-level function a value is a projection
// of, and whether at least one strict projection (map element, slice element, strict suffix,
// acyclic struct field) lies in between. Used by the recursion audit (structural descent) and by
// the ownership engine.

import (
	"fmt"
	"go/token"
	"go/types"
	"reflect"
	"strings"

	"golang.org/x/tools/go/ssa"
)

// Deriv is one possible origin of a value.
type Deriv struct {
	Root    *ssa.Parameter // parameter (of the function under analysis or an enclosing one) the value is a projection of
	Leaf    bool           // constant, nil, or of basic type: cannot contain anything
	Fresh   bool           // freshly allocated container (make/literal/append result)
	Elems   []Deriv        // for Fresh: what was put in
	ElemsOK bool           // for Fresh: Elems is complete
	Unknown string         // non-empty: derivation lost, with the reason
	Strict  bool           // at least one strict projection between Root and the value
	Source  *ssa.Call      // the value is (a projection of) the result of this call to an alias source (e.g. bkl.get)
	ExtOut  bool           // Fresh: filled in by an external function through an out-parameter or returned by one
}

func (d Deriv) String() string {
	switch {
	case d.Source != nil:
		return "aliasOf(" + d.Source.Common().StaticCallee().Name() + ")"
	case d.Unknown != "":
		return "unknown(" + d.Unknown + ")"
	case d.Leaf:
		return "leaf"
	case d.Fresh:
		if !d.ElemsOK {
			return "fresh{?}"
		}
		s := "fresh{"
		for i, e := range d.Elems {
			if i > 0 {
				s += ","
			}
			s += e.String()
		}
		return s + "}"
	case d.Root != nil:
		s := "same"
		if d.Strict {
			s = "strict"
		}
		return fmt.Sprintf("%s(%s.%s)", s, d.Root.Parent().Name(), d.Root.Name())
	}
	return "?"
}

// acyclicFields: struct fields through which a projection is a strict descent in an acyclic
// structure. yaml.Node.Alias is deliberately absent (an anchor can contain its own alias).
var acyclicFields = map[string]string{
	"gopkg.in/yaml.v3.Node.Content":            "children of a parsed YAML node form a tree",
	"github.com/gopatchy/bkl.Document.Data":    "document data is a decoded tree",
	"github.com/gopatchy/bkl.Document.Parents": "parent links are only created from a child layer's documents to its parent layer's documents and from a patch to documents already merged (C08.parents rule checks the writers); acyclic unless the API is misused with the same *Document merged into itself",
	"github.com/gopatchy/bkl.file.docs":        "documents of a loaded file",
}

type summaryKey struct {
	fn          *ssa.Function
	idx         int
	allFields   bool
	termination bool
}

type deriver struct {
	p     *Prog
	g     *CallGraph
	depth int
	seen  map[ssa.Value]bool
	// SCC of the function under analysis: results of calls into it are not summarised
	scc func(*ssa.Function) bool
	// calls currently being summarised (innermost last): resolves applicator parameters
	ctx []*ssa.CallCommon
	// functions whose result is an alias into live data and must be tracked as a Source
	aliasSources map[string]bool
	// follow every struct field (ownership analyses), not only the acyclic ones (termination)
	allFields bool
}

func (p *Prog) Derive(v ssa.Value, inSCC func(*ssa.Function) bool) []Deriv {
	d := &deriver{p: p, g: p.CG(), seen: map[ssa.Value]bool{}, scc: inSCC}
	return dedupDerivs(d.derive(v))
}

func dedupDerivs(ds []Deriv) []Deriv {
	var out []Deriv
	seen := map[string]bool{}
	for _, d := range ds {
		k := fmt.Sprintf("%p|%v|%s|%v|%s", d.Root, d.Leaf, d.Unknown, d.Strict, d.String())
		if !seen[k] {
			seen[k] = true
			out = append(out, d)
		}
	}
	return out
}

func strictAll(ds []Deriv) []Deriv {
	var out []Deriv
	for _, d := range ds {
		if d.Fresh {
			// projecting out of a fresh container yields exactly what was put in
			if !d.ElemsOK {
				out = append(out, Deriv{Unknown: "element of a fresh container whose contents are not tracked"})
				continue
			}
			out = append(out, d.Elems...)
			continue
		}
		if d.Root != nil || d.Source != nil {
			d.Strict = true
		}
		out = append(out, d)
	}
	return out
}

// elemsOf: the elements of a slice-like value, for append.
func elemsOf(ds []Deriv) ([]Deriv, bool) {
	var out []Deriv
	ok := true
	for _, d := range ds {
		switch {
		case d.Fresh:
			if !d.ElemsOK {
				ok = false
			}
			out = append(out, d.Elems...)
		case d.Leaf:
		case d.Root != nil:
			d.Strict = true
			out = append(out, d)
		default:
			out = append(out, d)
		}
	}
	return dedupDerivs(out), ok
}

// subst replaces roots (parameters of a summarised callee) by the derivations of the actuals.
func subst(d Deriv, actual func(*ssa.Parameter) []Deriv) []Deriv {
	switch {
	case d.Root != nil:
		var out []Deriv
		for _, ad := range actual(d.Root) {
			switch {
			case ad.Root != nil:
				ad.Strict = ad.Strict || d.Strict
				out = append(out, ad)
			case ad.Fresh && d.Strict:
				if !ad.ElemsOK {
					out = append(out, Deriv{Unknown: "element of a fresh container whose contents are not tracked"})
				} else {
					out = append(out, ad.Elems...)
				}
			default:
				out = append(out, ad)
			}
		}
		return out
	case d.Fresh:
		nd := Deriv{Fresh: true, ElemsOK: d.ElemsOK, ExtOut: d.ExtOut}
		for _, e := range d.Elems {
			nd.Elems = append(nd.Elems, subst(e, actual)...)
		}
		nd.Elems = dedupDerivs(nd.Elems)
		return []Deriv{nd}
	}
	return []Deriv{d}
}

func isBasic(t types.Type) bool {
	b, ok := t.Underlying().(*types.Basic)
	return ok && b.Kind() != types.UnsafePointer && b.Kind() != types.UntypedNil
}

func unknownD(format string, a ...any) []Deriv {
	return []Deriv{{Unknown: fmt.Sprintf(format, a...)}}
}

func (d *deriver) derive(v ssa.Value) []Deriv {
	if v == nil {
		return unknownD("nil value")
	}
	if _, ok := v.(*ssa.Const); ok {
		return []Deriv{{Leaf: true}}
	}
	if isBasic(v.Type()) {
		return []Deriv{{Leaf: true}}
	}
	if d.seen[v] {
		return nil // cycle through phi: contributes nothing new
	}
	d.seen[v] = true
	defer delete(d.seen, v)
	d.depth++
	defer func() { d.depth-- }()
	if d.depth > 60 {
		return unknownD("derivation too deep")
	}

	switch x := v.(type) {
	case *ssa.Parameter:
		fn := x.Parent()
		if fn.Parent() == nil {
			return []Deriv{{Root: x}}
		}
		return d.closureParam(fn, x)
	case *ssa.FreeVar:
		var out []Deriv
		for _, b := range d.bindings(x) {
			out = append(out, d.derive(b)...)
		}
		if len(out) == 0 {
			return unknownD("free variable %s has no binding", x.Name())
		}
		return out
	case *ssa.MakeInterface:
		return d.derive(x.X)
	case *ssa.ChangeInterface:
		return d.derive(x.X)
	case *ssa.ChangeType:
		return d.derive(x.X)
	case *ssa.Convert:
		return d.derive(x.X)
	case *ssa.TypeAssert:
		return d.derive(x.X)
	case *ssa.Lookup:
		return strictAll(d.derive(x.X))
	case *ssa.Index:
		return strictAll(d.derive(x.X))
	case *ssa.Phi:
		var out []Deriv
		for _, e := range x.Edges {
			out = append(out, d.derive(e)...)
		}
		return out
	case *ssa.Slice:
		if al, ok := x.X.(*ssa.Alloc); ok {
			// slice of a fresh array: a literal; its elements are what was stored
			return []Deriv{d.freshArray(al)}
		}
		base := d.derive(x.X)
		if c, ok := x.Low.(*ssa.Const); ok && c.Value != nil && c.Int64() >= 1 {
			return strictAll(base)
		}
		return base
	case *ssa.MakeMap:
		return []Deriv{d.freshContainer(x)}
	case *ssa.MakeSlice:
		return []Deriv{d.freshContainer(x)}
	case *ssa.Alloc:
		return []Deriv{{Fresh: true}}
	case *ssa.UnOp:
		return d.load(x.X)
	case *ssa.Extract:
		switch t := x.Tuple.(type) {
		case *ssa.TypeAssert:
			if x.Index == 0 {
				return d.derive(t.X)
			}
		case *ssa.Lookup:
			if x.Index == 0 {
				return strictAll(d.derive(t.X))
			}
		case *ssa.Next:
			if rg, ok := t.Iter.(*ssa.Range); ok && x.Index >= 1 {
				return strictAll(d.derive(rg.X))
			}
		case *ssa.Call:
			return d.callResult(t, x.Index)
		}
		return unknownD("extract from %T", x.Tuple)
	case *ssa.Call:
		return d.callResult(x, 0)
	case *ssa.Global:
		return unknownD("global %s", x.Name())
	case *ssa.MakeClosure, *ssa.Function:
		return []Deriv{{Leaf: true}}
	case *ssa.FieldAddr, *ssa.IndexAddr:
		return unknownD("address value %s", v.Name())
	}
	return unknownD("unmodelled value %T", v)
}

func (d *deriver) bindings(fv *ssa.FreeVar) []ssa.Value {
	fn := fv.Parent()
	idx := -1
	for i, f := range fn.FreeVars {
		if f == fv {
			idx = i
		}
	}
	par := fn.Parent()
	if idx < 0 || par == nil {
		return nil
	}
	var out []ssa.Value
	for _, b := range par.Blocks {
		for _, in := range b.Instrs {
			if mc, ok := in.(*ssa.MakeClosure); ok && mc.Fn == fn {
				out = append(out, mc.Bindings[idx])
			}
		}
	}
	return out
}

// cellStores returns every value stored into the cell (Alloc), in its function and in all
// closures that capture it.
func cellStores(a ssa.Value) []ssa.Value {
	var out []ssa.Value
	visited := map[ssa.Value]bool{}
	var visit func(v ssa.Value)
	visit = func(v ssa.Value) {
		if visited[v] {
			return
		}
		visited[v] = true
		refs := v.Referrers()
		if refs == nil {
			return
		}
		for _, ref := range *refs {
			switch r := ref.(type) {
			case *ssa.Store:
				if r.Addr == v {
					out = append(out, r.Val)
				}
			case *ssa.MakeClosure:
				cfn := r.Fn.(*ssa.Function)
				for i, bnd := range r.Bindings {
					if bnd == v {
						visit(cfn.FreeVars[i])
					}
				}
			}
		}
	}
	visit(a)
	return out
}

// cellRoot maps a pointer-to-cell value (Alloc or captured FreeVar) to the Alloc it denotes.
func (d *deriver) cellRoot(addr ssa.Value) *ssa.Alloc {
	switch a := addr.(type) {
	case *ssa.Alloc:
		return a
	case *ssa.FreeVar:
		for _, b := range d.bindings(a) {
			if al := d.cellRoot(b); al != nil {
				return al
			}
		}
	}
	return nil
}

func cellRootOf(p *Prog, addr ssa.Value) *ssa.Alloc {
	d := &deriver{p: p}
	return d.cellRoot(addr)
}

func (d *deriver) load(addr ssa.Value) []Deriv {
	switch a := addr.(type) {
	case *ssa.Alloc, *ssa.FreeVar:
		al := d.cellRoot(a)
		if al == nil {
			return unknownD("load through %s", addr.Name())
		}
		stores := cellStores(al)
		if len(stores) == 0 {
			if escapesToCall(al) {
				return []Deriv{{Fresh: true, ExtOut: true}} // filled in by a callee through its address
			}
			return []Deriv{{Leaf: true}} // zero value
		}
		var out []Deriv
		for _, s := range stores {
			out = append(out, d.derive(s)...)
		}
		return out
	case *ssa.IndexAddr:
		if al, ok := a.X.(*ssa.Alloc); ok {
			return strictAll([]Deriv{d.freshArray(al)})
		}
		return strictAll(d.derive(a.X))
	case *ssa.FieldAddr:
		key := fieldName(a)
		if _, ok := acyclicFields[key]; ok || d.allFields {
			return strictAll(d.derive(a.X))
		}
		return unknownD("field %s is not an acyclic projection", key)
	case *ssa.Global:
		return unknownD("global %s", a.Name())
	}
	return unknownD("load from %T", addr)
}

// pinnedField: the name the rules know field i of st by. Fields of the command-line option structs are bound to
// their flag by the struct tag, not by their Go name: a field tagged short:"r" is the root-path option whatever it
// is called, and the positional arguments are identified by their position. Every other field keeps its name.
var pinnedByShort = map[string]string{"o": "OutputPath", "f": "OutputFormat", "r": "RootPath", "P": "SkipParent", "v": "Verbose", "V": "Version", "c": "CPUProfile"}
var pinnedPositional = map[string][]string{"cmd/bkl": {"InputPaths"}, "cmd/bkld": {"BasePath", "TargetPath"}, "cmd/bkli": {"InputPaths"}, "cmd/bklr": {"InputPath"}}

func pinnedField(st *types.Struct, i int) string {
	f := st.Field(i)
	if f.Pkg() == nil || !isRepoPkgPath(f.Pkg().Path()) || !strings.HasPrefix(shortPkg(f.Pkg().Path()), "cmd/") {
		return f.Name()
	}
	tag := reflect.StructTag(st.Tag(i))
	if sh, ok := tag.Lookup("short"); ok {
		if n, ok := pinnedByShort[sh]; ok {
			return n
		}
	}
	if _, ok := tag.Lookup("positional-args"); ok {
		return "Positional"
	}
	if _, ok := tag.Lookup("positional-arg-name"); ok {
		// position among the positional fields of this struct
		pos := 0
		for j := 0; j < i; j++ {
			if _, ok := reflect.StructTag(st.Tag(j)).Lookup("positional-arg-name"); ok {
				pos++
			}
		}
		if names := pinnedPositional[shortPkg(f.Pkg().Path())]; pos < len(names) {
			return names[pos]
		}
	}
	return f.Name()
}

func fieldName(fa *ssa.FieldAddr) string {
	t := fa.X.Type().Underlying().(*types.Pointer).Elem()
	st := t.Underlying().(*types.Struct)
	name := pinnedField(st, fa.Field)
	if nt, ok := t.(*types.Named); ok {
		pk := ""
		if nt.Obj().Pkg() != nil {
			pk = nt.Obj().Pkg().Path() + "."
		}
		return pk + nt.Obj().Name() + "." + name
	}
	return t.String() + "." + name
}

// freshArray: a literal's backing array; its elements are what was stored into it.
func (d *deriver) freshArray(al *ssa.Alloc) Deriv {
	out := Deriv{Fresh: true, ElemsOK: true}
	refs := al.Referrers()
	if refs != nil {
		for _, ref := range *refs {
			switch r := ref.(type) {
			case *ssa.IndexAddr:
				for _, r2 := range *r.Referrers() {
					if st, ok := r2.(*ssa.Store); ok && st.Addr == r {
						out.Elems = append(out.Elems, d.derive(st.Val)...)
					}
				}
			case *ssa.Slice, *ssa.DebugRef:
			default:
				out.ElemsOK = false
			}
		}
	}
	out.Elems = dedupDerivs(out.Elems)
	return out
}

// freshContainer: a make(map)/make(slice); elements are the values stored through any alias
// (the value itself, or loads of a cell it was stored in).
func (d *deriver) freshContainer(mk ssa.Value) Deriv {
	out := Deriv{Fresh: true, ElemsOK: true}
	aliases := []ssa.Value{mk}
	seen := map[ssa.Value]bool{mk: true}
	for i := 0; i < len(aliases); i++ {
		a := aliases[i]
		refs := a.Referrers()
		if refs == nil {
			continue
		}
		for _, ref := range *refs {
			switch r := ref.(type) {
			case *ssa.MapUpdate:
				if r.Map == a {
					out.Elems = append(out.Elems, d.derive(r.Value)...)
				}
			case *ssa.IndexAddr:
				for _, r2 := range *r.Referrers() {
					if st, ok := r2.(*ssa.Store); ok && st.Addr == r {
						out.Elems = append(out.Elems, d.derive(st.Val)...)
					}
				}
			case *ssa.Store:
				if r.Val == a {
					if al := d.cellRoot(r.Addr); al != nil {
						for _, ld := range cellLoads(al) {
							if !seen[ld] {
								seen[ld] = true
								aliases = append(aliases, ld)
							}
						}
					} else {
						out.ElemsOK = false
					}
				}
			case *ssa.Lookup, *ssa.Range, *ssa.Return, *ssa.DebugRef, *ssa.MakeInterface, *ssa.Index, *ssa.Slice:
			case *ssa.Phi:
				// flows on; other stores through the phi are not tracked
			case ssa.CallInstruction:
				if b, ok := r.Common().Value.(*ssa.Builtin); ok && (b.Name() == "len" || b.Name() == "delete" || b.Name() == "append" || b.Name() == "cap") {
					continue
				}
				// handed to a callee: contents may be extended there, unless the callee visibly only reads that
				// parameter (ranges over it, indexes it, takes its length)
				if sc := r.Common().StaticCallee(); sc != nil && d.p != nil && d.p.InRepo(sc) && sc.Parent() == nil && !r.Common().IsInvoke() {
					writes := false
					for j, arg := range r.Common().Args {
						if arg == a && (j >= len(sc.Params) || !onlyReadsContainer(sc.Params[j], 0)) {
							writes = true
						}
					}
					if !writes {
						continue
					}
				}
				out.ElemsOK = false
			default:
			}
		}
	}
	out.Elems = dedupDerivs(out.Elems)
	return out
}

// cellLoads: every load of the cell, in its function and in closures capturing it.
func cellLoads(a *ssa.Alloc) []ssa.Value {
	var out []ssa.Value
	visited := map[ssa.Value]bool{}
	var visit func(v ssa.Value)
	visit = func(v ssa.Value) {
		if visited[v] {
			return
		}
		visited[v] = true
		refs := v.Referrers()
		if refs == nil {
			return
		}
		for _, ref := range *refs {
			switch r := ref.(type) {
			case *ssa.UnOp:
				if r.X == v {
					out = append(out, r)
				}
			case *ssa.MakeClosure:
				cfn := r.Fn.(*ssa.Function)
				for i, bnd := range r.Bindings {
					if bnd == v {
						visit(cfn.FreeVars[i])
					}
				}
			}
		}
	}
	visit(a)
	return out
}

func (d *deriver) callResult(c *ssa.Call, idx int) []Deriv {
	com := c.Common()
	if b, ok := com.Value.(*ssa.Builtin); ok {
		switch b.Name() {
		case "append":
			e1, ok1 := elemsOf(d.derive(com.Args[0]))
			e2, ok2 := elemsOf(d.derive(com.Args[1]))
			return []Deriv{{Fresh: true, Elems: dedupDerivs(append(e1, e2...)), ElemsOK: ok1 && ok2}}
		}
		return unknownD("builtin %s", b.Name())
	}
	if com.IsInvoke() {
		return unknownD("result of interface method call")
	}
	callee := com.StaticCallee()
	if callee == nil {
		return d.dynamicResult(com, idx)
	}
	full := callee.String()
	if o := callee.Origin(); o != nil {
		full = o.String()
	}
	switch full {
	case "maps.Clone", "slices.Clone", "golang.org/x/exp/slices.Clone", "golang.org/x/exp/maps.Clone":
		// shallow copy: a fresh top level whose elements are the argument's elements
		el, ok := elemsOf(d.derive(com.Args[0]))
		return []Deriv{{Fresh: true, Elems: el, ElemsOK: ok}}
	}
	if !d.p.InRepo(callee) || callee.Blocks == nil {
		return []Deriv{{Fresh: true, ExtOut: true, Unknown: ""}}
	}
	if d.aliasSources[d.p.FuncName(callee)] {
		return []Deriv{{Source: c}}
	}
	if d.scc != nil && d.p.FuncName(callee) == "bkl.deepClone" && idx == 0 {
		// termination measure only: a deep copy has the height of its argument (contract: rule C01.clone)
		return d.derive(com.Args[0])
	}
	if d.scc != nil && d.scc(callee) {
		return unknownD("result of recursive call to %s", d.p.FuncName(callee))
	}
	for _, x := range d.ctx {
		if x == com || x.StaticCallee() == callee {
			return unknownD("recursive summary")
		}
	}
	return d.summarise(callee, com, idx)
}

// summarise derives result idx of callee in its own context and substitutes the arguments of com.
func (d *deriver) summarise(callee *ssa.Function, com *ssa.CallCommon, idx int) []Deriv {
	cacheable := d.aliasSources == nil
	for _, par := range callee.Params {
		if _, isSig := par.Type().Underlying().(*types.Signature); isSig {
			cacheable = false
		}
	}
	key := summaryKey{callee, idx, d.allFields, d.scc != nil}
	var raw []Deriv
	if c, ok := d.p.summaryCache[key]; ok && cacheable {
		raw = c
	} else {
		d.ctx = append(d.ctx, com)
		// the summary is computed in the callee's own context: hide the caller's in-progress values
		savedSeen := d.seen
		d.seen = map[ssa.Value]bool{}
		for _, b := range callee.Blocks {
			ret, ok := b.Instrs[len(b.Instrs)-1].(*ssa.Return)
			if !ok || idx >= len(ret.Results) {
				continue
			}
			raw = append(raw, d.derive(retValue(ret, idx))...)
		}
		d.seen = savedSeen
		d.ctx = d.ctx[:len(d.ctx)-1]
		raw = dedupDerivs(raw)
		if cacheable {
			if d.p.summaryCache == nil {
				d.p.summaryCache = map[summaryKey][]Deriv{}
			}
			d.p.summaryCache[key] = raw
		}
	}
	if len(raw) == 0 {
		return unknownD("no return in %s", d.p.FuncName(callee))
	}
	actual := func(root *ssa.Parameter) []Deriv {
		pi := paramIndex(callee, root)
		if pi < 0 || pi >= len(com.Args) {
			return []Deriv{{Root: root}} // parameter of an enclosing function: leave it
		}
		return d.derive(com.Args[pi])
	}
	var out []Deriv
	for _, rd := range dedupDerivs(raw) {
		out = append(out, subst(rd, actual)...)
	}
	return out
}

// dynamicResult: result of calling a function value. If the value is an applicator parameter of a
// call being summarised, the actual closure is known.
func (d *deriver) dynamicResult(com *ssa.CallCommon, idx int) []Deriv {
	refs, ok := d.g.resolve(com.Value, map[ssa.Value]bool{})
	if !ok || len(refs) == 0 {
		return unknownD("result of unresolved dynamic call")
	}
	var out []Deriv
	for _, r := range refs {
		var targets []*ssa.Function
		if r.param < 0 {
			targets = []*ssa.Function{r.fn}
		} else {
			found := false
			for i := len(d.ctx) - 1; i >= 0 && !found; i-- {
				cc := d.ctx[i]
				sc := cc.StaticCallee()
				if sc == nil || sc != r.fn || r.param >= len(cc.Args) {
					continue
				}
				found = true
				crefs, cok := d.g.resolve(cc.Args[r.param], map[ssa.Value]bool{})
				if !cok {
					return unknownD("applicator argument unresolved")
				}
				for _, cr := range crefs {
					if cr.param >= 0 {
						return unknownD("applicator argument is itself a parameter")
					}
					targets = append(targets, cr.fn)
				}
			}
			if !found {
				return unknownD("result of calling parameter %d of %s outside a summarised call", r.param, d.p.FuncName(r.fn))
			}
		}
		for _, t := range targets {
			if !d.p.InRepo(t) || t.Blocks == nil {
				out = append(out, Deriv{Unknown: "result of external function value"})
				continue
			}
			if d.scc != nil && d.scc(t) && t.Parent() == nil {
				out = append(out, Deriv{Unknown: "result of recursive call"})
				continue
			}
			if t.Parent() == nil {
				out = append(out, d.summarise(t, com, idx)...)
				continue
			}
			// closure: its parameters are resolved through the applicator contract by closureParam
			for _, b := range t.Blocks {
				ret, ok := b.Instrs[len(b.Instrs)-1].(*ssa.Return)
				if !ok || idx >= len(ret.Results) {
					continue
				}
				out = append(out, d.derive(retValue(ret, idx))...)
			}
		}
	}
	if len(out) == 0 {
		return unknownD("dynamic call without result")
	}
	return out
}

// closureParam: a parameter of an anonymous function is what its applicator passes to it.
func (d *deriver) closureParam(fn *ssa.Function, par *ssa.Parameter) []Deriv {
	k := -1
	for i, p := range fn.Params {
		if p == par {
			k = i
		}
	}
	var out []Deriv
	found := false
	for _, e := range d.g.In[fn] {
		if e.Kind != "funcarg" && e.Kind != "extcallback" {
			if e.Kind == "static" || e.Kind == "dynamic" {
				// called directly with explicit arguments
				found = true
				args := e.Site.Common().Args
				if k < len(args) {
					out = append(out, d.derive(args[k])...)
				}
			}
			continue
		}
		found = true
		site := e.Site.Common()
		if e.Kind == "extcallback" {
			if src, ok := extElemSource(site); ok {
				// slices.ContainsFunc(s, f) and friends call f with elements of s; so does the iterator that
				// slices.Backward(s) / slices.Values(s) / maps.Values(m) ... returns with its yield function
				out = append(out, strictAll(d.derive(src))...)
				continue
			}
			out = append(out, Deriv{Unknown: "argument supplied by an external function"})
			continue
		}
		// which argument position carries fn, and which applicator receives it
		appls, _ := d.g.resolve(site.Value, map[ssa.Value]bool{})
		for ai, arg := range site.Args {
			refs, _ := d.g.resolve(arg, map[ssa.Value]bool{})
			carries := false
			for _, r := range refs {
				if r.param < 0 && r.fn == fn {
					carries = true
				}
			}
			if !carries {
				continue
			}
			for _, ap := range appls {
				if ap.param >= 0 || !d.g.Applicator[ap.fn][ai] {
					continue
				}
				for _, ca := range d.g.contractCalls(ap.fn, ai) {
					if k >= len(ca.Args) {
						continue
					}
					actual := func(root *ssa.Parameter) []Deriv {
						a := d.actualFor(root, ap.fn, site)
						if a == nil {
							return []Deriv{{Unknown: fmt.Sprintf("cannot map %s.%s to an argument at the applicator call", root.Parent().Name(), root.Name())}}
						}
						return d.derive(a)
					}
					saved := d.ctx
					d.ctx = nil
					raw := d.derive(ca.Args[k])
					d.ctx = saved
					for _, rd := range raw {
						out = append(out, subst(rd, actual)...)
					}
				}
			}
		}
	}
	if !found || len(out) == 0 {
		return unknownD("closure parameter %s.%s: no applicator call found", d.p.FuncName(fn), par.Name())
	}
	return out
}

// actualFor maps a parameter `root` (of the applicator or of a function enclosing it) to the
// argument value at the call site.
func (d *deriver) actualFor(root *ssa.Parameter, appl *ssa.Function, site *ssa.CallCommon) ssa.Value {
	owner := root.Parent()
	idx := -1
	for i, p := range owner.Params {
		if p == root {
			idx = i
		}
	}
	if idx < 0 {
		return nil
	}
	if owner == appl {
		if idx < len(site.Args) {
			return site.Args[idx]
		}
		return nil
	}
	// the applicator is a closure returned by `owner`: the callee value is a call to owner
	if c, ok := site.Value.(*ssa.Call); ok {
		if sc := c.Common().StaticCallee(); sc != nil && (sc == owner || sc.Origin() == owner || (owner.Origin() != nil && sc == owner.Origin())) {
			if idx < len(c.Common().Args) {
				return c.Common().Args[idx]
			}
		}
	}
	return nil
}

// contractCalls: the calls, inside applicator appl (or closures nested in it), of its
// function-typed parameter j.
func (g *CallGraph) contractCalls(appl *ssa.Function, j int) []*ssa.CallCommon {
	var out []*ssa.CallCommon
	var visit func(fn *ssa.Function)
	visit = func(fn *ssa.Function) {
		for _, b := range fn.Blocks {
			for _, in := range b.Instrs {
				if call, ok := in.(ssa.CallInstruction); ok {
					c := call.Common()
					if c.IsInvoke() {
						continue
					}
					if _, isB := c.Value.(*ssa.Builtin); isB {
						continue
					}
					refs, _ := g.resolve(c.Value, map[ssa.Value]bool{})
					for _, r := range refs {
						if r.param == j && r.fn == appl {
							out = append(out, c)
						}
					}
				}
			}
		}
		for _, an := range fn.AnonFuncs {
			visit(an)
		}
	}
	visit(appl)
	return out
}

// retValue returns the value a Return yields at position i, looking through the result cells
// that go/ssa introduces in functions with defer ("*t0 = v; rundefers; t = *t0; return t").
func retValue(ret *ssa.Return, i int) ssa.Value {
	v := ret.Results[i]
	u, ok := v.(*ssa.UnOp)
	if !ok || u.Op != token.MUL {
		return v
	}
	al, ok := u.X.(*ssa.Alloc)
	if !ok || al.Heap {
		return v
	}
	b := ret.Block()
	var last ssa.Value
	for _, in := range b.Instrs {
		if in == ssa.Instruction(u) {
			break
		}
		if st, ok := in.(*ssa.Store); ok && st.Addr == ssa.Value(al) {
			last = st.Val
		}
	}
	if last != nil {
		return last
	}
	// stored in a unique predecessor chain? fall back to: single store in the function
	stores := cellStores(al)
	if len(stores) == 1 {
		return stores[0]
	}
	return v
}

// escapesToCall: the cell's address is passed to a call (out-parameter).
func escapesToCall(al *ssa.Alloc) bool {
	refs := al.Referrers()
	if refs == nil {
		return false
	}
	for _, ref := range *refs {
		switch r := ref.(type) {
		case ssa.CallInstruction:
			for _, a := range r.Common().Args {
				if a == ssa.Value(al) {
					return true
				}
			}
		case *ssa.MakeInterface:
			if r.Referrers() != nil {
				for _, r2 := range *r.Referrers() {
					if _, ok := r2.(ssa.CallInstruction); ok {
						return true
					}
				}
			}
		}
	}
	return false
}

// DeriveWithSources is Derive with the given functions treated as alias sources.
func (p *Prog) DeriveWithSources(v ssa.Value, sources map[string]bool) []Deriv {
	d := &deriver{p: p, g: p.CG(), seen: map[ssa.Value]bool{}, aliasSources: sources, allFields: true}
	return dedupDerivs(d.derive(v))
}

// DeriveAll follows every struct field (used by the ownership engine).
func (p *Prog) DeriveAll(v ssa.Value) []Deriv {
	d := &deriver{p: p, g: p.CG(), seen: map[ssa.Value]bool{}, allFields: true}
	return dedupDerivs(d.derive(v))
}

// extElemCallback: the external function called at site invokes its callback argument with elements of
// one of its slice arguments only (and does nothing else with the callback); returns that argument's index.
// extElemSource: the container whose elements (or keys) the external function called at site hands to its
// callback argument: the slice argument of the element-wise helpers of package slices, or the argument of the
// standard iterator constructor whose result is being called with a yield function.
func extElemSource(site *ssa.CallCommon) (ssa.Value, bool) {
	if ai, ok := extElemCallback(site); ok {
		return site.Args[ai], true
	}
	if c, ok := site.Value.(*ssa.Call); ok {
		if name, isIter := stdIteratorConstructor(c.Common()); isIter && len(c.Common().Args) >= 1 {
			_ = name
			return c.Common().Args[0], true
		}
	}
	return nil, false
}

// stdIteratorConstructor: a call of slices.Backward/Values/All or maps.Keys/Values/All: the function value it
// returns calls its yield argument with elements (keys, values, indices) of the constructor's argument only.
func stdIteratorConstructor(c *ssa.CallCommon) (string, bool) {
	sc := c.StaticCallee()
	if sc == nil {
		return "", false
	}
	o := sc.Origin()
	if o == nil {
		o = sc
	}
	if o.Pkg == nil {
		return "", false
	}
	switch o.Pkg.Pkg.Path() + "." + o.Name() {
	case "slices.Backward", "slices.Values", "slices.All", "maps.Keys", "maps.Values", "maps.All":
		return o.Pkg.Pkg.Path() + "." + o.Name(), true
	}
	return "", false
}

func extElemCallback(site *ssa.CallCommon) (int, bool) {
	sc := site.StaticCallee()
	if sc == nil {
		return 0, false
	}
	o := sc.Origin()
	if o == nil {
		o = sc
	}
	if o.Pkg == nil || o.Pkg.Pkg.Path() != "slices" {
		return 0, false
	}
	switch o.Name() {
	case "ContainsFunc", "IndexFunc", "DeleteFunc", "SortFunc", "SortStableFunc", "IsSortedFunc", "MinFunc", "MaxFunc":
		return 0, true
	}
	return 0, false
}

// onlyReadsContainer: every use of the container value v is a read of the container itself (range, index load,
// lookup, len/cap, a sub-slice that is itself only read): nothing is stored into it and it is not passed on.
func onlyReadsContainer(v ssa.Value, depth int) bool {
	refs := v.Referrers()
	if refs == nil {
		return true
	}
	if depth > 3 {
		return false
	}
	for _, ref := range *refs {
		switch r := ref.(type) {
		case *ssa.DebugRef, *ssa.Range, *ssa.Index, *ssa.Lookup:
		case *ssa.IndexAddr:
			if r.Referrers() != nil {
				for _, r2 := range *r.Referrers() {
					switch u := r2.(type) {
					case *ssa.UnOp:
						if u.Op != token.MUL {
							return false
						}
					case *ssa.DebugRef:
					default:
						return false
					}
				}
			}
		case *ssa.Slice:
			if !onlyReadsContainer(r, depth+1) {
				return false
			}
		case *ssa.Call:
			if b, ok := r.Common().Value.(*ssa.Builtin); ok {
				if b.Name() != "len" && b.Name() != "cap" {
					return false
				}
				continue
			}
			// passed on to a function of the repository that itself only reads it
			sc := r.Common().StaticCallee()
			if sc == nil || sc.Blocks == nil || r.Common().IsInvoke() || sc.Pkg == nil || !isRepoPkgPath(sc.Pkg.Pkg.Path()) {
				return false
			}
			for j, arg := range r.Common().Args {
				if arg == v && (j >= len(sc.Params) || !onlyReadsContainer(sc.Params[j], depth+1)) {
					return false
				}
			}
		default:
			return false
		}
	}
	return true
}
