package main

import "strings"

var commonTrusted = []string{
	"Go type checker (go/types) and SSA construction (golang.org/x/tools/go/ssa v0.29.0)",
	"go list / go/packages loading of /repo's working tree with the repository's own toolchain",
	"Go standard library and the pinned third-party codecs (encoding/json, gopkg.in/yaml.v3 v3.0.1, go-toml/v2 v2.2.3) behave as documented",
	"the checker's own path-summary engine (PS), validated on every thorough run by the seeded mutants and benign variants under /verif/selftest",
}

const levelBoiler = " Decided for every path of the code (per-node decision tables, frame conditions, orderings, ownership), not for sampled inputs; by structural induction over the recursive walkers this covers every tree that can drive those paths. It is a set of necessary structural conditions of the property, not a proof of the behaviour as a whole: clauses that depend on run-time values outside the analysed code are listed under not_decided."

func mk(id, title, technique, decides, designRef string, notDecided []string, assumptions []string, rules ...func(*Prog, *Result)) {
	register(PropSpec{
		ID:          id,
		Title:       title,
		Technique:   "static analysis (no execution): " + technique,
		LevelText:   decides + levelBoiler,
		LevelNote:   "Trusts go/types, go/ssa and the analyser's path-summary engine; third-party codecs, the OS and the Go runtime are outside the analysis. " + strings.Join(assumptions, " "),
		DesignRef:   designRef,
		Explanation: decides,
		NotDecided:  notDecided,
		Trusted:     commonTrusted,
		Assumptions: assumptions,
		Rules:       rules,
	})
}

func init() {
	mk("C01", "Layer merge follows the documented merge rules for every parent/child pair",
		"path-effect summaries over SSA of the merge and match families checked against the documented decision table (kind dispatch, per-entry effects, frame condition, list order, every rejection with its sentinel)",
		"C01 decides the per-node decision tables of merge and match: which case is taken for which kinds and guards, what it returns, what it writes (only keys the child mentions), parent-then-child list order, $replace/$delete/$match/$value handling and every documented rejection with the documented error.",
		"DESIGN.md §5 C01, §4.3",
		[]string{"fidelity of deepClone (a YAML round trip) on exotic strings", "type-sensitive == across formats (C04)", "chains of 3-4 layers beyond the induction (repeated application of the same entry)"},
		[]string{"Trees are acyclic and layer sources are private copies (rules C02.indep / C08.acyclic)."},
		ruleC01Kind, ruleC01Map, ruleC01List, ruleC01Match, ruleDeepClone, ruleMarkerHelpers("C01.marker"), rulePopListMarker("C01.popmarker"), ruleMergeSourcesPrivate("C01.indep"), ruleSmallContracts("C01.helper", "pophelpers"), ruleListsRebuilt("C01.rebuilt"))

	mk("C02", "Stream layering targets the right documents and treats each independently",
		"path-effect summaries of MergeDocument (target selection table), ownership analysis of every call into the merge family (sources must be private deep copies), census of the writers of Parser.docs / Document.Parents; constant evaluation of the stream-separator patterns on a battery of lines",
		"C02 decides the target-selection table ($match: null appends; $match picks matching parent documents, else matching documents anywhere, else error; no $match merges into every document of the parent layers, else appends), that Parser.docs is append-only, that mergeDocs records parent identity, and that no merge source is shared between targets or with live data.",
		"DESIGN.md §5 C02, §4.3, §4.4",
		[]string{"semantics of match (C01)", "uniqueness of document IDs at run time"},
		nil,
		ruleC02Select, ruleMergeSourcesPrivate("C02.indep"), ruleFieldWriterCensus("C02.order"), ruleSmallContracts("C02.helper", "matchdoc"), ruleQueryMethods("C02.query"), ruleStreamSeparators("C02.sep"))

	mk("C03", "Inheritance chain is resolved from filenames and $parent, base first",
		"path-effect summaries of loadFileAndParents / parents / parentsFromDirective / parentsFromFilename / toAbsolutePaths / globFiles / parentsFromSymlink / MergeFile and of cmd/bkl.main",
		"C03 decides parents-before-child order, directive > symlink > filename priority, the $parent directive table, that a missing layer is an error on every path, the dot-bounded wildcard filter, that $parent never reaches the merge (also with -P), and the CLI input loop.",
		"DESIGN.md §5 C03",
		[]string{"file-system behaviour of os.Stat / Glob / EvalSymlinks", "independence of the result from layer names", "the arithmetic of the filename rule beyond 'drops exactly one component'"},
		nil,
		ruleC03, ruleC03Strip, ruleBklMainInputs, ruleFilepath("C03.path"))

	mk("C04", "Results do not depend on which format (JSON/YAML/TOML) a layer is written in",
		"census of the dynamic types boxed into `any` by normalisation and evaluation, coverage of decoder-specific numeric types by normalize, must-pass-through (every decoded document goes to normalize and nowhere else), constant arguments of strconv.ParseFloat, path-effect summary of the YAML scalar table, constant evaluation of the stream-separator patterns on a battery of lines",
		"C04 decides the necessary condition for format-independent comparisons: only one dynamic Go type per logical kind enters document data, every decoder result is normalised before use, no float narrowing, codec chosen by extension only.",
		"DESIGN.md §5 C04, §4.7",
		[]string{"that the three libraries agree on the logical content of equivalent documents (anchors, dotted keys, dates)", "TOML date/time types"},
		[]string{"go-toml/v2 v2.2.3 decodes integers into int64 and floats into float64 (checked against go.mod)."},
		ruleC04Census, ruleC04Canon, ruleC04Fresh, ruleC04Float, ruleC04Normalised("C04.normalised"), ruleC04Ext, ruleC05All, ruleStreamSeparators("C04.sep"), ruleYamlScalars("C04.scalars"))

	mk("C05", "Output round-trips in every format: what bkl writes reads back unchanged",
		"interprocedural may-be-nil analysis of every map/slice boxed into a tree value (empty containers stay containers, never a typed nil that prints as null); census of the format table (writer and reader reach the same codec package), separator literals matched against the reader's splitter pattern, path-effect summaries of every stream encoder/decoder (no document lost), format-choice flow in cmd/bkl.main and the Output* methods; constant evaluation of the separator patterns (cut exactly at whole-line separators), YAML scalar table",
		"C05 decides only the agreement between bkl's own writer and reader halves and the choice of format: same codec per table entry, aliases identical, every separator the writer emits is one the reader splits on, streams encode/decode every document in order, and -f > -o extension > first input's extension.",
		"DESIGN.md §5 C05",
		[]string{"decode(encode(x)) = x for look-alike strings, doubles, empty containers (third-party codecs)", "agreement with independent parsers"},
		nil,
		ruleC05Table, ruleC05Sep, ruleC05All, ruleC05File, ruleBklMainFormat, ruleTypedNil("C05.typednil"), ruleFilepath("C05.path"), ruleSmallContracts("C05.helper", "getformat"), ruleStreamSeparators("C05.sepexact"), ruleYamlScalars("C05.scalars"), ruleC04Float)

	mk("C06", "Plain data passes through unchanged; $$ escapes any literal dollar",
		"interprocedural may-be-nil analysis of every map/slice boxed into a tree value (an empty map or list is never replaced by a typed nil); path-effect summaries of finalizeOutput, validate, outputDocument and the process1 family; census of every $-literal used to recognise directives; call-graph check that the unescape is applied exactly once",
		"C06 decides the structural facts that make the escape sound: the $$ -> $ unescape is applied exactly once, to keys and values, after validation; every directive test is an exact comparison or prefix test on $+letter so no $$-prefixed string can satisfy it; the validator rejects only $required and $+lower-case; non-directive maps, lists and strings are rebuilt unchanged (only nulls dropped).",
		"DESIGN.md §5 C06",
		[]string{"exotic strings through deepClone's YAML round trip", "collisions of unescaped keys (made deterministic by the D6 repair, not prevented)", "process2's identity part is checked only through its directive dispatch (C13/C14)"},
		nil,
		ruleTypedNil("C06.typednil"), ruleFinalize, ruleOutputGate("C06"), ruleValidate("C06"), ruleMarshalRoute, ruleC10Dispatch, ruleDollarCensus, ruleC13)

	mk("C07", "No unresolved $required or stray directive ever reaches the output",
		"must-pass-through on path-effect summaries of outputDocument (filter, then validate with checked error, then finalise), coverage of validate (every key, value and element), predicate of validateString, who may call a MarshalStream, $encode validates its input",
		"C07 decides that every emitted value passed the hiding pass, then validation (error checked), then finalisation; that the validator visits every position and rejects exactly $required and $+lower-case strings; that nothing is encoded except validated output; that $encode validates its evaluated subtree first.",
		"DESIGN.md §5 C07",
		[]string{"whether an empty upper list 'actually overrides' a $required list entry (the list marker is shown to be removed only by a child list; the map-valued marker follows the ordinary merge table, C01)"},
		nil,
		ruleOutputGate("C07"), ruleValidate("C07"), ruleMarshalRoute, ruleC07Encode("C07.encode"), ruleC07Required, ruleStripMarker("C07.strip"), ruleMergeSourcesPrivate("C07.indep"), ruleC01List, ruleC01Kind, ruleDroppedErrors)

	mk("C08", "Every invocation terminates with complete output or a reported error",
		"panic-site audit over SSA (unchecked type assertions, compiler-unproven bounds checks matched to discharge patterns, explicit panics, division, nil-map writes), per-call-site classification of every cycle of a closure-aware call graph (depth-guarded / visited-guarded / structural on acyclic data), dropped-error audit, preconditions of indexed library calls (utf8string.At under a RuneCount guard), path summaries of the mains (failed step => stderr + non-zero exit, stdout written last)",
		"C08 decides: no reachable panic site is unguarded; every recursion cycle is bounded by a depth guard, a visited set or strict structural descent on acyclic data; no error result is dropped; in every CLI a failed step ends in a diagnostic and a non-zero exit before anything is written to stdout, and stdout receives one complete buffer.",
		"DESIGN.md §5 C08, §4.2, §4.6, §4.8",
		[]string{"memory exhaustion by breadth of reference expansion (the guard bounds depth only)", "termination and crash freedom of encoding/json, yaml.v3, go-toml on arbitrary bytes", "nil-pointer dereferences other than those excluded by the error-check discipline"},
		[]string{"Trees handed to the structural recursions are acyclic: decoders build trees and merge sources are private copies (C08.acyclic).", "Document.Parents is acyclic unless the API is misused by merging a *Document into itself."},
		rulePanic, ruleRecursion, ruleLoops, ruleNilMap, ruleMergeSourcesPrivate("C08.acyclic"), ruleCLIExit, ruleDroppedErrors, ruleC13)

	mk("C09", "Evaluation is deterministic",
		"order-sensitivity audit of every native map range (commutative writes / boolean fold / first-error shapes), contract of the sortedMap iterator, census of package-level state written outside init, census of nondeterminism sources reachable from evaluation, ownership rule against merging aliased trees",
		"C09 decides that every range over a Go map is order-insensitive or goes through sortedMap, that sortedMap yields every entry once in key order, that no package-level state is written after initialisation (so concurrent evaluations cannot interfere), that no clock/random/goroutine/channel/%p source is reachable from evaluation, and that merge never receives aliased destination and source.",
		"DESIGN.md §5 C09, §4.5, §4.7",
		[]string{"determinism of the codecs, the Go runtime and the OS", "which of several errors is reported first (only success/failure is covered)"},
		[]string{"One file per layer name (the property's own precondition) for findFile's map range."},
		ruleMapRanges, ruleSortedMap, ruleGlobals, rulePools, ruleNondetSources, ruleMergeSourcesPrivate("C09.alias"), ruleQueryMethods("C09.query"), ruleMemoised("C09.memo"), ruleC07Encode("C09.encode"))

	mk("C10", "$merge and $replace behave as if the referenced subtree were written inline",
		"path-effect summaries of Document.Process (phase order), the process1 family (dispatch), get/getPath/getCross/getCrossDoc (lookup tables), matchMap (placeholder rule); ownership analysis: results of get never reach a mutating position; the evaluated document is an element of the list its references are resolved against; mutation summaries of the pop/has/get helpers; dropped-error audit",
		"C10 decides phase order (references, then document-level $repeat, then the rest), the reference dispatch for maps, lists and strings ($merge layers the referenced value onto the local content as source, $replace discards local keys), the lookup tables incl. dangling and ambiguous references being errors, and that the referenced subtree is never written.",
		"DESIGN.md §5 C10",
		[]string{"keys containing dots", "interaction of references with $output: false templates beyond the phase order"},
		nil,
		ruleC10Phase, ruleC10Dispatch, ruleC10Lookup, ruleC10ListRef, ruleC10Universe, ruleReferencesReadOnly, ruleC01Match, ruleSmallContracts("C10.helper", "matchdoc", "getcopy", "pophelpers"), ruleDroppedErrors, ruleListsRebuilt("C10.rebuilt"))

	mk("C11", "$output selects exactly the marked subtrees and hides exactly the excluded ones",
		"path-effect summaries of findOutputs, filterOutput and outputDocument against the selection / hiding tables; contracts of the marker helpers (hasMapBoolValue, hasListMapBoolValue, popListMapBoolValue); YAML scalar table (boolean spellings)",
		"C11 decides the selection table (marked maps first, then their children's selections in sorted key order; marked lists after their children's), marker removal, the root fallback when nothing is selected, the hiding table ($output: false yields nil, nil children dropped) and that hiding precedes validation.",
		"DESIGN.md §5 C11",
		[]string{"interaction with references copied out of hidden trees"},
		nil,
		ruleC11Select, ruleC11Hide, ruleOutputGate("C11"), ruleMarkerHelpers("C11.marker"), rulePopListMarker("C11.popmarker"), ruleSmallContracts("C11.helper", "pophelpers"), ruleOutputFresh, ruleYamlScalars("C11.scalars"))

	mk("C12", "$repeat expands to exactly n indexed copies (cartesian product for named counts)",
		"induction-variable analysis of the three counted loops (0 <= i < n, step 1, i bound on a per-iteration clone of the context), lockstep analysis of the documents/contexts slices, path-effect summaries of repeatDoc*, process2RepeatObj*",
		"C12 decides that each of the three expansion loops runs i = 0..n-1 with n the count, binds i itself under the right variable on a context cloned inside the iteration, keeps documents and contexts in lockstep, appends copies in order, expands named counts in sorted name order (existing-major), removes the $repeat key, and rejects non-integer counts.",
		"DESIGN.md §5 C12",
		[]string{"equality with the hand-expanded document (needs C13 on values)"},
		nil,
		ruleC12Loops, ruleC12Docs, ruleCloneContract("C12.copy"), ruleC13Vars, ruleSmallContracts("C12.helper", "pophelpers"), ruleListsRebuilt("C12.rebuilt"))

	mk("C13", "Interpolation and $env substitute exactly the referenced values",
		"path-effect summaries of process2String, process2StringInterp (the text handed to the replacement pass), the interpolation callback (captured error cell), getWithVar, GetVar, envVars; census of the interpolation pattern literal",
		"C13 decides the interpolation trigger and pattern, that the text scanned for references is the string minus exactly its dollar-quote opener and its closing quote, that a failed lookup or nested evaluation stores its own error in the captured error which is returned on every path (never an empty substitution), the document-then-variable fallback, whole-string $env:/$repeat substitution, and that environment values are boxed as strings.",
		"DESIGN.md §5 C13",
		[]string{"%v formatting of non-string values", "literal } and : inside templates"},
		nil,
		ruleC13, ruleC13Vars, ruleC12Loops, ruleMemoised("C13.memo"), ruleDroppedErrors, ruleSmallContracts("C13.helper", "pophelpers"))

	mk("C14", "$encode produces the named standard encodings and $decode inverts them",
		"path-effect summaries of process2EncodeString per transform branch (callee and operand of the standard-library implementation), sibling cross-check of argument-count guards, left-to-right fold of process2EncodeAny, $decode type table and must-pass-through normalize",
		"C14 decides, per transform, which standard-library implementation is applied to which operand (base64.StdEncoding, crypto/sha256 + hex, strings.Join, prefix order, flags = [tolist:=, prefix:--], format encoders via the shared codec table), sorted traversal for tolist/values, that every transform checks its argument count, left-to-right stacking, the $decode type/arity errors and that $decode shares the codec table and normalises.",
		"DESIGN.md §5 C14",
		[]string{"exact bytes produced by the format encoders", "tolist value formatting (%v)"},
		nil,
		ruleC14, ruleC14Decode, ruleC07Encode("C14.validate"), ruleC04Normalised("C14.inverse"), ruleC04Float, ruleYamlScalars("C14.scalars"), ruleDroppedErrors, ruleSmallContracts("C14.helper", "pophelpers"), ruleTypedNil("C14.typednil"))

	mk("C15", "bkld round trip: base + bkld(base, target) evaluates to target",
		"path-effect summaries of diff/diffDoc against the diff table; contract of a hand-written entry comparison (a structural walk with equal sizes, never derived from diff itself); composition check diff-emits-wholesale x merge-accepts over kind pairs; nil-diff-implies-equal-sequence check; vocabulary agreement of emitted directives with the evaluator",
		"C15 decides the diff decision table, that every directive bkld emits is one merge recognises, that main diffs (target, base) and adds the document-level $match: {}, that wherever diff emits the target wholesale for a kind change merge accepts it, and that an empty list diff implies equal sequences.",
		"DESIGN.md §5 C15",
		[]string{"over-deletion by partial $delete patterns", "multiset/ordering semantics of list diffs beyond the nil case", "the round trip in general"},
		nil,
		ruleC15Table, ruleC15Seq, ruleC15Compose, ruleC15Dir, ruleMarkerVocabulary("C15.vocab", map[string][]string{"cmd/bkld": {"$delete", "$replace", "$match"}}), ruleC01List, ruleC01Match, ruleC04Census, ruleC04Canon, ruleStructuralEquality("C15.equal", "cmd/bkld"))

	mk("C16", "bkli yields the maximal common base, and the migrate workflow is lossless",
		"path-effect summaries of intersect and of bkld's diff against their tables, contract of a hand-written entry comparison (equal sizes), may-be-nil analysis of every container boxed into the result, per-element accumulation (loop-exit analysis), left fold in main, marker literal agreement with the validator",
		"C16 decides the intersection table (nil, equal/different scalars, kind mismatch, map keys present in both, list membership), that a common list entry is accumulated once, that main folds the inputs left to right, and that the $required marker it emits is the one the evaluator rejects.",
		"DESIGN.md §5 C16",
		[]string{"maximality", "[] ∩ []", "the bkli + bkld + bkl round trip"},
		nil,
		ruleC16Table, ruleTypedNil("C16.typednil"), ruleC16Fold, ruleMarkerVocabulary("C16.marker", map[string][]string{"cmd/bkli": {"$required"}}), ruleValidate("C16"), ruleC01List, ruleC04Census, ruleC04Canon, ruleStructuralEquality("C16.equal", "cmd/bkli", "cmd/bkld"), ruleC15Table)

	mk("C17", "bklr keeps exactly the $required skeleton and agrees with bkl on what is missing",
		"path-effect summaries of required against the skeleton table; marker literal agreement between bklr and the evaluator's validator",
		"C17 decides the skeleton table ($required kept, other scalars dropped, containers keep exactly the children with a non-empty skeleton, empty containers become nil) and that the marker bklr keeps is the one validateString reports as ErrRequiredField.",
		"DESIGN.md §5 C17",
		[]string{"nothing further: idempotence follows from the table"},
		nil,
		ruleC17Table, ruleMarkerVocabulary("C17.marker", map[string][]string{"cmd/bklr": {"$required"}}), ruleValidate("C17"), ruleStripMarker("C17.strip"), ruleC17Main, ruleTypedNil("C17.typednil"), ruleC03, ruleC01List, ruleC01Kind)

	mk("C18", "With a root directory set, nothing outside it is ever read",
		"who-may-call census of file-content APIs (only (*os.Root).Open on the parser's root and stdin), frozen list of metadata probes, writer census and path summary of SetRoot (roots only narrow), data-flow of the path handed to root.Open, dominance of SetRoot over loading in cmd/bkl.main",
		"C18 decides that layer content is read only through (*os.Root).Open on Parser.root (or stdin), with the root-relative path; that the metadata probes are exactly os.Stat in findFile, filepath.Glob in globFiles and EvalSymlinks in parentsFromSymlink; that only SetRoot changes the root and only by opening a sub-root through the current one; and that -r is applied and checked before any input is resolved.",
		"DESIGN.md §5 C18",
		[]string{"os.Root's own guarantees", "independence from the existence of outside files (probes bypass the root by design; frozen, not proven harmless)"},
		nil,
		ruleC18Read, ruleC18Probe, ruleC18Root, ruleBklMainRoot, ruleSmallContracts("C18.helper", "stdin"))

	mk("C19", "Producing output is a pure observation of parser state",
		"interprocedural mutation summaries (may-write analysis over the call graph; no element store into a list reachable from a parameter): no write reachable from an output method targets anything derived from the parser; evaluation is applied to (*Document).Clone results only; Clone deep-copies",
		"C19 decides that nothing reachable from Output/OutputDocuments/OutputToWriter/OutputToFile/Documents writes a parser document or a tree it owns: evaluation (which rewrites in place) only ever receives clones, and Clone deep-copies the data.",
		"DESIGN.md §5 C19, §4.4",
		[]string{"byte equality of repeated calls (follows from C19.pure + C09, not checked separately)"},
		nil,
		ruleOutputPure, ruleCloneContract("C19.clone"), ruleDeepClone, ruleFieldWriterCensus("C19.docs"), ruleQueryMethods("C19.query"), ruleMapRanges, ruleSortedMap, ruleListsRebuilt("C19.rebuilt"))

	mk("C20", "bklb/kubectl-bkl rewrite only file arguments; all else passes through",
		"path-effect summaries of wrapper.WrapOrDie and cmd/bklb.main: argv construction, the only store into the argument copy, error paths ending before exec; contracts of ext / findFile (every table extension probed) / FileMatch",
		"C20 decides that argv is [cmd] + a copy of os.Args[1:] in order with only file arguments replaced in place by the temp file's name, that a non-bkl argument is skipped without effect, that every evaluation error is fatal before exec, that format and temp-name flow from FileMatch(arg), and how the program name is derived.",
		"DESIGN.md §5 C20",
		[]string{"what the exec'd program observes (OS)"},
		nil,
		ruleC20, ruleFilepath("C20.path"))
}
