package main

var commonTrusted = []string{
	"Go type checker (go/types) and SSA construction (golang.org/x/tools/go/ssa v0.29.0)",
	"go list / go/packages loading of /repo's working tree with the repository's own toolchain",
	"Go standard library and the pinned third-party codecs (encoding/json, gopkg.in/yaml.v3 v3.0.1, go-toml/v2 v2.2.3) behave as documented",
}

func init() {
	register(PropSpec{
		ID:    "C01",
		Title: "Layer merge follows the documented merge rules for every parent/child pair",
		Rules: []func(*Prog, *Result){ruleC01Kind, ruleC01Map, ruleC01List, ruleC01Match, ruleDeepClone},
	})
	register(PropSpec{
		ID:    "C15",
		Title: "bkld round trip: base + bkld(base, target) evaluates to target",
		Rules: []func(*Prog, *Result){ruleC15Table, ruleC15Seq, ruleC15Compose, ruleC15Dir, ruleMarkerVocabulary("C15.vocab", map[string][]string{"cmd/bkld": {"$delete", "$replace", "$match"}})},
	})
	register(PropSpec{
		ID:    "C16",
		Title: "bkli yields the maximal common base, and the migrate workflow is lossless",
		Rules: []func(*Prog, *Result){ruleC16Table, ruleC16Fold, ruleMarkerVocabulary("C16.marker", map[string][]string{"cmd/bkli": {"$required"}}), ruleValidate("C16")},
	})
	register(PropSpec{
		ID:    "C17",
		Title: "bklr keeps exactly the $required skeleton and agrees with bkl on what is missing",
		Rules: []func(*Prog, *Result){ruleC17Table, ruleMarkerVocabulary("C17.marker", map[string][]string{"cmd/bklr": {"$required"}}), ruleValidate("C17")},
	})
	register(PropSpec{
		ID:    "C06",
		Title: "Plain data passes through unchanged; $$ escapes any literal dollar",
		Rules: []func(*Prog, *Result){ruleFinalize, ruleOutputGate("C06"), ruleValidate("C06"), ruleMarshalRoute, ruleC10Dispatch, ruleDollarCensus},
	})
	register(PropSpec{
		ID:    "C07",
		Title: "No unresolved $required or stray directive ever reaches the output",
		Rules: []func(*Prog, *Result){ruleOutputGate("C07"), ruleValidate("C07"), ruleMarshalRoute, ruleC07Encode("C07.encode")},
	})
	register(PropSpec{
		ID:    "C11",
		Title: "$output selects exactly the marked subtrees and hides exactly the excluded ones",
		Rules: []func(*Prog, *Result){ruleC11Select, ruleC11Hide, ruleOutputGate("C11")},
	})
	register(PropSpec{
		ID:    "C02",
		Title: "Stream layering targets the right documents and treats each independently",
		Rules: []func(*Prog, *Result){ruleC02Select, ruleMergeSourcesPrivate("C02.indep"), ruleFieldWriterCensus("C02.order")},
	})
	register(PropSpec{
		ID:    "C10",
		Title: "$merge and $replace behave as if the referenced subtree were written inline",
		Rules: []func(*Prog, *Result){ruleC10Phase, ruleC10Dispatch, ruleC10Lookup, ruleReferencesReadOnly, ruleC01Match},
	})
	register(PropSpec{
		ID:    "C19",
		Title: "Producing output is a pure observation of parser state",
		Rules: []func(*Prog, *Result){ruleOutputPure, ruleCloneContract("C19.clone"), ruleDeepClone, ruleFieldWriterCensus("C19.docs")},
	})
	register(PropSpec{
		ID:    "C04",
		Title: "Results do not depend on which format (JSON/YAML/TOML) a layer is written in",
		Rules: []func(*Prog, *Result){ruleC04Census, ruleC04Float, ruleC04Normalised("C04.normalised"), ruleC04Ext},
	})
	register(PropSpec{
		ID:    "C12",
		Title: "$repeat expands to exactly n indexed copies (cartesian product for named counts)",
		Rules: []func(*Prog, *Result){ruleC12Loops, ruleC12Docs, ruleCloneContract("C12.copy")},
	})
	register(PropSpec{
		ID:    "C13",
		Title: "Interpolation and $env substitute exactly the referenced values",
		Rules: []func(*Prog, *Result){ruleC13, ruleC13Vars},
	})
	register(PropSpec{
		ID:    "C14",
		Title: "$encode produces the named standard encodings and $decode inverts them",
		Rules: []func(*Prog, *Result){ruleC14, ruleC14Decode, ruleC07Encode("C14.validate"), ruleC04Normalised("C14.inverse")},
	})
	register(PropSpec{
		ID:    "C18",
		Title: "With a root directory set, nothing outside it is ever read",
		Rules: []func(*Prog, *Result){ruleC18Read, ruleC18Probe, ruleC18Root, ruleBklMainRoot},
	})
	register(PropSpec{
		ID:    "C20",
		Title: "bklb/kubectl-bkl rewrite only file arguments; all else passes through",
		Rules: []func(*Prog, *Result){ruleC20},
	})
	register(PropSpec{
		ID:    "C03",
		Title: "Inheritance chain is resolved from filenames and $parent, base first",
		Rules: []func(*Prog, *Result){ruleC03, ruleC03Strip, ruleBklMainInputs},
	})
	register(PropSpec{
		ID:    "C05",
		Title: "Output round-trips in every format: what bkl writes reads back unchanged",
		Rules: []func(*Prog, *Result){ruleC05Table, ruleC05Sep, ruleC05All, ruleBklMainFormat},
	})
	register(PropSpec{
		ID:    "C09",
		Title: "Evaluation is deterministic",
		Rules: []func(*Prog, *Result){ruleMapRanges, ruleSortedMap, ruleGlobals, ruleNondetSources},
	})
	register(PropSpec{
		ID:          "C08",
		Title:       "Every invocation terminates with complete output or a reported error",
		Technique:   "static analysis: panic-site audit over SSA (unchecked type assertions, compiler-unproven bounds checks, explicit panics, division) and per-call-site classification of every call-graph cycle (depth-guarded / visited-guarded / structural on acyclic data), CLI exit discipline on the CFG",
		LevelText:   "Structural necessary conditions, decided for every path of the code rather than for sampled inputs: no reachable panic site is unguarded and every recursion cycle is bounded by a depth guard, a visited set or strict structural descent. This is the part of 'never panics, never hangs' that is visible in the shape of the code; it is not a proof of termination of the third-party decoders or of bounded memory.",
		LevelNote:   "Trusts go/types, go/ssa, the gc compiler's prove pass for bounds checks it eliminated, os.Exit not returning, library facts listed in the evidence (strings.Split returns >=1 element; a yaml DocumentNode has one child; os.Args is non-empty).",
		DesignRef:   "DESIGN.md §5 C08, §4.2, §4.6, §4.8",
		Explanation: "C08.panic audits every function reachable from the exported API and the mains for panic sites; C08.rec classifies every recursive call site of the closure-aware call graph. Nothing in /repo is executed.",
		NotDecided: []string{
			"memory exhaustion by breadth of reference expansion (the guard bounds depth only)",
			"termination and crash freedom of encoding/json, yaml.v3, go-toml on arbitrary bytes",
			"nil-pointer dereferences other than those excluded by the error-check discipline",
		},
		Trusted: commonTrusted,
		Assumptions: []string{
			"trees handed to the structural recursions are acyclic (decoders build trees; the ownership rules of C09/C10 forbid merging a tree into itself)",
			"Document.Parents is acyclic unless the API is misused by merging a *Document into itself",
		},
		Rules: []func(*Prog, *Result){rulePanic, ruleRecursion, ruleCLIExit, ruleDroppedErrors},
	})
}
