package main

// C02.select — which documents a layer document is merged into.

import (
	"strings"
)

func ruleC02Select(p *Prog, r *Result) {
	pr := newPSRule(p, r, "C02.select", "bkl.(*Parser).MergeDocument", PSOpts{NoInline: map[string]bool{"bkl.mergeDocs": true, "bkl.matchDoc": true, "bkl.(*Document).AllParents": true}})
	data := func(t *T) bool { return t.Op == "field" && t.Name == "Data" && t.Args[0].IsParam("patch") }
	pdocs := func(t *T) bool { return t.Op == "field" && t.Name == "docs" && t.Args[0].IsParam("p") }
	hasMatch := func(pa *Path) int { return guardPol(pa, "has", data, TM(mStr("$match"))) }
	mval := mLookup(data, mStr("$match"))
	isNull := func(pa *Path) int { return guardPol(pa, "kind", mval, "nil") }
	mergeTargets := func(pa *Path) []*T {
		var out []*T
		for _, e := range pa.Effects {
			if e.Callee == "bkl.mergeDocs" {
				out = append(out, e.Args[0])
			}
		}
		return out
	}
	appendsDoc := func(pa *Path) *T {
		for _, e := range pa.Effects {
			if e.Kind == "fieldset" && strings.HasSuffix(e.Callee, "Parser.docs") {
				v := e.Args[1]
				if v.Op == "append" && len(v.Args) == 2 && pdocs(v.Args[0]) && v.Args[1].Op == "lit" && len(v.Args[1].Args) == 1 {
					return v.Args[1].Args[0]
				}
				return &T{Op: "bad"}
			}
		}
		return nil
	}
	// parentsOf: t is (a filtered copy of) the documents of p.docs whose ID is in AllParents(patch)
	isParentsList := func(t *T) bool {
		if t.Op != "carried" {
			return false
		}
		info := pr.carried[t.N]
		if info.Init == nil || !(info.Init.IsEmptyList() || info.Init.IsNil()) {
			return false
		}
		n := 0
		for _, it := range pr.paths {
			v, ok := it.Carried[t.N]
			if !ok || (v.Op == "carried" && v.N == t.N) {
				continue
			}
			if v.Op != "append" || v.Args[0].String() != t.String() || v.Args[1].Op != "lit" || len(v.Args[1].Args) != 1 || !mElemOf(pdocs)(v.Args[1].Args[0]) {
				return false
			}
			el := v.Args[1].Args[0]
			// membership test on the patch's transitive parents by ID
			ok2 := false
			for _, g := range it.Guards {
				if g.Kind == "has" && !g.Neg && mCall("bkl.(*Document).AllParents", mParam("patch"))(g.A) && g.B.Op == "field" && g.B.Name == "ID" && g.B.Args[0].String() == el.String() {
					ok2 = true
				}
			}
			if !ok2 {
				return false
			}
			n++
		}
		return n > 0
	}
	// (1) $match: null appends a new, empty document and merges into it
	pr.all("$match: null appends a new document", selectPaths(pr.paths, func(pa *Path) bool { return hasMatch(pa) == 1 && isNull(pa) == 1 }), "docs = append(docs, new); mergeDocs(new, patch); nothing else is touched", func(pa *Path) (bool, string) {
		nd := appendsDoc(pa)
		if nd == nil || nd.Op != "fresh" {
			return false, "no fresh document is appended"
		}
		ts := mergeTargets(pa)
		if len(ts) != 1 || ts[0].String() != nd.String() {
			return false, "the patch is not merged into exactly the new document"
		}
		if pa.End != "return" {
			return false, "unexpected end"
		}
		return true, ""
	})
	// (2) $match: pattern
	matching := selectPaths(pr.paths, func(pa *Path) bool { return hasMatch(pa) == 1 && isNull(pa) == -1 })
	pr.some("$match that selects no document is an error", matching, "ErrNoMatchFound", "a document-level $match that matches nothing is silently accepted", func(pa *Path) bool {
		return pa.End == "return" && wraps(lastResult(pa), "ErrNoMatchFound") && len(mergeTargets(pa)) == 0
	})
	pr.all("$match never appends the layer document", matching, "no append to docs", func(pa *Path) (bool, string) {
		if appendsDoc(pa) != nil {
			return false, "a $match document is appended as a new document"
		}
		return true, ""
	})
	pr.all("$match: candidates are the matching documents among the layer's parents, else among all documents; every candidate is merged", selectPaths(matching, func(pa *Path) bool { return len(mergeTargets(pa)) > 0 }),
		"search order [parents(patch), p.docs]; first non-empty set of matchDoc hits; mergeDocs on each", func(pa *Path) (bool, string) {
			t := mergeTargets(pa)[0]
			if t.Op != "elem" || t.Args[0].Op != "carried" {
				return false, "the merge target is not an element of the candidate list: " + t.String()
			}
			cand := t.Args[0]
			// every element ever appended to the candidate list is guarded by a positive matchDoc(elem, $match)
			seen := map[int]bool{}
			var check func(c *T) (bool, string)
			check = func(c *T) (bool, string) {
				if seen[c.N] {
					return true, ""
				}
				seen[c.N] = true
				info := pr.carried[c.N]
				if info.Init != nil && info.Init.Op == "carried" {
					if ok, why := check(info.Init); !ok {
						return false, why
					}
				} else if info.Init == nil || !info.Init.IsEmptyList() && !info.Init.IsNil() {
					return false, "candidates do not start empty"
				}
				for _, it := range pr.paths {
					v, ok := it.Carried[c.N]
					if !ok || v.Op == "carried" {
						if ok && v.N != c.N {
							if ok2, why := check(v); !ok2 {
								return false, why
							}
						}
						continue
					}
					if v.Op != "append" || v.Args[1].Op != "lit" || len(v.Args[1].Args) != 1 {
						return false, "unexpected update of the candidate list: " + v.String()
					}
					el := v.Args[1].Args[0]
					if guardPol(it, "truth", mCall("bkl.matchDoc", mIs(el), mval), nil) != 1 {
						return false, "a document becomes a candidate without matching the layer's $match pattern"
					}
					// el ranges over an element of the search-order literal [parents, all docs]
					if el.Op != "elem" || el.Args[0].Op != "elem" || el.Args[0].Args[0].Op != "lit" || len(el.Args[0].Args[0].Args) != 2 {
						return false, "candidates are not drawn from [parent documents, all documents]: " + el.String()
					}
					so := el.Args[0].Args[0]
					if !isParentsList(so.Args[0]) || !pdocs(so.Args[1]) {
						return false, "the search order is not parents first, then all documents: " + so.String()
					}
				}
				return true, ""
			}
			if ok, why := check(cand); !ok {
				return false, why
			}
			if pa.End == "return" && lastResult(pa).IsNil() && guardPol(pa, "itermore", mOp("range", mIs(cand)), nil) != -1 {
				return false, "success is returned before every candidate was merged"
			}
			return true, ""
		})
	// "first non-empty wins": when the parents' hits are non-empty the search stops
	pr.some("hits among the parents take precedence over hits elsewhere", matching, "len(ret) > 0 after the parents pass ends the search", "matches outside the parent layer are added even when a parent document matches", func(pa *Path) bool {
		for _, g := range pa.Guards {
			if g.Kind == "len" && g.Const == "==0" && g.Neg && g.A.Op == "carried" && len(mergeTargets(pa)) > 0 {
				return true
			}
		}
		return false
	})
	// (3) no $match
	plain := selectPaths(pr.paths, func(pa *Path) bool { return hasMatch(pa) != 1 })
	pr.all("without $match the layer document is merged into every document of its parent layers, in document order", selectPaths(plain, func(pa *Path) bool { return len(mergeTargets(pa)) > 0 }),
		"for doc in p.docs with doc.ID in AllParents(patch): mergeDocs(doc, patch)", func(pa *Path) (bool, string) {
			t := mergeTargets(pa)[0]
			if t.Op != "elem" || !isParentsList(t.Args[0]) {
				return false, "the merge target is not drawn from the documents of the layer's (transitive) parents: " + t.String()
			}
			if pa.End == "return" && lastResult(pa).IsNil() && guardPol(pa, "itermore", mOp("range", mIs(t.Args[0])), nil) != -1 {
				return false, "success is returned before every parent document was merged"
			}
			if appendsDoc(pa) != nil {
				return false, "the layer document is both merged and appended"
			}
			return true, ""
		})
	pr.all("a document without parents (and without $match) is appended", selectPaths(plain, func(pa *Path) bool { return pa.End == "return" && lastResult(pa).IsNil() }), "appended iff nothing was merged", func(pa *Path) (bool, string) {
		// was anything merged on this path? Known from a flag raised in the merge loop, or from a test of the
		// parent list for emptiness
		matched := 0
		for _, g := range pa.Guards {
			if g.Kind == "truth" && g.A.Op == "carried" {
				info := pr.carried[g.A.N]
				raised := info.Init != nil && info.Init.IsConst("false") && len(info.Src) > 0
				for _, sv := range info.Src {
					if !sv.IsConst("true") {
						raised = false
					}
				}
				if !raised {
					continue
				}
				matched = 1
				if g.Neg {
					matched = -1
				}
			}
		}
		if matched == 0 {
			switch guardPol(pa, "len", isParentsList, "==0") {
			case 1:
				matched = -1
			case -1:
				matched = 1
			}
		}
		ap := appendsDoc(pa)
		switch matched {
		case 1:
			if ap != nil {
				return false, "appended although it was merged into a parent"
			}
		case -1:
			if ap == nil || !ap.IsParam("patch") {
				return false, "a parentless document is dropped instead of appended"
			}
		default:
			return false, "the merged/appended decision is not taken"
		}
		return true, ""
	})
	pr.all("a failing merge aborts", selectPaths(pr.paths, func(pa *Path) bool { return guardPol(pa, "err", mCall("bkl.mergeDocs"), nil) == 1 }), "the error is returned", func(pa *Path) (bool, string) {
		return pa.End == "return" && strings.HasPrefix(errClass(lastResult(pa)), "from:bkl.mergeDocs"), "an error from merging is swallowed"
	})
	pr.all("the loop over merge targets continues only after a successful merge", selectPaths(pr.paths, func(pa *Path) bool { return pa.End == "iter" && len(mergeTargets(pa)) > 0 }), "err(mergeDocs) tested negative", func(pa *Path) (bool, string) {
		if guardPol(pa, "err", mCall("bkl.mergeDocs"), nil) == -1 {
			return true, ""
		}
		return false, "the next target is processed without the merge result having been checked: a failed merge is silently skipped"
	})
	pr.some("the search stops at the first non-empty set of hits", matching, "return from inside the search-order loop", "matching documents outside the parent layer are merged in addition to the matching parents", func(pa *Path) bool {
		if len(mergeTargets(pa)) == 0 {
			return false
		}
		for _, g := range pa.Guards {
			if g.Kind == "itermore" && !g.Neg && len(g.A.Args) == 1 && g.A.Args[0].Op == "lit" && len(g.A.Args[0].Args) == 2 {
				// the outer loop over [parents, docs] was left while it still had entries
				left := true
				for _, g2 := range pa.Guards {
					if g2.Kind == "itermore" && g2.Neg && g2.A.String() == g.A.String() {
						left = false
					}
				}
				if left {
					return true
				}
			}
		}
		return false
	})
	// mergeDocs: target updated, parent link recorded
	md := newPSRule(p, r, "C02.frame", "bkl.mergeDocs", PSOpts{NoInline: map[string]bool{"bkl.merge": true, "bkl.deepClone": true}})
	md.all("mergeDocs stores the merge result in the target and records the target as a parent of the layer document", selectPaths(md.paths, func(pa *Path) bool { return pa.End == "return" && lastResult(pa).IsNil() }),
		"doc.Data = merge(doc.Data, copy of patch.Data); patch.Parents += doc", func(pa *Path) (bool, string) {
			okData, okPar := false, false
			for _, e := range pa.Effects {
				if e.Kind == "fieldset" && strings.HasSuffix(e.Callee, "Document.Data") {
					if !e.Args[0].IsParam("doc") || !mResOf(0, mCall("bkl.merge", func(t *T) bool { return t.Op == "field" && t.Name == "Data" && t.Args[0].IsParam("doc") }))(e.Args[1]) {
						return false, "the merge result is not stored in the target document: " + e.String()
					}
					okData = true
				}
				if e.Kind == "fieldset" && strings.HasSuffix(e.Callee, "Document.Parents") {
					v := e.Args[1]
					if !e.Args[0].IsParam("patch") || v.Op != "append" || v.Args[1].Op != "lit" || !v.Args[1].Args[0].IsParam("doc") {
						return false, "the target is not recorded as a parent of the layer document (later layers would not reach the merged document): " + e.String()
					}
					okPar = true
				}
			}
			if !okData || !okPar {
				return false, "target data or parent link not updated"
			}
			return true, ""
		})
	md.all("a failed merge leaves the target untouched", selectPaths(md.paths, func(pa *Path) bool { return guardPol(pa, "err", mCall("bkl.merge"), nil) == 1 }), "no field store", func(pa *Path) (bool, string) {
		for _, e := range pa.Effects {
			if e.Kind == "fieldset" {
				return false, "the target is updated although the merge failed"
			}
		}
		return isFailure(pa) || pa.End == "return", ""
	})
	// AllParents is transitive
	ap := newPSRule(p, r, "C02.parents", "bkl.(*Document).AllParents", PSOpts{})
	ap.some("parent identity is transitive", ap.paths, "each parent and each of its AllParents()", "grand-parents are no longer parents: a third layer would not reach the base documents", func(pa *Path) bool {
		return hasCallEffect(pa, "bkl.(*Document).AllParents") || len(selectPaths([]*Path{pa}, func(p2 *Path) bool {
			for _, e := range p2.Effects {
				if e.Kind == "rec" && strings.Contains(e.Callee, "AllParents") {
					return true
				}
			}
			return false
		})) > 0
	})
	ap.some("direct parents are included by ID", ap.paths, "parents[parent.ID] = parent", "direct parents are not recorded", func(pa *Path) bool {
		for _, e := range pa.Effects {
			if e.Kind == "mapset" && e.Args[1].Op == "field" && e.Args[1].Name == "ID" && e.Args[1].Args[0].String() == e.Args[2].String() {
				return true
			}
		}
		return false
	})
}
