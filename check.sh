#!/bin/bash
# usage: ./check.sh <property-id> <quick|thorough>
# Decides one property of /repo's current working tree by static analysis; nothing in /repo is run.
# exit 0: every obligation discharged (known findings are printed as KNOWN-FINDING lines)
# exit 1: VIOLATION property=<id> replay=<path>
# exit 2: UNDECIDED (analysis could not decide; neither a pass nor a violation)
set -u
cd "$(dirname "$0")"
export GOFLAGS=-mod=mod GOPROXY=off GOWORK=off
unset GOSUMDB 2>/dev/null || true
id="$1"; tier="${2:-quick}"
if [ ! -x bin/bklcheck ] || [ -n "$(find checker -newer bin/bklcheck -name '*.go' -print -quit 2>/dev/null)" ]; then
  ./setup.sh >/dev/null 2>&1 || { echo "UNDECIDED property=$id checker build failed"; exit 2; }
fi
mkdir -p evidence
exec ./bin/bklcheck -repo "${VERIF_REPO:-/repo}" -verif "$(pwd)" -prop "$id" -tier "$tier"
