#!/usr/bin/env python3
"""Regenerates MANIFEST.json from the analyser's registry (bin/bklcheck -list) and
not_applicable.json (reasons for properties that are not claimed)."""
import json, subprocess, sys, os
here = os.path.dirname(os.path.abspath(__file__))
props = [json.loads(l) for l in open(os.path.join(here, "properties.jsonl"))]
reg = {r["ID"]: r for r in json.loads(subprocess.check_output([os.path.join(here, "bin/bklcheck"), "-list"]))}
na_reasons = json.load(open(os.path.join(here, "not_applicable.json")))
baseline = json.load(open("/root/.vp/BASELINE.json"))["cmd"] if os.path.exists("/root/.vp/BASELINE.json") else "cd /repo && go test -mod=mod -vet=off -count=1 ./..."
checks, na = [], []
for p in props:
    pid = p["id"]
    if pid in reg:
        r = reg[pid]
        checks.append({
            "property_id": pid,
            "quick_cmd": f"./check.sh {pid} quick",
            "thorough_cmd": f"./check.sh {pid} thorough",
            "evidence_file": f"/verif/evidence/{pid}.json",
            "replay_cmd_template": "./bin/bklcheck -explain {path}",
            "engine": "bklcheck",
            "level_claimed": {"category": "other", "text": r["Level"], "design_ref": r["DesignRef"]},
            "level_note": r["Note"],
            "technique": r["Technique"],
        })
    else:
        na.append({"property_id": pid, "reason": na_reasons.get(pid, "no sound static rule built for this property yet")})
m = {
    "version": 1,
    "setup_cmd": "./setup.sh",
    "hooks": {
        "guard": "verif",
        "enable": "none needed: the checks read /repo's source as it is (static analysis); no instrumentation is compiled in",
        "baseline_off_cmd": baseline,
        "source_commits": [],
        "add_only": True,
    },
    "engines": [{
        "name": "bklcheck",
        "path": "/verif/checker",
        "serves_properties": sorted(reg.keys()),
        "kind_free_text": "repository-specific static analyser over go/packages + go/ssa (x/tools v0.29.0): closure-aware call graph, recursion and panic-site audit, map-iteration order audit, ownership/alias summaries, censuses, CLI control-flow discipline, path-effect summaries",
    }],
    "checks": checks,
    "not_applicable": na,
    "notes": "All checks are static: they load and type-check /repo's current working tree on every run and never execute it. Exit 2 + an UNDECIDED line means the analysis met a construct it does not model (neither pass nor violation). The only commits to /repo are 'fix:' repairs of genuine defects (see known_findings.json 'fixed' and DESIGN.md §6).",
}
json.dump(m, open(os.path.join(here, "MANIFEST.json"), "w"), indent=1)
print(f"MANIFEST.json: {len(checks)} checks, {len(na)} not_applicable")
