#!/bin/bash
# usage: ./run_all.sh [quick|thorough] — runs every registered check, prints one line per property
tier="${1:-quick}"
cd "$(dirname "$0")"
[ -x bin/bklcheck ] || ./setup.sh
rc=0
for i in $(seq -w 1 20); do
  s=$(date +%s)
  out=$(./check.sh C$i "$tier" 2>&1); code=$?
  e=$(( $(date +%s) - s ))
  echo "C$i exit=$code ${e}s $(echo "$out" | grep -E '^(OK|VIOLATION|UNDECIDED)' | head -3 | tr '\n' ' ' | cut -c1-300)"
  [ $code -ne 0 ] && rc=1
done
exit $rc
