#!/bin/bash
# Builds the analyser from /verif/checker using only the local module cache.
set -eu
cd "$(dirname "$0")"
export GOFLAGS=-mod=mod GOPROXY=off GOWORK=off
unset GOSUMDB 2>/dev/null || true
mkdir -p bin evidence
(cd checker && go build -o ../bin/bklcheck .)
