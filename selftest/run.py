#!/usr/bin/env python3
"""Self-validation of the analyser: every seeded mutant must be reported by the rule it is
tagged with, every benign variant must leave all rules silent.

Each case copies the Go sources of the repository (no test data) to a scratch directory outside
/repo and /verif, applies one textual replacement, runs the analyser binary on the copy
(-repo <scratch>) and removes the copy. Nothing in the copy is executed.

usage: run.py [--prop C01] [--id name] [--repo /repo] [--jobs 16] [--check-compiles]
exit 0: all mutants caught and all benign variants silent; 2: otherwise (a checker failure, never a VIOLATION)."""
import argparse, json, os, shutil, subprocess, sys, tempfile
from concurrent.futures import ThreadPoolExecutor

HERE = os.path.dirname(os.path.abspath(__file__))
VERIF = os.path.dirname(HERE)
ENV = dict(os.environ, GOFLAGS="-mod=mod", GOPROXY="off", GOWORK="off")
ENV.pop("GOSUMDB", None)

def copy_sources(repo, dst):
    for root, dirs, files in os.walk(repo):
        dirs[:] = [d for d in dirs if d not in (".git", "testdata", "tests", "docs", "krew")]
        rel = os.path.relpath(root, repo)
        for f in files:
            if f.endswith(".go") or f in ("go.mod", "go.sum"):
                os.makedirs(os.path.join(dst, rel), exist_ok=True)
                shutil.copy2(os.path.join(root, f), os.path.join(dst, rel, f))

def run_case(case, repo, check_compiles):
    tmp = tempfile.mkdtemp(prefix="bklmut-", dir="/var/tmp")
    try:
        copy_sources(repo, tmp)
        if case.get("patch"):
            pr = subprocess.run(["git", "apply", "--unsafe-paths", "--directory", tmp, os.path.join(VERIF, case["patch"])], cwd="/", capture_output=True, text=True)
            if pr.returncode != 0:
                pr = subprocess.run(["patch", "-p1", "-s", "-i", os.path.join(VERIF, case["patch"])], cwd=tmp, capture_output=True, text=True)
            if pr.returncode != 0:
                return dict(case=case, status="skipped", detail="patch does not apply (tree diverged): " + (pr.stderr or pr.stdout)[-200:])
            edits = []
        else:
            edits = case.get("edits") or [{"file": case["file"], "old": case["old"], "new": case["new"]}]
        for e in edits:
            path = os.path.join(tmp, e["file"])
            src = open(path).read()
            if src.count(e["old"]) != 1:
                return dict(case=case, status="skipped", detail=f"{e['file']}: pattern occurs {src.count(e['old'])} times (tree diverged)")
            open(path, "w").write(src.replace(e["old"], e["new"]))
        if check_compiles:
            b = subprocess.run(["go", "build", "./..."], cwd=tmp, env=ENV, capture_output=True, text=True)
            if b.returncode != 0:
                return dict(case=case, status="broken", detail="does not compile: " + b.stderr[-400:])
        out = subprocess.run([os.path.join(VERIF, "bin/bklcheck"), "-repo", tmp, "-prop", case["prop"], "-no-evidence"],
                             env=ENV, capture_output=True, text=True)
        lines = [l for l in out.stdout.splitlines() if l.startswith(("VIOLATED", "UNDECIDED"))]
        viol = [l for l in lines if l.startswith("VIOLATED")]
        und = [l for l in lines if l.startswith("UNDECIDED")]
        if case.get("benign"):
            if not lines and out.returncode == 0:
                return dict(case=case, status="ok", detail="silent")
            return dict(case=case, status="FALSE-ALARM", detail="; ".join(lines)[:600] or f"exit {out.returncode}: {out.stdout[-300:]}{out.stderr[-300:]}")
        want = case.get("rule", "")
        hit = [l for l in viol if (" " + want) in l]
        if hit:
            return dict(case=case, status="ok", detail=hit[0][:300])
        if viol:
            return dict(case=case, status="other-rule", detail=viol[0][:300])
        if und:
            return dict(case=case, status="undecided", detail=und[0][:300])
        return dict(case=case, status="MISSED", detail=f"exit {out.returncode} {out.stdout[-200:]} {out.stderr[-300:]}")
    finally:
        shutil.rmtree(tmp, ignore_errors=True)

def main():
    ap = argparse.ArgumentParser()
    ap.add_argument("--prop"); ap.add_argument("--id"); ap.add_argument("--repo", default="/repo")
    ap.add_argument("--jobs", type=int, default=12); ap.add_argument("--check-compiles", action="store_true")
    ap.add_argument("--json")
    a = ap.parse_args()
    cases = []
    for fn in sorted(os.listdir(HERE)):
        if fn.endswith(".json") and fn.startswith("mutants"):
            cases += json.load(open(os.path.join(HERE, fn)))
    # a behaviour-preserving refactoring must leave every property's check silent: one case per property
    expanded = []
    for c in cases:
        if c.get("prop") == "*":
            for i in range(1, 21):
                expanded.append({**c, "prop": f"C{i:02d}", "id": f"{c['id']}@C{i:02d}"})
        else:
            expanded.append(c)
    cases = expanded
    if a.prop: cases = [c for c in cases if c["prop"] == a.prop]
    if a.id: cases = [c for c in cases if a.id in c["id"]]
    with ThreadPoolExecutor(a.jobs) as ex:
        results = list(ex.map(lambda c: run_case(c, a.repo, a.check_compiles), cases))
    bad = 0
    counts = {}
    for r in results:
        counts[r["status"]] = counts.get(r["status"], 0) + 1
        flag = r["status"] not in ("ok", "skipped")
        if flag: bad += 1
        print(f"{r['status']:12s} {r['case']['prop']} {r['case']['id']:40s} {r['detail'][:220]}")
    print("summary:", counts)
    if a.json:
        json.dump([{**{k: v for k, v in r["case"].items() if k in ("id", "prop", "rule", "benign")}, "status": r["status"]} for r in results], open(a.json, "w"), indent=1)
    sys.exit(2 if bad else 0)

if __name__ == "__main__":
    main()
